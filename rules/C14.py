"""C14 — SVG rendering is well-formed, text-preserving and style-faithful (structural part)."""
import hir
import hirpp
from core import AnchorMissing, Unrecognised, loc
from rules import anstyle_common as ac
from spec import sgr

META = {
    "explanation": (
        "Static decision on anstyle_svg: (taint) in write_fg_span / write_bg_span the caller's text is used only as the argument of "
        "html_escape::encode_text, and what is written is that escaped value (fg spans) or fill characters repeated to its width "
        "(bg spans); in render_svg no string derived from the input text is ever a format argument — text reaches the buffer only "
        "through the two span writers; class names come from color_name (colour values, hex / decimal digits and fixed names "
        "only); (pairing) fg->FG_PREFIX, bg->BG_PREFIX, underline->UNDERLINE_PREFIX is the same in write_fg_span, write_bg_span, "
        "color_styles and the three starts_with branches of the sheet writer, and the sheet is built from the same post-invert "
        "run list the spans use; (classes) the (effect constant -> class string) pairs pushed in write_fg_span equal the (effect "
        "constant -> `.class {` rule) pairs emitted under effects_in_use.contains(..); (invert) the pre-pass swaps fg/bg with "
        "unwrap_or(self.bg_color) / unwrap_or(self.fg_color) and removes INVERT; rgb_value goes through color_to_rgb(color, "
        "palette) and prints #RRGGBB; ANSI_NAMES is in from_ansi index order; (balance) a tag-level abstract interpretation of "
        "all literal template fragments along every structured path (sequence / branch / loop) shows balanced svg / style / rect / "
        "text / tspan tags and attribute quotes; the height uses styled_lines.len(); (text) every non-empty fragment of every line "
        "reaches the foreground span writer, and the sheet and the lines are computed after the invert pre-pass; (lines) split_lines "
        "cuts each run at every LF, drops only a CR directly before it, keeps style and order, and keeps an unterminated last "
        "line. Does NOT decide width computation nor XML validity of characters (excluded by the property)."
        " (runs) the run list is WinconBytes::new().extract_next(ansi.as_bytes()).collect(), and the extractor's own SGR rules "
        "(codes / substate / targets / emit of C07) are evaluated in this check as well, since a span can only be tagged with the style in effect if the runs carry it."
        " Linked rules: the VT parser underneath (C02's table / order / action-map / guards / reset / limits / params rules, all but the OSC payload rule) is evaluated in this check too — a run is only right if every complete SGR sequence is dispatched with its parameters."),
}

MANIFEST = {
    "level": ("Sound static decision of escaping (taint), class/sheet agreement, prefix pairing, invert handling and tag balance "
              "for every input: these are dataflow and template-structure facts that hold on every path regardless of the text. "
              "Text preservation per line (split_lines) is not claimed."),
    "note": ("Trusted: rustc front end; html_escape::encode_text escapes &, <, > for XML text; the format_args decoder; the tag "
             "automaton in this file. Not decided: split_lines / CR handling / widths; characters not representable in XML."),
    "technique": "static analysis: taint (source/sanitiser/sink) over resolved HIR, sibling agreement of class tables, template extraction with a tag-balance abstract interpretation over structured control flow, abstract evaluation of split_lines against a line model and of the invert pre-pass per case",
}

V = "anstyle_svg::"
EFFECT_CLASS = {"UNDERLINE": "underline", "DOUBLE_UNDERLINE": "double-underline", "CURLY_UNDERLINE": "curly-underline",
                "DOTTED_UNDERLINE": "dotted-underline", "DASHED_UNDERLINE": "dashed-underline", "STRIKETHROUGH": "strikethrough",
                "BOLD": "bold", "ITALIC": "italic", "DIMMED": "dimmed", "HIDDEN": "hidden"}


def run(ctx):
    rep, facts = ctx.report, ctx.facts
    rep.guarded("taint", V, lambda: rule_taint(facts, rep))
    rep.guarded("pairing", V, lambda: rule_pairing(facts, rep))
    rep.guarded("classes", V, lambda: rule_classes(facts, rep))
    rep.guarded("invert", V + "Term::render_svg", lambda: rule_invert(facts, rep))
    rep.guarded("names", V, lambda: rule_names(facts, rep))
    rep.guarded("balance", V, lambda: rule_balance(facts, rep))
    rep.guarded("text", V + "Term::render_svg", lambda: rule_text(facts, rep))
    rep.guarded("text", V + "Term::render_svg", lambda: rule_rows(facts, rep))
    rep.guarded("lines", V + "split_lines", lambda: rule_lines(facts, rep))
    # the styles the spans are tagged with are the runs of anstream's styled-run extractor: its SGR rules are evaluated here as
    # well (same rules as C07), and render_svg must take its runs from it
    from rules import links
    links.extractor(facts, rep)
    links.parser_under_sgr(facts, rep)
    links.colours_to_rgb(facts, rep)      # the sheet's RGB values come from anstyle-lossy's palette lookups
    rep.guarded("runs", V + "Term::render_svg", lambda: rule_runs(facts, rep))
    for r, n in (("taint", 8), ("pairing", 9), ("classes", 11), ("invert", 4), ("names", 6), ("balance", 4), ("text", 5), ("lines", 7), ("codes", 26), ("substate", 33), ("targets", 5), ("emit", 9), ("runs", 2)):
        rep.floor(r, n)


def buffer_writes(root, buf="buffer"):
    """All write_fmt calls whose receiver is `buffer` → (node, pieces, args)."""
    out = []
    for n in hir.walk(root):
        if n.get("k") == "call" and hir.callee_decl(n) == "core::fmt::Write::write_fmt" and hir.is_local(n["args"][0], buf):
            pieces, args = hir.fmt_template(n["args"][1])
            out.append((n, pieces, args))
    return out


def lets_of(root):
    out = {}
    for n in hir.walk(root):
        if n.get("k") == "let" and n["pat"].get("k") == "pbind" and "init" in n:
            out.setdefault(n["pat"]["name"], []).append(n)
    return out


def span_output(facts, fn, style):
    """What a span writer appends to the buffer for a fragment standing for any text (the symbol TEXT), by abstract evaluation:
    a list of tokens — literal strings and ("shown", value) for displayed values that are not known strings.  encode_text and
    color_name stay uninterpreted, third-party calls become applications."""
    import abseval
    out = []
    atoms = {"fmt:sink": lambda a_: (out.append(a_[1]), ("ok", ("unit",)))[1],
             "html_escape::encode::html_entity::encode_text": lambda a_: ("escaped", a_[0]),
             V + "color_name": lambda a_: ("class-name", a_[0], a_[1]),
             "*": lambda cal, a_, e_: ("app", cal) + tuple(a_)}
    ev = abseval.Evaluator(facts, "anstyle_svg", atoms, inline_crates=("anstyle_svg", "anstyle"))
    ev.concrete_strings = True
    ev.fmt_symbolic = True
    ev.call_fn("anstyle_svg", V + fn, [("sym", "buffer"), style, ("sym", "TEXT")])
    toks = []
    for o in out:
        for x in ([o[1]] if o[0] == "str" else list(o[1:])):
            if isinstance(x, str) and toks and isinstance(toks[-1], str):
                toks[-1] += x
            else:
                toks.append(x)
    return toks


def _count_text(v):
    if v == ("sym", "TEXT"):
        return 1
    if isinstance(v, (tuple, list)):
        return sum(_count_text(x) for x in v)
    return 0


def rule_taint(facts, rep):
    import itertools
    bit = {n_: v_ for n_, v_, _ in ac.effect_consts(facts)}
    allbits = 0
    for v_ in bit.values():
        allbits |= v_
    opt = lambda c: ("some", ("sym", c)) if c else ("none",)
    for fn, kind in (("write_fg_span", "fg"), ("write_bg_span", "bg")):
        b = facts.body("anstyle_svg", V + fn)
        rep.fn(b["path"])
        names = [p.get("name") for p in b["params"]]
        if len(names) != 3:
            raise AnchorMissing(f"{fn} parameters {names}")
        # by evaluation over styles (each colour present or not; no effect, each single effect, all of them) with the fragment a
        # symbol: the output is <tspan[ class="…"]>BODY</tspan>; the symbol occurs once, inside encode_text(..), and BODY is that
        # escaped text (foreground layer) / a fill character repeated to the escaped text's width (background layer); the class
        # list holds literals and colour names only.  Temporaries, shadowing and how the class list is assembled do not matter.
        bad = {"raw": [], "body": [], "one": [], "classes": [], "other": []}
        n = 0
        for (fg, bg, ul), eff in itertools.product(itertools.product((None, "F"), (None, "B"), (None, "U")), [0, allbits] + sorted(bit.values())):
            style = ("rec", {"fg": opt(fg), "bg": opt(bg), "underline": opt(ul), "effects": ("ctor", "anstyle::effect::Effects", ("int", eff))})
            toks = span_output(facts, fn, style)
            n += 1
            case = f"colours {(fg, bg, ul)}, effects {eff:#x}"
            shown = [t for t in toks if not isinstance(t, str)]
            esc = ("escaped", ("sym", "TEXT"))
            if kind == "fg":
                body_ok = lambda v: v == ("shown", esc)
            else:
                fill = "█" if bg else " "
                body_ok = lambda v, fill=fill: (v[0] == "shown" and v[1][0] == "app" and v[1][1].endswith("::repeat") and v[1][2] == ("str", fill) and
                                                len(v[1]) == 4 and v[1][3][0] == "app" and v[1][3][1].endswith("UnicodeWidthStr>::width") and list(v[1][3][2:]) == [esc])
            bodies = [t for t in shown if _count_text(t)]
            if _count_text(toks) != 1 or not all(_count_text(t) == 0 or repr(esc) in repr(t) for t in shown):
                bad["raw"].append(f"{case}: {str(toks)[:200]}")
            if len(bodies) != 1:
                bad["one"].append(f"{case}: {len(bodies)} writes carry the text")
            elif not body_ok(bodies[0]) or toks[-1] != "</tspan>" or toks[-2] is not bodies[0] or not (isinstance(toks[-3], str) and toks[-3].endswith(">")):
                bad["body"].append(f"{case}: {str(toks)[:200]}")
            for t in shown:
                if t in bodies:
                    continue
                members = list(t[1][2:]) if t[1][0] == "joined" else [t[1]]
                if not all(m[0] == "str" or (m[0] == "class-name" and m[1][0] == "str" and m[2] in (("sym", "F"), ("sym", "B"), ("sym", "U"))) for m in members):
                    bad["classes"].append(f"{case}: {str(t)[:160]}")
                i_ = toks.index(t)
                if not (i_ >= 1 and isinstance(toks[i_ - 1], str) and toks[i_ - 1].endswith(' class="') and isinstance(toks[i_ + 1], str) and toks[i_ + 1].startswith('"')):
                    bad["other"].append(f"{case}: {str(t)[:120]} written outside the class attribute")
        rep.count(n)
        rep.check(not bad["raw"], "taint", b["path"], "raw-text-only-into-encode_text",
                  f"the caller's text must be used exactly once, as html_escape::encode_text(fragment) ({n} styles evaluated): {bad['raw'][:1]}"[:400], loc(b))
        if kind == "fg":
            rep.check(not bad["body"], "taint", b["path"], "fg-span-writes-the-escaped-text",
                      f"the text written into the span must be the value returned by encode_text: {bad['body'][:1]}"[:400], loc(b))
        else:
            rep.check(not bad["body"], "taint", b["path"], "bg-span-writes-fill-characters-only",
                      f"the background layer must contain only '█' / ' ' repeated to the fragment's width, never the text: {bad['body'][:1]}"[:400], loc(b))
        rep.check(not bad["one"], "taint", b["path"], "one-text-write", f"{bad['one'][:1]}", loc(b))
        rep.check(not bad["classes"], "taint", b["path"], "classes-are-literals-or-colour-names", f"{bad['classes'][:1]}"[:300], loc(b))
        if bad["other"]:
            rep.bad("taint", b["path"], "unexpected-format-argument", f"only the escaped text and the class list may be written: {bad['other'][:1]}"[:300], loc(b))
    # render_svg: the text never is a format argument
    r = facts.body("anstyle_svg", V + "Term::render_svg")
    rep.fn(r["path"])
    lets = lets_of(r["hir"])
    safe_sources = {"width_px", "height", "fg_color", "bg_color", "name", "rgb", "line_height", "font_family", "text_x", "text_y"}
    bad = []
    n_args = 0
    for n, pieces, args in buffer_writes(r["hir"]):
        for a in args:
            a = hir.simp(a)
            n_args += 1
            if a.get("k") == "def" and a["path"] in (V + "Term::render_svg::FG", V + "Term::render_svg::BG"):
                continue
            if a.get("k") == "local" and a["name"] in safe_sources:
                ty = a.get("ty", "")
                if a["name"] in ("name", "rgb", "fg_color", "bg_color", "font_family") or ty in ("usize", "&usize", "i32"):
                    continue
            bad.append(hirpp.expr(a))
    rep.check(not bad and n_args >= 10, "taint", r["path"], "format-arguments-are-numbers-colours-or-constants", f"{bad}", loc(r))
    # name/rgb come from color_styles; fg_color/bg_color from rgb_value; font_family from self
    ok = hir.is_call(hir.simp(lets["fg_color"][0]["init"]), V + "rgb_value") and hir.is_call(hir.simp(lets["bg_color"][0]["init"]), V + "rgb_value") and \
        hir.place_str(lets["font_family"][0]["init"]) == "self.font_family"
    loops = [l for l in (hir.for_loop(x) for x in hir.walk(r["hir"]) if x.get("k") == "match" and x.get("src") == "ForLoopDesugar") if l]
    sheet = [l for l in loops if hir.is_call(hir.simp(l[1]), V + "color_styles")]
    ok = ok and len(sheet) == 1 and [p.get("name") for p in sheet[0][0].get("pats", [])] == ["name", "rgb"]
    rep.check(ok, "taint", r["path"], "sources-of-string-arguments", "fg_color/bg_color = rgb_value(..), (name, rgb) from color_styles(..), font_family = self.font_family", loc(r))
    # the input text flows only into the parser, split_lines and the two span writers
    span_calls = [x for x in hir.walk(r["hir"]) if hir.is_call(x, V + "write_fg_span", V + "write_bg_span")]
    ok = len(span_calls) == 2 and all(hir.is_local(c["args"][0], "buffer") and hir.is_local(c["args"][1], "style") and hir.is_local(c["args"][2], "fragment") for c in span_calls)
    rep.check(ok, "taint", r["path"], "text-reaches-output-only-through-span-writers", "", loc(r))


def prefix_of(e):
    p = hir.def_path(e)
    return p.split("::")[-1] if p and p.startswith(V) and p.endswith("_PREFIX") else None


def rule_pairing(facts, rep):
    for path, want in ((V + "FG_PREFIX", "fg"), (V + "BG_PREFIX", "bg"), (V + "UNDERLINE_PREFIX", "underline")):
        b = facts.body("anstyle_svg", path)
        rep.check(hir.lit_val(ac.single_expr(b["hir"])) == want, "pairing", path, f"='{want}'", "", loc(b))
    want = {"get_fg_color": "FG_PREFIX", "get_bg_color": "BG_PREFIX", "get_underline_color": "UNDERLINE_PREFIX"}

    def pairs_in(b):
        """getter → prefix used in color_name for the value obtained from that getter."""
        out = {}
        RES = hir.Resolver(b["hir"])
        for n in hir.walk(b["hir"]):
            # style.get_X().map(|c| color_name(PREFIX, c))
            if hir.is_call(n, "Option::<T>::map") and hir.is_call(hir.simp(n["args"][0]), "anstyle::style::Style::get_fg_color", "anstyle::style::Style::get_bg_color", "anstyle::style::Style::get_underline_color"):
                g = hir.callee(hir.simp(n["args"][0])).split("::")[-1]
                clo = hir.simp(n["args"][1])
                if clo.get("k") == "closure":
                    c = hir.simp(clo["body"])
                    if hir.is_call(c, V + "color_name") and hir.is_local(c["args"][1], clo["params"][0].get("name")):
                        out[g] = prefix_of(c["args"][0])
            # if let Some(color) = style.get_X() { colors.insert(color_name(PREFIX, color), rgb_value(color, palette)) }
            if n.get("k") == "if" and hir.simp(n["c"]).get("k") == "letexpr":
                le = hir.simp(n["c"])
                init = hir.simp(RES.res(hir.simp(le["init"])))          # (the getter's result may sit in a temporary first)
                if init.get("k") == "call" and hir.callee(init).startswith("anstyle::style::Style::get_"):
                    g = hir.callee(init).split("::")[-1]
                    var = le["pat"]["pats"][0].get("name")
                    names = [c for c in hir.walk(n["t"]) if hir.is_call(c, V + "color_name")]
                    rgbs = [c for c in hir.walk(n["t"]) if hir.is_call(c, V + "rgb_value")]
                    if len(names) == 1 and len(rgbs) == 1 and hir.is_local(names[0]["args"][1], var) and hir.is_local(rgbs[0]["args"][0], var) and hir.is_local(rgbs[0]["args"][1], "palette"):
                        out[g] = prefix_of(names[0]["args"][0])
        return out

    fg = facts.body("anstyle_svg", V + "write_fg_span")
    got = pairs_in(fg)
    rep.check(got == {k: v for k, v in want.items() if k != "get_bg_color"}, "pairing", fg["path"], "fg/underline-prefixes", f"{got}", loc(fg))
    bg = facts.body("anstyle_svg", V + "write_bg_span")
    got = pairs_in(bg)
    rep.check(got == {"get_bg_color": "BG_PREFIX"}, "pairing", bg["path"], "bg-prefix", f"{got}", loc(bg))
    cs = facts.body("anstyle_svg", V + "color_styles")
    rep.fn(cs["path"])
    got = pairs_in(cs)
    rep.check(got == want, "pairing", cs["path"], "sheet-entries-use-the-same-prefixes", f"every class a span can carry is defined with the palette value of the same colour: {got}", loc(cs))
    # by abstract evaluation on run lists: every colour a run carries gets its sheet entry whatever the run's text is (visible,
    # blank, empty) and wherever it stands — a span's class without a rule in the sheet has no colour at all
    import abseval
    import itertools as _it
    consts = {}
    for nm in ("FG_PREFIX", "BG_PREFIX", "UNDERLINE_PREFIX"):
        consts[V + nm] = nm

    def sheet_of(runs):
        entries = []
        atoms = {"alloc::collections::btree::map::BTreeMap::<K, V, A>::insert": lambda a_: (entries.append((a_[1], a_[2])), ("none",))[1],
                 "alloc::collections::btree::map::BTreeMap::<K, V>::new": lambda a_: ("sym", "map"),
                 V + "color_name": lambda a_: ("name", a_[0], a_[1]), V + "rgb_value": lambda a_: ("rgb", a_[0], a_[1]),
                 "*": lambda cal, a_, e_: ("app", cal) + tuple(a_)}
        ev = abseval.Evaluator(facts, "anstyle_svg", atoms, inline_crates=("anstyle",))
        ev.concrete_strings = True
        ev.consts = dict(consts)
        ev.call_fn("anstyle_svg", cs["path"], [("array",) + tuple(runs), ("sym", "palette")])
        return entries

    def style(fg, bg, ul):
        o = lambda c: ("some", ("sym", c)) if c else ("none",)
        return ("rec", {"fg": o(fg), "bg": o(bg), "underline": o(ul), "effects": ("ctor", "anstyle::effect::Effects", ("int", 0))})
    bad_ = []
    n_cases = 0
    for text in ("x", " ", "", "\n", " \t "):
        for fg, bg, ul in _it.product((None, "F"), (None, "B"), (None, "U")):
            for lead in ((), (("tuple", style(None, None, None), ("str", "visible")),)):
                n_cases += 1
                runs = list(lead) + [("tuple", style(fg, bg, ul), ("str", text))]
                want_e = [(("name", ("str", p_), ("sym", c)), ("rgb", ("sym", c), ("sym", "palette")))
                          for p_, c in (("FG_PREFIX", fg), ("BG_PREFIX", bg), ("UNDERLINE_PREFIX", ul)) if c]
                try:
                    got_e = sheet_of(runs)
                except Unrecognised as ex:
                    got_e = [("not-evaluable", str(ex)[:80])]
                if sorted(map(repr, got_e)) != sorted(map(repr, want_e)):
                    bad_.append(f"run text {text!r}, colours {(fg, bg, ul)}: entries {str(got_e)[:160]}")
    rep.count(n_cases)
    rep.check(not bad_, "pairing", cs["path"], "every-carried-colour-gets-its-entry", f"{n_cases} run lists evaluated {bad_[:2]}"[:500], loc(cs))
    # sheet writer: starts_with(PREFIX) → rule kind
    r = facts.body("anstyle_svg", V + "Term::render_svg")
    kinds = {}
    for n in hir.walk(r["hir"]):
        if n.get("k") == "if" and hir.is_call(hir.simp(n["c"]), "starts_with") and hir.is_local(hir.simp(n["c"])["args"][0], "name"):
            p = prefix_of(hir.simp(n["c"])["args"][1])
            ws = buffer_writes(n["t"])
            text = "".join(x if isinstance(x, str) else "{}" for x in ws[0][1]) if len(ws) == 1 else "?"
            kinds[p] = "fill" if "fill: {}" in text and "stroke" not in text else "stroke+fill" if "stroke: {}" in text else "text-decoration-color" if "text-decoration-color: {}" in text else "?"
    rep.check(kinds == {"FG_PREFIX": "fill", "BG_PREFIX": "stroke+fill", "UNDERLINE_PREFIX": "text-decoration-color"}, "pairing", r["path"], "sheet-rule-kind-per-prefix", f"{kinds}", loc(r))
    # the sheet is computed from the same (post-invert) run list that is split into lines
    lets = lets_of(r["hir"])
    sheet_arg = [hir.local_name(c["args"][0]) for c in hir.walk(r["hir"]) if hir.is_call(c, V + "color_styles")]
    lines_arg = [hir.local_name(c["args"][0]) for c in hir.walk(r["hir"]) if hir.is_call(c, V + "split_lines")]
    rep.check(sheet_arg == ["styled"] and lines_arg == ["styled"], "pairing", r["path"], "sheet-and-spans-from-the-same-run-list", f"{sheet_arg} {lines_arg}", loc(r))
    rep.check(bool([c for c in hir.walk(r["hir"]) if hir.is_call(c, V + "color_styles") and hir.place_str(c["args"][1]) == "self.palette"]), "pairing", r["path"], "sheet-uses-configured-palette", "", loc(r))


def rule_classes(facts, rep):
    fg = facts.body("anstyle_svg", V + "write_fg_span")
    lets = lets_of(fg["hir"])
    flag_of = {}
    for name, ls in lets.items():
        e = hir.simp(ls[0]["init"])
        if hir.is_call(e, "anstyle::effect::Effects::contains") and hir.is_local(e["args"][0], "effects"):
            flag_of[name] = hir.last_seg(hir.def_path(e["args"][1]))
    span = {}
    R = hir.Resolver(fg["hir"])
    for n in hir.walk(fg["hir"]):
        if n.get("k") != "if":
            continue
        c = hir.simp(n["c"])
        eff = None
        if c.get("k") == "local" and c["name"] in flag_of:
            eff = flag_of[c["name"]]
        elif hir.is_call(c, "anstyle::effect::Effects::contains") and hir.is_local(c["args"][0], "effects"):
            eff = hir.last_seg(hir.def_path(hir.simp(R.res(c["args"][1])))) if hir.def_path(hir.simp(R.res(c["args"][1]))) else None
        if eff is None:
            continue
        pushes = [c_ for c_ in hir.walk(n["t"]) if hir.is_call(c_, "alloc::vec::Vec::<T, A>::push")]
        if len(pushes) == 1 and "e" not in n:
            if eff in span:
                span[eff] = None         # two tests of one effect: ambiguous
            else:
                span[eff] = hir.lit_val(hir.simp(R.res(pushes[0]["args"][1])))
    r = facts.body("anstyle_svg", V + "Term::render_svg")
    sheet = {}
    for n in hir.walk(r["hir"]):
        if n.get("k") == "if":
            c = hir.simp(n["c"])
            if hir.is_call(c, "anstyle::effect::Effects::contains") and hir.is_local(c["args"][0], "effects_in_use"):
                ws = buffer_writes(n["t"])
                if len(ws) == 1:
                    text = "".join(x for x in ws[0][1] if isinstance(x, str)).strip()
                    cls = text.split("{")[0].strip().lstrip(".")
                    sheet[hir.last_seg(hir.def_path(c["args"][1]))] = cls
    for eff, cls in EFFECT_CLASS.items():
        rep.check(span.get(eff) == cls, "classes", fg["path"], f"span:{eff}→{cls}", f"{span.get(eff)}", loc(fg))
        rep.check(sheet.get(eff) == cls, "classes", r["path"], f"sheet:{eff}→.{cls}", f"a class used on spans must be defined under the same effect test: {sheet.get(eff)}", loc(r))
        rep.count(2)
    rep.check(set(span) == set(sheet), "classes", V, "span-classes==sheet-classes", f"{sorted(set(span) ^ set(sheet))}", "")
    # effects_in_use accumulates the (post-invert) effects of every run
    try:
        cases, bit_ = prepass_cases(facts)
        bad_use = []
        for (inv, fgp, bgp), before, after, in_use, bits in cases:
            use = in_use[2][1] if in_use[0] == "ctor" and in_use[2][0] == "int" else None
            if use != (bit_["ITALIC"] | (bits & ~bit_["INVERT"])):
                bad_use.append(f"run effects {bits:#x}: effects_in_use becomes {use}")
        ok = bool(cases) and not bad_use
    except Unrecognised as ex:
        ok, bad_use = False, [f"not evaluable: {ex}"]
    rep.check(ok, "classes", r["path"], "effects_in_use=union-of-run-effects",
              f"effects_in_use accumulates the (post-invert) effects of every run {bad_use[:2]}", loc(r))
    ef = hir.simp(lets["effects"][0]["init"])
    rep.check(hir.is_call(ef, "anstyle::style::Style::get_effects") and hir.is_local(ef["args"][0], "style"), "classes", fg["path"], "effects-of-this-span", "", loc(fg))


def prepass_cases(facts):
    """The invert pre-pass of render_svg (the body of the loop over `&mut styled`) by abstract evaluation, per run: for INVERT on/off
    and each colour present or not -> (style after, effects_in_use after).  Returns [(case, before, after style, in_use)]."""
    import abseval
    import itertools
    r = facts.body("anstyle_svg", V + "Term::render_svg")
    loops = []
    for n in hir.walk(r["hir"]):
        if n.get("k") == "match" and n.get("src") == "ForLoopDesugar":
            fl = hir.for_loop(n)
            if fl and hir.is_local(hir.peel(fl[1]), "styled") and any(hir.is_def(x, "Effects::INVERT") for x in hir.walk(fl[2])):
                loops.append(fl)
    if len(loops) != 1:
        raise AnchorMissing(f"render_svg: the invert pre-pass over `styled` was not found ({len(loops)} candidates)")
    pat, it, body = loops[0]
    if not (pat.get("k") == "ptuple" and pat["pats"][0].get("k") == "pbind"):
        raise Unrecognised("pre-pass loop pattern")
    sname = pat["pats"][0]["name"]
    bit = {n_: v for n_, v, _ in ac.effect_consts(facts)}
    out = []
    for inv, fgp, bgp in itertools.product((True, False), repeat=3):
        bits = bit["BOLD"] | (bit["INVERT"] if inv else 0)
        before = {"fg": ("some", ("sym", "FG")) if fgp else ("none",), "bg": ("some", ("sym", "BG")) if bgp else ("none",),
                  "underline": ("some", ("sym", "UL")), "effects": ("ctor", "anstyle::effect::Effects", ("int", bits))}
        ev = abseval.Evaluator(facts, "anstyle_svg", {}, inline_crates=("anstyle",))
        env = abseval.Env()
        env.update({sname: ("rec", dict(before)), "self.fg_color": ("sym", "DEFAULT-FG"), "self.bg_color": ("sym", "DEFAULT-BG"),
                    "effects_in_use": ("ctor", "anstyle::effect::Effects", ("int", bit["ITALIC"]))})
        ev.ev(body, env)
        out.append(((inv, fgp, bgp), before, env[sname], env["effects_in_use"], bits))
    return out, bit


def rule_invert(facts, rep):
    r = facts.body("anstyle_svg", V + "Term::render_svg")
    try:
        cases, bit = prepass_cases(facts)
        why = ""
    except Unrecognised as ex:
        cases, bit, why = [], {}, f"not evaluable: {ex}"
    rep.check(bool(cases), "invert", r["path"], "pre-pass-exists", why, loc(r))
    bad = {"fg": [], "bg": [], "eff": [], "plain": [], "use": []}
    for (inv, fgp, bgp), before, after, in_use, bits in cases:
        if after[0] != "rec":
            bad["plain"].append(str(after)[:80])
            continue
        a = after[1]
        want_eff = bits & ~bit["INVERT"]
        eff = a["effects"][2][1] if a["effects"][0] == "ctor" and a["effects"][2][0] == "int" else None
        if inv:
            if a.get("fg") != ("some", ("sym", "BG") if bgp else ("sym", "DEFAULT-BG")):
                bad["fg"].append(f"bg {'set' if bgp else 'unset'}: fg becomes {a.get('fg')}")
            if a.get("bg") != ("some", ("sym", "FG") if fgp else ("sym", "DEFAULT-FG")):
                bad["bg"].append(f"fg {'set' if fgp else 'unset'}: bg becomes {a.get('bg')}")
            if eff != want_eff or a.get("underline") != before["underline"]:
                bad["eff"].append(f"effects {eff}, expected {want_eff}; underline {a.get('underline')}")
        elif a != before:
            bad["plain"].append(f"a run without INVERT is changed: {str(a)[:100]}")
        use = in_use[2][1] if in_use[0] == "ctor" and in_use[2][0] == "int" else None
        if use != (bit["ITALIC"] | want_eff):
            bad["use"].append(f"effects_in_use {use}, expected {bit['ITALIC'] | want_eff}")
    ok = bool(cases)
    rep.check(ok and not bad["fg"], "invert", r["path"], "fg←bg-or-default-bg", f"an inverted run's foreground is its background, or the terminal's default background {bad['fg'][:2]}", loc(r))
    rep.check(ok and not bad["bg"], "invert", r["path"], "bg←fg-or-default-fg", f"an inverted run's background is its foreground, or the terminal's default foreground {bad['bg'][:2]}", loc(r))
    rep.check(ok and not bad["eff"] and not bad["plain"], "invert", r["path"], "INVERT-removed",
              f"INVERT is cleared, the other effects and the underline colour stay; runs without INVERT are untouched {(bad['eff'] + bad['plain'])[:2]}", loc(r))
    rule_invert.use_ok = ok and not bad["use"]
    rule_invert.use_why = str(bad["use"][:2])


def _arg_name(x):
    """What a format argument is: a local's name; `c.0/.1/.2` or `c.r()/.g()/.b()` of a colour are its components r, g, b."""
    x = hir.peel(hir.simp(x))
    if x.get("k") == "local":
        return x["name"]
    if x.get("k") == "field" and x["name"] in ("0", "1", "2") and hir.peel(hir.simp(x["e"])).get("k") == "local":
        return "rgb"[int(x["name"])]
    if x.get("k") == "call" and hir.callee(x) in ("anstyle::color::RgbColor::r", "anstyle::color::RgbColor::g", "anstyle::color::RgbColor::b") \
            and hir.peel(hir.simp(x["args"][0])).get("k") == "local":
        return hir.callee(x)[-1]
    return None


def rule_names(facts, rep):
    n = facts.body("anstyle_svg", V + "ANSI_NAMES")
    arr = ac.single_expr(n["hir"])
    vals = [hir.lit_val(x) for x in arr.get("es", [])]
    want = []
    for a in sgr.ANSI16:
        want.append(("bright-" + a[len("Bright"):].lower()) if a.startswith("Bright") else a.lower())
    rep.check(vals == want, "names", n["path"], "from_ansi-index-order", f"{vals}", loc(n))
    c = facts.body("anstyle_svg", V + "color_name")
    rep.fn(c["path"])
    m = ac.single_expr(c["hir"])
    got = {}
    for a in m["arms"]:
        v = hir.last_seg(hir.pat_path(a["pat"]))
        fmts = hir.fmt_blocks(a["body"])
        if len(fmts) == 1:
            pieces, args = hir.fmt_template(fmts[0])
            got[v] = ("".join(p if isinstance(p, str) else ("{:%s%s}" % ("0%d" % p[3]["width"] if len(p) > 3 and p[3].get("zero_pad") else "", "X" if p[2] == "new_upper_hex" else "")) for p in pieces),
                      [_arg_name(x) for x in args])
        if v == "Ansi":
            idx = [x for x in hir.walk(a["body"]) if x.get("k") == "index" and hir.is_def(x["e"], "anstyle_svg::ANSI_NAMES")]
            fa = [x for x in hir.walk(a["body"]) if hir.is_call(x, "anstyle::color::Ansi256Color::from_ansi")]
            rep.check(len(idx) == 1 and len(fa) == 1, "names", c["path"], "Ansi→ANSI_NAMES[from_ansi(color).index()]", "", loc(c))
    rep.check(got.get("Ansi") == ("{:}-{:}", ["prefix", "name"]) and got.get("Ansi256") == ("{:}-ansi256-{:03}", ["prefix", "index"]) and
              got.get("Rgb") == ("{:}-rgb-{:02X}{:02X}{:02X}", ["prefix", "r", "g", "b"]), "names", c["path"], "class-name-templates",
              f"class names consist of the prefix, fixed words and digits only: {got}", loc(c))
    rv = facts.body("anstyle_svg", V + "rgb_value")
    rep.fn(rv["path"])
    calls = [x for x in hir.walk(rv["hir"]) if hir.is_call(x, "anstyle_lossy::color_to_rgb")]
    ok = len(calls) == 1 and [hir.local_name(a) for a in calls[0]["args"]] == ["color", "palette"]
    rep.check(ok, "names", rv["path"], "through-color_to_rgb(color,palette)", "", loc(rv))
    # ... on every call: a value remembered from an earlier call (static / thread-local cache) would carry another Term's palette
    statics = [i["path"] for i in facts.items("anstyle_svg") if i["dk"] == "Static"]
    tls = [x for b_ in facts.bodies("anstyle_svg") if "hir" in b_ and "::tests" not in b_["path"] for x in hir.walk(b_["hir"])
           if x.get("k") == "call" and "thread::local::LocalKey" in (hir.callee(x) or "")]
    conds = [x for x in hir.walk(rv["hir"]) if x.get("k") in ("if", "match") and x.get("src") not in ("TryDesugar",) and not hir.is_fmt_block(x)]
    rep.check(not statics and not tls, "names", "anstyle_svg", "no-state-between-renders", f"statics {statics}, thread-local accesses {len(tls)}", "")
    fmts = hir.fmt_blocks(rv["hir"])
    ok = False
    if len(fmts) == 1:
        pieces, args = hir.fmt_template(fmts[0])
        ok = pieces[0] == "#" and len(pieces) == 4 and [p[2] for p in pieces[1:]] == ["new_upper_hex"] * 3 and all(len(p) > 3 and p[3].get("zero_pad") and p[3].get("width") == 2 for p in pieces[1:]) and \
            [_arg_name(x) for x in args] == ["r", "g", "b"]
    rep.check(ok, "names", rv["path"], "#RRGGBB", "", loc(rv))
    r = facts.body("anstyle_svg", V + "Term::render_svg")
    lets = lets_of(r["hir"])
    h = hir.simp(lets["height"][0]["init"])
    ok = any(hir.is_call(x, "len") and hir.is_local(x["args"][0], "styled_lines") for x in hir.walk(h)) and any(hir.is_local(x, "line_height") for x in hir.walk(h))
    rep.check(ok, "names", r["path"], "height-counts-every-line", "height = styled_lines.len() * line_height + padding", loc(r))
    fgc = hir.simp(lets["fg_color"][0]["init"])
    rep.check(hir.place_str(fgc["args"][0]) == "self.fg_color" and hir.place_str(fgc["args"][1]) == "self.palette", "names", r["path"], "default-colours-through-palette", "", loc(r))


def rule_text(facts, rep):
    """Every fragment of every line reaches the foreground span writer unless it is empty; the sheet is computed after the
    invert pre-pass (so it describes the colours the spans really carry)."""
    r = facts.body("anstyle_svg", V + "Term::render_svg")
    calls = hir.visit_with_conds(r["hir"], lambda n: hir.is_call(n, V + "write_fg_span", V + "write_bg_span"))
    for n, frames in calls:
        which = hir.callee(n).split("::")[-1]
        loops = [f for f in frames if f.get("kind") == "loop"]
        inner = frames[frames.index(loops[-1]) + 1:] if loops else frames
        conds = [f for f in inner if f.get("kind") == "if"]
        ok = True
        why = []
        for f in conds:
            c = hir.simp(f["expr"])
            is_empty_test = hir.is_call(c, "is_empty") and hir.is_local(c["args"][0], "fragment")
            if not (is_empty_test and f["val"] is False):
                ok = False
                why.append(("" if f["val"] else "!") + hirpp.expr(c)[:70])
        rep.check(ok and len(loops) == 2, "text", r["path"], f"{which}:every-non-empty-fragment-is-written",
                  f"inside the per-fragment loop the span writer may be skipped only for an empty fragment; extra conditions: {why}", loc(r, n))
        rep.check(hir.is_local(n["args"][2], "fragment") and hir.is_local(n["args"][1], "style"), "text", r["path"], f"{which}:gets-the-loop's-own-fragment", "", loc(r, n))
    # loops run over `line` / `styled_lines` in order
    fl = [l for l in (hir.for_loop(x) for x in hir.walk(r["hir"]) if x.get("k") == "match" and x.get("src") == "ForLoopDesugar") if l]
    def loop_src(e):
        e = hir.peel(e)
        if hir.is_call(e, "core::slice::<impl [T]>::iter") or hir.is_call(e, "IntoIterator::into_iter"):
            e = hir.peel(e["args"][0])          # `for x in xs.iter()` is `for x in xs`
        return hirpp.expr(e)
    srcs = [loop_src(l[1]) for l in fl]
    rep.check(srcs.count("$line") == 2 and "$styled_lines" in srcs, "text", r["path"], "loops-over-every-line-and-fragment", f"{srcs}", loc(r))
    # order: invert pre-pass, then the sheet
    order = {id(n): i for i, n in enumerate(hir.walk(r["hir"]))}
    inv = [n for n in hir.walk(r["hir"]) if n.get("k") == "if" and hir.is_call(hir.simp(n["c"]), "anstyle::effect::Effects::contains")
           and hir.is_def(hir.simp(n["c"])["args"][1], "Effects::INVERT")]
    sheet = [n for n in hir.walk(r["hir"]) if hir.is_call(n, V + "color_styles")]
    split = [n for n in hir.walk(r["hir"]) if hir.is_call(n, V + "split_lines")]
    ok = len(inv) == 1 and len(sheet) == 1 and len(split) == 1 and order[id(inv[0])] < order[id(sheet[0])] and order[id(inv[0])] < order[id(split[0])]
    rep.check(ok, "text", r["path"], "sheet-and-lines-computed-after-the-invert-pass",
              "color_styles(..) and split_lines(..) must see the post-invert runs: a sheet built before the swap defines classes the "
              "inverted spans do not use", loc(r))


def rule_rows(facts, rep):
    """Per line: a background row — write_bg_span for every non-empty fragment, in order — exactly when some run of the line carries
    a background colour (whatever colour it is: the class rule in the sheet paints it), then the foreground row — write_fg_span for
    every non-empty fragment, in order.  By evaluation of the body of the loop over the lines on lines of one to three runs (background
    unset / one colour / another, fragment empty or not) with the span writers recorded."""
    import abseval
    import itertools
    r = facts.body("anstyle_svg", V + "Term::render_svg")
    rep.fn(r["path"])
    fl = [l for l in (hir.for_loop(x) for x in hir.walk(r["hir"]) if x.get("k") == "match" and x.get("src") == "ForLoopDesugar") if l]
    outer = [l for l in fl if hirpp.expr(hir.peel(l[1])).endswith("styled_lines") or "styled_lines" in hirpp.expr(hir.peel(l[1]))[:40]]
    if len(outer) != 1:
        raise Unrecognised(f"{len(outer)} loops over styled_lines")
    pat, _src, body = outer[0]

    def style(bg):
        return ("rec", {"fg": ("none",), "bg": ("some", ("sym", bg)) if bg else ("none",), "underline": ("none",),
                        "effects": ("ctor", "anstyle::effect::Effects", ("int", 0))})
    bad, n = [], 0
    runs1 = [(bg, frag) for bg in (None, "B1", "B2") for frag in ("x", "")]
    lines = [[a] for a in runs1] + [[a, b] for a, b in itertools.product(runs1, repeat=2)] + \
            [[(None, "a"), (None, "b"), ("B1", "c")], [(None, "a"), ("B2", ""), (None, "c")], [(None, "a"), (None, ""), (None, "c")]]
    for line in lines:
        log = []
        atoms = {"fmt:sink": lambda a_: ("ok", ("unit",)),
                 V + "write_bg_span": lambda a_, log=log: (log.append(("bg", a_[1], a_[2])), ("unit",))[1],
                 V + "write_fg_span": lambda a_, log=log: (log.append(("fg", a_[1], a_[2])), ("unit",))[1]}
        ev = abseval.Evaluator(facts, "anstyle_svg", atoms, inline_crates=("anstyle_svg", "anstyle"))
        ev.concrete_strings = True
        ev.fmt_symbolic = True
        env = abseval.Env()
        env.update({"buffer": ("sym", "buffer"), "text_x": ("int", 10), "text_y": ("int", 30), "line_height": ("int", 18)})
        value = ("array",) + tuple(("tuple", style(bg), ("str", frag)) for bg, frag in line)
        n += 1
        try:
            if not ev.bind(pat, value, env):
                raise Unrecognised("the loop pattern does not bind a line")
            ev.ev(body, env)
        except Unrecognised as ex:
            bad.append(f"line {line}: not evaluable: {ex}")
            continue
        except (abseval.Return, abseval.Break, abseval.Continue):
            log.append(("early-exit",))
        visible = [(style(bg), ("str", frag)) for bg, frag in line if frag]
        want = ([("bg",) + v for v in visible] if any(bg for bg, _ in line) else []) + [("fg",) + v for v in visible]
        if log != want:
            bad.append(f"line {line}: span writers called {[(e_[0], e_[-1]) for e_ in log]}")
    rep.count(n)
    rep.check(not bad, "text", r["path"], "rows:background-row-iff-a-run-has-a-background,then-foreground-row", f"{n} lines evaluated; {bad[:2]}"[:500], loc(r))


def rule_lines(facts, rep):
    """split_lines: every run is cut at each LF, a CR directly before the LF is dropped, nothing else is dropped, pieces keep
    their run's style and their order, and an unterminated last line is kept — decided by evaluating the function (lib/abseval.py,
    concrete strings) on every list of up to two runs over the tokens {a, b, LF, CR, CRLF, ""} and comparing with this model."""
    import abseval
    import itertools
    b = facts.body("anstyle_svg", V + "split_lines")
    rep.fn(b["path"])

    def model(runs):
        lines, cur = [], []
        for st, t in runs:
            parts = t.split("\n")
            for p_ in parts[:-1]:
                if p_.endswith("\r"):
                    p_ = p_[:-1]
                cur.append((st, p_))
                lines.append(cur)
                cur = []
            cur.append((st, parts[-1]))
        if cur:
            lines.append(cur)
        return lines

    def observed(runs):
        ev = abseval.Evaluator(facts, "anstyle_svg", {}, inline_crates=("anstyle",))
        ev.concrete_strings = True
        arg = ("array",) + tuple(("tuple", ("sym", s_), ("str", t)) for s_, t in runs)
        r = ev.call_fn("anstyle_svg", b["path"], [arg])
        if r[0] != "array":
            raise Unrecognised(f"split_lines evaluates to {str(r)[:60]}")
        out = []
        for line in r[1:]:
            if line[0] != "array":
                raise Unrecognised("a line that is not a sequence")
            out.append([(x[1][1], x[2][1]) for x in line[1:]])
        return out
    toks = ["a", "b", "\n", "\r", "\r\n", ""]
    texts = sorted({"".join(c) for n in (1, 2, 3) for c in itertools.product(toks, repeat=n)})
    cases = [[("S1", t)] for t in texts]
    some = [t for t in texts if len(t) <= 3][:40] + ["a\r\nb\n", "\n\n", "x\r"]
    cases += [[("S1", t), ("S2", u)] for t in some for u in ("", "c", "\n", "\nc", "\r\nc\n", "c\r")]
    cases += [[], [("S1", "a\nb"), ("S2", "c\nd"), ("S3", "e")], [("S1", "a\r"), ("S2", "\nb\r"), ("S3", "\n")]]
    groups = {"walks-the-runs-in-order": [], "cuts-at-every-LF": [], "drops-only-a-CR-before-the-LF": [], "piece-then-line-then-fresh-line": [],
              "continues-with-the-remainder": [], "rest-of-the-run-stays-on-the-current-line": [], "unterminated-last-line-kept": []}
    n_ok = 0
    for runs in cases:
        want = model(runs)
        try:
            got = observed(runs)
        except Unrecognised as ex:
            got = f"not evaluable: {ex}"
        if got == want:
            n_ok += 1
            continue
        text = "".join(t for _, t in runs)
        msg = f"split_lines({runs}) = {str(got)[:120]}, expected {want}"
        if "\r" in text:
            key = "drops-only-a-CR-before-the-LF"
        elif len(runs) > 1:
            key = "walks-the-runs-in-order"
        elif text.endswith("\n") or "\n" not in text:
            key = "unterminated-last-line-kept"
        else:
            key = "cuts-at-every-LF"
        groups[key].append(msg)
    rep.count(len(cases))
    first = next((v[0] for v in groups.values() if v), "")
    for key, bad in groups.items():
        other = bool(first) and key in ("piece-then-line-then-fresh-line", "continues-with-the-remainder", "rest-of-the-run-stays-on-the-current-line")
        rep.check(not bad and not other, "lines", b["path"], key, f"{n_ok} of {len(cases)} run lists agree with the model {(bad or [first])[0] if (bad or other) else ''}"[:400], loc(b))


class TagState:
    def __init__(self, stack=(), tag=None, quote=False):
        self.stack, self.tag, self.quote = tuple(stack), tag, quote

    def key(self):
        # inside a tag only its name matters for agreement between branches (attributes may be conditional)
        name = None if self.tag is None else (self.tag.split() or [""])[0]
        return (self.stack, name, self.quote)

    def feed(self, text):
        stack, tag, quote = list(self.stack), self.tag, self.quote
        for ch in text:
            if tag is None:
                if ch == "<":
                    tag = ""
                elif ch == "&":
                    raise Unrecognised("bare '&' in a literal template fragment")
            else:
                if ch == '"':
                    quote = not quote
                    tag += ch
                elif ch == ">" and not quote:
                    t = tag.strip()
                    if t.startswith("/"):
                        name = t[1:].strip()
                        if not stack or stack[-1] != name:
                            raise Unrecognised(f"closing </{name}> does not match open {stack[-1:] or 'nothing'}")
                        stack.pop()
                    elif t.endswith("/"):
                        pass
                    else:
                        stack.append(t.split()[0])
                    tag = None
                elif ch == "<" and not quote:
                    raise Unrecognised("'<' inside a tag")
                else:
                    tag += ch
        return TagState(stack, tag, quote)


def balance(node, st, calls_ok):
    """Abstractly run the tag automaton over every structured path of `node`."""
    node = hir.simp(node)
    if not isinstance(node, dict):
        return st
    k = node.get("k")
    if k == "call" and hir.callee_decl(node) == "core::fmt::Write::write_fmt" and hir.is_local(node["args"][0], "buffer"):
        pieces, args = hir.fmt_template(node["args"][1])
        text = "".join(p if isinstance(p, str) else "X" for p in pieces)
        return st.feed(text)
    if k == "call" and hir.callee(node) in calls_ok:
        if st.tag is not None:
            raise Unrecognised("span writer called inside a tag")
        return st
    if k == "block":
        seq = list(node.get("stmts", []))
        if "expr" in node:
            seq.append(node["expr"])
        for s in seq:
            st = balance(s, st, calls_ok)
        return st
    if k == "let":
        return balance(node.get("init"), st, calls_ok) if "init" in node else st
    if k == "if":
        st0 = balance(node["c"], st, calls_ok) if hir.simp(node["c"]).get("k") != "letexpr" else st
        a = balance(node["t"], st0, calls_ok)
        b = balance(node["e"], st0, calls_ok) if "e" in node else st0
        t_div, e_div = hir.diverges(node["t"]), ("e" in node and hir.diverges(node["e"]))
        if t_div and not e_div:
            return b
        if e_div and not t_div:
            return a
        if a.key() != b.key():
            raise Unrecognised(f"branches leave different tag states: {a.key()} vs {b.key()}")
        return a
    if k == "match":
        if node.get("src") == "ForLoopDesugar":
            fl = hir.for_loop(node)
            if fl is None:
                return st
            out = balance(fl[2], st, calls_ok)
            if out.key() != st.key():
                raise Unrecognised(f"loop body is not tag-balanced: {st.key()} → {out.key()}")
            return st
        st = balance(node["scrut"], st, calls_ok)
        outs = [balance(a["body"], st, calls_ok) for a in node["arms"] if not hir.diverges(a["body"])]
        if len({o.key() for o in outs}) > 1:
            raise Unrecognised("match arms leave different tag states")
        return outs[0] if outs else st
    if k == "loop":
        out = balance(node["body"], st, calls_ok)
        if out.key() != st.key():
            raise Unrecognised("loop body is not tag-balanced")
        return st
    if k == "closure":
        return st
    for ch in hir.children(node):
        st = balance(ch, st, calls_ok)
    return st


def rule_balance(facts, rep):
    spans = {V + "write_fg_span", V + "write_bg_span"}
    for fn in ("write_fg_span", "write_bg_span"):
        b = facts.body("anstyle_svg", V + fn)
        try:
            out = balance(b["hir"], TagState(), set())
            ok, why = out.key() == ((), None, False), f"final state {out.key()}"
        except Unrecognised as e:
            ok, why = False, str(e)
        rep.check(ok, "balance", b["path"], "one-balanced-tspan", f"<tspan[ class=\"..\"]>text</tspan> on every path: {why}", loc(b))
        n = len(buffer_writes(b["hir"]))
        rep.check(n >= 4, "balance", b["path"], "template-fragments-found", f"{n}", loc(b))
    r = facts.body("anstyle_svg", V + "Term::render_svg")
    try:
        out = balance(r["hir"], TagState(), spans)
        ok, why = out.key() == ((), None, False), f"final state {out.key()}"
    except Unrecognised as e:
        ok, why = False, str(e)
    rep.check(ok, "balance", r["path"], "document-balanced", f"svg/style/rect/text/tspan open and close on every structured path: {why}", loc(r))
    n = len(buffer_writes(r["hir"]))
    rep.check(n >= 40, "balance", r["path"], "template-fragments-found", f"{n}", loc(r))


def rule_runs(facts, rep):
    """render_svg's run list is the whole input through a fresh styled-run extractor, collected as is."""
    b = facts.body("anstyle_svg", V + "Term::render_svg")
    st = hir.stmts_of(b["hir"])
    l0, l1 = (st + [{}, {}])[:2]
    ok0 = l0.get("k") == "let" and hir.is_call(hir.simp(l0.get("init", {})), "anstream::adapter::wincon::WinconBytes::new")
    i1 = hir.simp(l1.get("init", {})) if l1.get("k") == "let" else {}
    ok1 = hir.is_call(i1, "core::iter::traits::iterator::Iterator::collect")
    if ok1:
        ex = hir.simp(i1["args"][0])
        ok1 = hir.is_call(ex, "anstream::adapter::wincon::WinconBytes::extract_next") and hir.is_local(hir.peel(ex["args"][0]), l0["pat"].get("name"))
        if ok1:
            a = hir.simp(ex["args"][1])
            ok1 = hir.is_call(a, "as_bytes") and hir.is_local(a["args"][0], "ansi")
    rep.check(ok0 and ok1, "runs", b["path"], "runs=WinconBytes::new().extract_next(ansi.as_bytes()).collect()",
              "the styled runs come from anstream's extractor applied once to the whole input (no filtering, no second parser)", loc(b))
    uses = [n for n in hir.walk(b["hir"]) if n.get("k") == "local" and n.get("name") == "ansi"]
    rep.check(len(uses) == 1, "runs", b["path"], "input-used-once", f"{len(uses)} uses of `ansi`", loc(b))
