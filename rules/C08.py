"""C08 — AutoStream modes: never strips, always-ansi forwards unchanged."""
import hir
import hirpp
from core import AnchorMissing, Unrecognised, loc
from rules import anstyle_common as ac

META = {
    "explanation": (
        "Entirely structural; decided by tables and forwarding rules on the HIR of anstream::auto (this target, default "
        "features): the `new` dispatch (Auto->auto, AlwaysAnsi->always_ansi, Always->always, Never->never); never builds "
        "Strip(StripStream::new(raw)), always_ansi_ builds PassThrough(raw), always_ansi ends in always_ansi_, always takes the "
        "cfg!(windows)=false branch to always_ansi and wincon() is Err(raw) here; for each of the five Write methods and each "
        "arm the callee is the same-named method on w.as_locked_write() (PassThrough) or on the StripStream (Strip) with the "
        "arguments passed through positionally (10 cells); StripStream's own five methods call the strip helpers of the same "
        "name; current_choice is {PassThrough->AlwaysAnsi, Strip->Never}; into_inner returns the wrapped writer of either arm; "
        "lock() preserves the arm and the strip state; to_adapted_string = choice(stream) -> AutoStream::new(Vec, choice) -> one "
        "write_fmt -> into_inner. With C01/C06 for the Strip arm this is the whole property on non-Windows targets; the Windows "
        "arms are cfg'd out and not analysed."),
    "exhaustive": True,
}

MANIFEST = {
    "level": ("Complete static decision for this target: the property is pure forwarding (which method of which wrapped writer "
              "receives which arguments, per arm) plus small tables, all visible in the type-checked program with trait calls "
              "resolved to their impls. Any interleaving of the five methods is covered because each call is forwarded "
              "independently and the mode is fixed at construction (no writer of `inner` other than the constructors and lock)."),
    "note": ("Trusted: rustc front end and trait resolution; the Strip arm's behaviour is the subject of C01/C06. Not analysed: the "
             "cfg(windows) arms (no Windows target installed)."),
    "technique": "static analysis: abstract evaluation of the constructors per ColorChoice, per-arm forwarding rule with resolved callees, value-flow rule for to_adapted_string, who-may-write on the mode field",
}

A = "anstream::auto::AutoStream::<S>::"
AI = "anstream::auto::StreamInner"
WR = "<anstream::auto::AutoStream<S> as std::io::Write>::"
SW = "<anstream::strip::StripStream<S> as std::io::Write>::"
METHODS = ["write", "write_vectored", "flush", "write_all", "write_fmt"]


def run(ctx):
    rep, facts = ctx.report, ctx.facts
    rep.guarded("ctor", A, lambda: rule_ctor(facts, rep))
    rep.guarded("forward", WR, lambda: rule_forward(facts, rep))
    rep.guarded("tables", A, lambda: rule_tables(facts, rep))
    rep.guarded("adapted-string", "anstream::_macros::to_adapted_string", lambda: rule_adapted(facts, rep))
    # "forwards every byte unchanged" and "taking the inner writer back returns all bytes delivered" go through what
    # as_locked_write() hands out for each raw stream: the stream itself, a deref of it, or std's lock guard — never a writer with a
    # buffer or an error policy of its own (the impl-set rule of C19, evaluated here too)
    from rules import C19
    rep.guarded("sealed", "anstream::stream::AsLockedWrite", lambda: C19.rule_sealed(facts, rep))
    for r, n in (("ctor", 9), ("forward", 16), ("tables", 8), ("adapted-string", 4), ("sealed", 13)):
        rep.floor(r, n)


def rule_ctor(facts, rep):
    b = facts.body("anstream", A + "new")
    rep.fn(b["path"])
    # by abstract evaluation, one case per ColorChoice: the constructor reached and what it is given
    import abseval

    def tagged(*names):
        return {A + n_: (lambda a_, n_=n_: ("made-by", n_) + tuple(a_)) for n_ in names}
    want = {"Auto": ("auto", "raw"), "AlwaysAnsi": ("always_ansi", "raw"), "Always": ("always", "raw"), "Never": ("never", "raw")}
    for k, v in want.items():
        try:
            ev = abseval.Evaluator(facts, "anstream", tagged("auto", "always_ansi", "always", "never", "always_ansi_", "wincon"))
            r = ev.call_fn("anstream", b["path"], [("sym", "raw"), ("enum", "colorchoice::ColorChoice::" + k)])
            ok, why = r == ("made-by", v[0], ("sym", "raw")), str(r)[:100]
        except Unrecognised as ex:
            ok, why = False, f"not evaluable: {ex}"
        rep.check(ok, "ctor", b["path"], f"{k}→{v[0]}", why, loc(b))
    # the leaf constructors by abstract evaluation on a symbolic stream (temporaries, `Self { .. }` vs `AutoStream { .. }`, a named
    # constructor instead of `Default::default()` are all the same value)
    RAW = ("sym", "raw")
    INL = ("anstream", "anstyle_parse")

    def value(path, atoms=None):
        rs = ac.eval_all(facts, "anstream", path, [RAW], INL, atoms)
        vals = {repr(r) for _c, r in rs}
        if len(vals) != 1:
            raise Unrecognised(f"{path} builds different values on different paths")
        return rs[0][1]

    def decided(path, key, fn_):
        b_ = facts.body("anstream", path)
        rep.fn(b_["path"])
        try:
            ok, why = fn_()
        except Unrecognised as ex:
            ok, why = False, f"not evaluable: {ex}"
        rep.check(ok, "ctor", b_["path"], key, str(why)[:200], loc(b_))
    SN = "anstream::strip::StripStream::<S>::new"

    def never_():
        v = value(A + "never")
        return v == ("rec", {"inner": ("ctor", AI + "::Strip", value(SN))}), v
    decided(A + "never", "builds-Strip(StripStream::new(raw))", never_)

    def pass_():
        v = value(A + "always_ansi_")
        return v == ("rec", {"inner": ("ctor", AI + "::PassThrough", RAW)}), v
    decided(A + "always_ansi_", "builds-PassThrough(raw)", pass_)

    def ansi_():
        rs = ac.eval_all(facts, "anstream", A + "always_ansi", [RAW], ("anstream",), tagged("always_ansi_"))
        return all(r == ("made-by", "always_ansi_", RAW) for _c, r in rs) and bool(rs), [r for _c, r in rs][:2]
    decided(A + "always_ansi", "ends-in-always_ansi_(raw)", ansi_)

    def strip_new():
        v = value(SN)
        fresh = ac.eval_all(facts, "anstream", "<anstream::adapter::strip::StripBytes as core::default::Default>::default", [], INL)[0][1]
        return v == ("rec", {"raw": RAW, "state": fresh}), v
    decided(SN, "wraps-raw-with-fresh-state", strip_new)
    al = facts.body("anstream", A + "always")
    rep.fn(al["path"])
    try:
        ev = abseval.Evaluator(facts, "anstream", tagged("always_ansi", "always_ansi_", "wincon"))
        r = ev.call_fn("anstream", al["path"], [("sym", "raw")])
        ok = r == ("made-by", "always_ansi", ("sym", "raw"))
    except Unrecognised:
        ok = False
    rep.check(ok, "ctor", al["path"], "non-windows→always_ansi(raw)", "cfg!(windows) is false on this target", loc(al))
    w = facts.body("anstream", A + "wincon")
    e = ac.single_expr(w["hir"])
    rep.check(e.get("ctor", "").endswith("Result::Err") and hir.is_local(e["args"][0], "raw"), "ctor", w["path"], "Err(raw)-on-this-target", "", loc(w))
    au = facts.body("anstream", A + "auto")
    rep.fn(au["path"])
    # by evaluation: the stream handed to new() together with what the detection (the free function `choice`, reached directly or
    # through the public AutoStream::choice) says about that same stream
    try:
        atoms = dict(tagged("new"))
        atoms["anstream::auto::choice"] = lambda a_: ("choice-of",) + tuple(a_)
        r = abseval.Evaluator(facts, "anstream", atoms).call_fn("anstream", au["path"], [RAW])
        ok, why = r == ("made-by", "new", RAW, ("choice-of", RAW)), str(r)[:120]
    except Unrecognised as ex:
        ok, why = False, f"not evaluable: {ex}"
    rep.check(ok, "ctor", au["path"], "new(raw, choice(&raw))", why, loc(au))
    # the mode field is written only by constructors (struct expressions) — no assignment to `.inner` anywhere
    writers = []
    for body in facts.bodies("anstream"):
        if "hir" not in body:
            continue
        for nn in hir.walk(body["hir"]):
            if nn.get("k") in ("assign", "assignop") and (hir.place_str(nn["l"]) or "").endswith(".inner"):
                writers.append(body["path"])
    rep.check(not writers, "ctor", "anstream::auto::AutoStream.inner", "mode-fixed-at-construction", f"{writers}", "")


def rule_forward(facts, rep):
    for meth in METHODS:
        rep.guarded("forward", WR + meth, lambda meth=meth: forward_one(facts, rep, meth))
    forward_strip(facts, rep)


def forward_one(facts, rep, meth):
    if True:
        try:
            b = facts.body("anstream", WR + meth)
        except AnchorMissing:
            rep.bad("forward", WR + meth, "override-missing",
                    f"AutoStream does not override `{meth}`: std's default implementation loops over `write`, which for the Strip arm "
                    f"is not equivalent to the strip stream's own `{meth}` (a retried buffer is re-stripped from the entry state)")
            return
        rep.fn(b["path"])
        # by evaluation on a stream in each of the two modes: what the call amounts to — the raw stream locked and given the same
        # method with the same arguments, or the strip stream's own override with the same arguments.  A dispatch written in place,
        # in a helper, or in an impl on the private mode enum is the same thing.
        import abseval
        params = [("sym", p.get("name")) for p in b["params"][1:]]
        got = {}
        for v in ("PassThrough", "Strip"):
            atoms = {"anstream::stream::AsLockedWrite::as_locked_write": lambda a_: ("locked", a_[0])}
            for m_ in METHODS:
                atoms["std::io::Write::" + m_] = (lambda a_, m_=m_: ("raw-call", m_) + tuple(a_))
                atoms[SW + m_] = (lambda a_, m_=m_: ("strip-call", m_) + tuple(a_))
            ev = abseval.Evaluator(facts, "anstream", atoms)
            ev.prefer_local_impls = True
            try:
                got[v] = ev.call_fn("anstream", b["path"], [("rec", {"inner": ("ctor", AI + "::" + v, ("sym", "w"))})] + params)
            except Unrecognised as ex:
                got[v] = ("not-evaluable", str(ex)[:100])
        evaluable = all(g[0] != "not-evaluable" for g in got.values())
        rep.check(evaluable, "forward", b["path"], "dispatch-on-self.inner", f"{got}"[:300], loc(b))
        want = {"PassThrough": ("raw-call", meth, ("locked", ("sym", "w"))) + tuple(params), "Strip": ("strip-call", meth, ("sym", "w")) + tuple(params)}
        for v in ("PassThrough", "Strip"):
            why = (f"PassThrough must be w.as_locked_write().{meth}(..)" if v == "PassThrough" else f"Strip must be the StripStream's own {meth}(..)") + f"; evaluates to {str(got[v])[:160]}"
            rep.check(got[v] == want[v], "forward", b["path"], f"{v}→{meth}", why, loc(b))
            rep.count()
        it = [x for x in facts.items("anstream") if x["dk"] == "Enum" and x["path"] == AI]
        names = sorted(hir.last_seg(v_["path"]) if "path" in v_ else v_.get("name", "?") for v_ in it[0].get("variants", [])) if it else []
        rep.check(names == ["PassThrough", "Strip"], "forward", b["path"], "two-arms", f"modes of the stream: {names}", loc(b))


def forward_strip(facts, rep):
    # StripStream's own methods call the like-named helper with (locked raw, state, arg)
    for meth in ("write", "write_all", "write_fmt"):
        b = facts.body("anstream", SW + meth)
        rep.fn(b["path"])
        c = ac.single_expr(b["hir"])
        ok = hir.is_call(c, "anstream::strip::" + meth) and len(c["args"]) == 3
        if ok:
            l = hir.peel(c["args"][0])
            ok = hir.is_call(l, "anstream::stream::AsLockedWrite::as_locked_write") and hir.place_str(l["args"][0]) == "self.raw" and \
                hir.place_str(c["args"][1]) == "self.state" and hir.is_local(c["args"][2], b["params"][1]["name"])
        rep.check(ok, "forward", b["path"], f"helper-{meth}(locked-raw,state,arg)", "", loc(b))
    b = facts.body("anstream", SW + "flush")
    c = ac.single_expr(b["hir"])
    ok = hir.callee_decl(c) == "std::io::Write::flush" and hir.is_call(hir.simp(c["args"][0]), "anstream::stream::AsLockedWrite::as_locked_write") and \
        hir.place_str(hir.simp(c["args"][0])["args"][0]) == "self.raw"
    rep.check(ok, "forward", b["path"], "flush-inner", "", loc(b))


def rule_tables(facts, rep):
    b = facts.body("anstream", A + "current_choice")
    rep.fn(b["path"])
    m = ac.single_expr(b["hir"])
    got = {hir.last_seg(hir.pat_path(a["pat"])): hir.last_seg(hir.def_path(a["body"])) for a in m["arms"]}
    rep.check(got == {"PassThrough": "AlwaysAnsi", "Strip": "Never"}, "tables", b["path"], "mode-reported-is-mode-in-force", f"{got}", loc(b))
    b = facts.body("anstream", A + "into_inner")
    rep.fn(b["path"])
    m = ac.single_expr(b["hir"])
    ok = hir.place_str(m["scrut"]) == "self.inner"
    for a in m["arms"]:
        v = hir.last_seg(hir.pat_path(a["pat"]))
        w = a["pat"]["pats"][0].get("name")
        e = ac.single_expr(a["body"])
        if v == "PassThrough":
            ok = ok and hir.is_local(e, w) and e.get("k") == "local"
        elif v == "Strip":
            ok = ok and hir.is_call(e, "anstream::strip::StripStream::<S>::into_inner") and hir.is_local(e["args"][0], w)
    rep.check(ok, "tables", b["path"], "returns-the-wrapped-writer", "", loc(b))
    si = facts.body("anstream", "anstream::strip::StripStream::<S>::into_inner")
    rep.check(hir.place_str(ac.single_expr(si["hir"])) == "self.raw", "tables", si["path"], "returns-raw", "", loc(si))
    # lock() keeps the arm (and StripStream::lock keeps the state)
    for std in ("std::io::stdio::Stdout", "std::io::stdio::Stderr"):
        b = facts.body("anstream", f"anstream::auto::AutoStream::<{std}>::lock")
        rep.fn(b["path"])
        ms = [n for n in hir.walk(b["hir"]) if n.get("k") == "match"]
        ok = len(ms) == 1 and hir.place_str(ms[0]["scrut"]) == "self.inner"
        if ok:
            for a in ms[0]["arms"]:
                v = hir.last_seg(hir.pat_path(a["pat"]))
                e = ac.single_expr(a["body"])
                ok = ok and e.get("ctor") == AI + "::" + v and hir.is_local(hir.simp(e["args"][0])["args"][0], a["pat"]["pats"][0].get("name"))
        rep.check(ok, "tables", b["path"], "lock-preserves-the-arm", "", loc(b))
        s = facts.body("anstream", f"anstream::strip::StripStream::<{std}>::lock")
        e = ac.single_expr(s["hir"])
        ok = e.get("k") == "struct"
        if ok:
            f = {x["name"]: hir.simp(x["e"]) for x in e["fields"]}
            ok = hir.place_str(f.get("state")) == "self.state" and f.get("raw", {}).get("k") == "call" and hir.place_str(f["raw"]["args"][0]) == "self.raw"
        rep.check(ok, "tables", s["path"], "lock-keeps-strip-state", "", loc(s))
    b = facts.body("anstream", A + "is_terminal")
    m = ac.single_expr(b["hir"])
    ok = all(hir.is_local(ac.single_expr(a["body"])["args"][0], a["pat"]["pats"][0].get("name")) for a in m["arms"])
    rep.check(ok, "tables", b["path"], "asks-the-wrapped-writer", "", loc(b))


def rule_adapted(facts, rep):
    b = facts.body("anstream", "anstream::_macros::to_adapted_string")
    rep.fn(b["path"])
    # value flow, whatever is named by a temporary: new(Vec::new(), choice(stream)) -> one write_fmt("{display}") on it ->
    # into_inner() of it -> from_utf8_lossy(..).into_owned() is the result
    R = hir.Resolver(b["hir"])
    O = hir.Origins(b["hir"])
    pnames = [p.get("name") for p in b["params"]]
    news = [n for n in hir.walk(b["hir"]) if hir.is_call(n, A + "new")]
    ok1 = ok2 = False
    sid = None
    if len(news) == 1:
        ch = R.res(hir.peel(news[0]["args"][1]))
        ok1 = hir.is_call(ch, A + "choice") and hir.is_local(hir.peel(ch["args"][0]), "stream")
        buf = R.res(hir.peel(news[0]["args"][0]))
        ok2 = hir.is_call(buf, "alloc::vec::Vec::<T>::new", "Vec::<T>::new", "alloc::vec::Vec::<T>::with_capacity")
        binds = [n for n in hir.walk(b["hir"]) if n.get("k") == "let" and n["pat"].get("k") == "pbind" and hir.simp(n.get("init")) is news[0]]
        sid = binds[0]["pat"].get("id") if len(binds) == 1 else None
    rep.check(ok1, "adapted-string", b["path"], "1-choice-of-target-stream", "", loc(b))
    rep.check(ok2 and sid is not None, "adapted-string", b["path"], "2-AutoStream::new(Vec, choice)", "", loc(b))

    def on_stream(e):
        e = hir.peel(e)
        return e.get("k") == "local" and e.get("id") == sid
    wf = [n for n in hir.walk(b["hir"]) if hir.is_call(n, WR + "write_fmt")]
    ok = len(wf) == 1 and on_stream(wf[0]["args"][0])
    if ok:
        pieces, args = hir.fmt_template(wf[0]["args"][1])
        ok = pieces == [("arg", 0, "new_display")] and hir.is_local(args[0], "display")
    other_w = [n for n in hir.walk(b["hir"]) if n.get("k") == "call" and hir.callee_decl(n).startswith("std::io::Write::") and n not in wf]
    rep.check(ok and not other_w, "adapted-string", b["path"], "3-one-write_fmt-of-the-display", "", loc(b))
    inn = [n for n in hir.walk(b["hir"]) if hir.is_call(n, A + "into_inner")]
    ok = len(inn) == 1 and on_stream(inn[0]["args"][0])
    if ok:
        tail = hir.simp(hir.stmts_of(b["hir"])[-1])
        src, proj = O.of(tail)
        ok = hir.is_call(src, "into_owned") and not proj
        if ok:
            lossy = hir.peel(R.res(hir.peel(src["args"][0])))
            ok = hir.is_call(lossy, "from_utf8_lossy") and O.of(lossy["args"][0])[0] is inn[0]
    rep.check(ok, "adapted-string", b["path"], "4-into_inner-gives-the-bytes", "", loc(b))
