"""Typestate/dataflow rules S1–S5 over the two-phase strip scanners (anstream::adapter::strip::{next_str,next_bytes}).

The carried VT state is the `&mut State` parameter. Each scanner runs two `Iterator::position` closures over the
remaining input: the *skip* closure (steps the table, stops at the first printable byte) and the *take* closure
(stops at the first byte that is not kept).  The closures are loop-free, so their structural paths are enumerated
and each rule is a predicate over paths; boolean conditions are decided by truth tables over opaque atoms.
"""
import itertools

import hir
import hirpp
from core import AnchorMissing, Unrecognised, loc

CRATE = "anstream"
MOD = "anstream::adapter::strip::"
STATE_TY = "&mut anstyle_parse::state::definitions::State"
STATE = "anstyle_parse::state::definitions::State"


def _select_then_store(root):
    """`let x = if c { K } else { *state }; *state = x;`  ->  `if c { *state = K; } let x = *state;` (the same two values: the state
    becomes K exactly when c holds, and x is the state afterwards) — the form the carried-state rules read."""
    import norm

    def is_deref_local(e):
        e = hir.simp(e)
        while isinstance(e, dict) and e.get("k") == "block" and "expr" in e:
            st_ = e.get("stmts", [])
            if not st_:
                e = hir.simp(e["expr"])
            elif len(st_) == 1 and st_[0].get("k") == "let" and st_[0]["pat"].get("k") == "pbind" and "init" in st_[0] \
                    and hir.simp(e["expr"]).get("k") == "local" and hir.simp(e["expr"]).get("id") == st_[0]["pat"].get("id"):
                e = hir.simp(st_[0]["init"])          # `{ let other = *state; other }`
            else:
                break
        return e if isinstance(e, dict) and e.get("k") == "un" and e.get("op") == "Deref" and hir.simp(e["e"]).get("k") == "local" else None

    def fn(n):
        if n.get("k") != "block":
            return n
        st = list(n.get("stmts", []))
        for i in range(len(st) - 1):
            a, b = st[i], hir.simp(st[i + 1])
            if not (isinstance(a, dict) and a.get("k") == "let" and a["pat"].get("k") == "pbind" and "init" in a and "els" not in a):
                continue
            init = hir.simp(a["init"])
            if not (init.get("k") == "if" and "e" in init):
                continue
            place = is_deref_local(init["e"])
            if place is None or not pure(init["c"]) or not pure(init["t"]):
                continue
            if not (b.get("k") == "assign" and hir.simp(b["l"]).get("k") == "un" and hirpp.expr(b["l"]) == hirpp.expr(place)
                    and hir.simp(b["r"]).get("k") == "local" and hir.simp(b["r"]).get("id") == a["pat"].get("id")):
                continue
            k_ = init["t"]
            while isinstance(hir.simp(k_), dict) and hir.simp(k_).get("k") == "block" and not hir.simp(k_).get("stmts") and "expr" in hir.simp(k_):
                k_ = hir.simp(k_)["expr"]
            store = {"k": "assign", "l": b["l"], "r": k_, "ln": b.get("ln"), "ty": "()"}
            guard = {"k": "if", "c": init["c"], "t": {"k": "block", "stmts": [store], "ty": "()", "ln": a.get("ln")}, "ln": a.get("ln"), "ty": "()", "norm": "select-then-store"}
            st[i] = guard
            st[i + 1] = dict(a, init=place)
            return dict(n, stmts=st)
        return n

    def pure(e):
        return norm.pure(e)
    return norm.map_tree(root, fn)


class Scanner:
    def __init__(self, facts, name):
        self.facts = facts
        import norm
        b0 = facts.body(CRATE, MOD + name)
        # the scanners' tests of the carried state are read in their `if *state == State::X` form; `match *state { State::X => .., other => .. }`
        # is the same test
        h0 = norm.variant_match_to_if(b0["hir"])
        if h0 is not b0["hir"]:
            h0 = _select_then_store(norm.alias(h0, b0.get("params", [])))
        self.body = dict(b0, hir=h0)
        self.name = name
        b = self.body
        ps = [p for p in b["params"] if p.get("k") == "pbind"]
        st = [p for p in ps if p.get("ty") == STATE_TY]
        by = [p for p in ps if p.get("ty", "").startswith("&mut &") and p["ty"].endswith("[u8]")]
        if len(st) != 1 or len(by) != 1:
            raise AnchorMissing(f"{name}: expected one `&mut State` and one `&mut &[u8]` parameter")
        self.state = st[0]["name"]
        self.bytes = by[0]["name"]
        self.top = hir.stmts_of(b["hir"])
        self.positions = []  # (stmt index, let name, closure node)
        for i, s in enumerate(self.top):
            if s.get("k") == "let" and "init" in s:
                c = hir.simp(s["init"])
                if hir.is_call(c, "Iterator::position"):
                    it, clo = c["args"][0], hir.simp(c["args"][1])
                    if clo.get("k") != "closure" or len(clo["params"]) != 1 or clo["params"][0].get("k") != "pbind":
                        raise Unrecognised(f"{name}: position() argument is not a one-parameter closure")
                    if not self._iterates_bytes(it):
                        raise Unrecognised(f"{name}: position() does not run over `{self.bytes}.iter().copied()`")
                    self.positions.append((i, s["pat"].get("name"), clo))
        if len(self.positions) != 2:
            raise AnchorMissing(f"{name}: expected exactly two position() scans (skip, take), found {len(self.positions)}")
        self.skip = self.positions[0][2]
        self.take = self.positions[1][2]

    def _iterates_bytes(self, it):
        it = hir.simp(it)
        if not hir.is_call(it, "Iterator::copied"):
            return False
        inner = hir.simp(it["args"][0])
        return hir.is_call(inner, "iter") and hir.is_local(inner["args"][0], self.bytes)

    # -- helpers ------------------------------------------------------------------------------
    def is_carried(self, e):
        """`*state` (value of the carried state)."""
        e = hir.simp(e)
        return e.get("k") == "un" and e.get("op") == "Deref" and hir.simp(e["e"]).get("k") == "local" and hir.simp(e["e"])["name"] == self.state

    def carried_eq(self, e):
        """`*state == State::X` → X ; `*state != State::X` handled by polarity at the caller."""
        e = hir.simp(e)
        if e.get("k") == "bin" and e.get("op") in ("Eq", "Ne"):
            for a, b in ((e["l"], e["r"]), (e["r"], e["l"])):
                if self.is_carried(a) and hir.is_def(b) and hir.def_path(b).startswith(STATE + "::"):
                    return e["op"], hir.def_path(b).split("::")[-1]
        return None

    def lets_in(self, root):
        """name -> (pattern, init, tuple position or None) for let statements (innermost wins is not needed here)."""
        out = {}
        for n in hir.walk(root):
            if n.get("k") == "let" and "init" in n:
                p = n["pat"]
                if p.get("k") == "pbind":
                    out[p["name"]] = (n, None)
                elif p.get("k") == "ptuple":
                    for i, q in enumerate(p["pats"]):
                        if q.get("k") == "pbind":
                            out[q["name"]] = (n, i)
        return out

    def stores_to_state(self, root):
        return hir.visit_with_conds(root, lambda n: n.get("k") in ("assign", "assignop") and self.is_carried(n["l"]))


def _after(root, first, second):
    """`second` comes after `first` in evaluation order (pre-order position in the statement; both are statement-level here)."""
    order = [id(x) for x in hir.walk(root)]
    try:
        return order.index(id(second)) > order.index(id(first))
    except ValueError:
        return False


def state_arg_ok(sc, call, frames, rep, where_fn):
    """S2: the state argument of a state_change call denotes the carried state at this point."""
    a0 = hir.simp(call["args"][0])
    if sc.is_carried(a0):
        return True, "carried state `*state`"
    if a0.get("k") == "local":
        name = a0["name"]
        # a copy taken in the same block just before: `let L = *state; .. state_change(L, b)` with no store into *state between
        for blk in hir.walk(sc.body["hir"]):
            if blk.get("k") != "block":
                continue
            st = blk.get("stmts", [])
            for i, s in enumerate(st):
                if isinstance(s, dict) and s.get("k") == "let" and s["pat"].get("k") == "pbind" and s["pat"].get("id") == a0.get("id") and "init" in s \
                        and "Mut" not in str(s["pat"].get("mode", "")).split(",")[-1] and sc.is_carried(s["init"]):
                    after = st[i + 1:] + ([blk["expr"]] if "expr" in blk else [])
                    for t in after:
                        if any(x is call for x in hir.walk(t)):
                            if not sc.stores_to_state(t) or all(_after(t, call, n_) for n_, _f in sc.stores_to_state(t)):
                                return True, f"copy `{name}` of the carried state taken just before, not overwritten in between"
                            break
                        if sc.stores_to_state(t):
                            break
        # an un-overwritten copy: `let L = *state;` at top level, and no store into *state afterwards
        for i, s in enumerate(sc.top):
            if s.get("k") == "let" and s["pat"].get("k") == "pbind" and s["pat"]["name"] == name and "init" in s:
                if sc.is_carried(s["init"]):
                    later = []
                    for t in sc.top[i + 1:]:
                        later += sc.stores_to_state(t)
                    if not later:
                        return True, f"copy `{name}` of the carried state, not overwritten afterwards"
                    return False, f"`{name}` copies the carried state but the state is stored to afterwards"
        return False, f"local `{name}` is not a copy of the carried state"
    if hir.is_def(a0) and hir.def_path(a0).startswith(STATE + "::"):
        want = hir.def_path(a0).split("::")[-1]
        # a constant is fine only under a test that makes the carried state equal to it (after the last closure boundary)
        for f in local_frames(frames):
            if f.get("kind") == "if":
                ce = sc.carried_eq(f["expr"])
                if ce and ((ce[0] == "Eq" and f["val"]) or (ce[0] == "Ne" and not f["val"])) and ce[1] == want:
                    return True, f"constant {want} under the test `*state == {want}`"
        return False, (f"classifies the byte against the constant State::{want} while the carried state may be any state "
                       f"(no dominating test `*state == {want}`)")
    return False, "state argument is neither the carried state, a fresh copy of it, nor a tested constant"


def rule_S1_S2(sc, rep, prop):
    b = sc.body
    anchor = b["path"]
    # S2
    sites = hir.visit_with_conds(b["hir"], lambda n: hir.is_call(n, "anstyle_parse::state::state_change"))
    for n, frames in sites:
        ok, why = state_arg_ok(sc, n, frames, rep, anchor)
        phase = phase_of(sc, frames)
        clo = [f["node"] for f in frames if f.get("kind") == "closure"]
        byte_ok = bool(clo) and hir.is_local(n["args"][1], clo[-1]["params"][0]["name"])
        rep.check(ok, "S2", anchor, f"state_change@{phase}", f"S2 classify-with-current-state: {why}", loc(b, n))
        rep.check(byte_ok, "S2", anchor, f"state_change-byte@{phase}", "the byte classified is the byte being scanned", loc(b, n))
    # S1
    stores = sc.stores_to_state(b["hir"])
    for n, frames in stores:
        phase = phase_of(sc, frames)
        r = hir.simp(n["r"])
        ok, why = False, ""
        if n.get("k") == "assignop":
            why = "compound assignment to the carried state"
        elif r.get("k") == "local":
            clo = [f["node"] for f in frames if f.get("kind") == "closure"]
            lets = sc.lets_in(clo[-1]["body"]) if clo else {}
            ent = lets.get(r["name"])
            if ent and ent[1] == 0:
                init = hir.simp(ent[0]["init"])
                if hir.is_call(init, "anstyle_parse::state::state_change"):
                    # table-driven: next state from the table for (carried state, this byte)
                    sub = [fr for (m, fr) in hir.visit_with_conds(sc.body["hir"], lambda x: x is init)]
                    ok2, why2 = state_arg_ok(sc, init, sub[0] if sub else [], rep, anchor)
                    ok = ok2 and hir.is_local(init["args"][1], clo[-1]["params"][0]["name"])
                    why = "table-driven update (next state of state_change(carried, byte))" if ok else why2
            if not ok and not why:
                why = f"`{r['name']}` is not the next state returned by state_change for this byte"
        elif hir.is_def(r) and (hir.def_path(r) or "").startswith(STATE + "::"):
            const = hir.def_path(r).split("::")[-1]
            tests = []
            for f in local_frames(frames):
                if f.get("kind") == "if":
                    ce = sc.carried_eq(f["expr"])
                    if ce and ((ce[0] == "Eq" and f["val"]) or (ce[0] == "Ne" and not f["val"])):
                        tests.append(ce[1])
            if tests:
                ok, why = True, f"constant store {const} under the test `*state == {tests[-1]}`"
            else:
                why = (f"unconditional store of State::{const} into the carried parser state: whatever the table-driven scan "
                       f"left there (e.g. the middle of a CSI sequence at the end of a chunk) is lost")
        else:
            why = "store of an unrecognised value into the carried state"
        rep.check(ok, "S1", anchor, f"store@{phase}:{short(r)}", f"S1 no-blind-overwrite: {why}", loc(b, n))
    # no other route to mutate the state: the `&mut State` itself is never handed to a callee
    leaks = []
    for n in hir.walk(b["hir"]):
        if n.get("k") == "call":
            for a in n["args"]:
                a = hir.simp(a)
                if a.get("k") == "local" and a["name"] == sc.state:
                    leaks.append(n)
                if a.get("k") == "ref" and hir.simp(a["e"]).get("k") == "un" and sc.is_carried(a["e"]) and a.get("mut"):
                    leaks.append(n)
    rep.check(not leaks, "S1", anchor, "no-escape", "the carried `&mut State` is not passed to any callee", loc(b))
    return len(sites), len(stores)


def short(e):
    e = hir.simp(e)
    if e.get("k") == "def":
        return "::".join(e["path"].split("::")[-2:])
    if e.get("k") == "local":
        return "$" + e["name"]
    return e.get("k", "?")


def local_frames(frames):
    """Frames established after the innermost closure boundary (tests outside a closure say nothing about the
    carried state at the time the closure runs)."""
    idx = [i for i, f in enumerate(frames) if f.get("kind") == "closure"]
    return frames[idx[-1] + 1:] if idx else frames


def phase_of(sc, frames):
    clo = [f["node"] for f in frames if f.get("kind") == "closure"]
    if not clo:
        return "body"
    if clo[-1] is sc.skip:
        return "skip"
    if clo[-1] is sc.take:
        return "take"
    return "closure?"


CONT = frozenset(range(0x80, 0xc0))
ASCII_WS = frozenset({0x09, 0x0a, 0x0c, 0x0d, 0x20})


def byte_pred(e, bname, facts, depth=0):
    """True-set (⊆ 0..=255) of a pure predicate over the byte `bname`, or None if the expression is something else."""
    if depth > 6:
        return None
    e = hir.simp(e)
    k = e.get("k")
    if k == "lit" and e.get("t") == "bool":
        return frozenset(range(256)) if e["v"] else frozenset()
    if k == "un" and e.get("op") == "Not" and "callee" not in e:
        s = byte_pred(e["e"], bname, facts, depth + 1)
        return None if s is None else frozenset(range(256)) - s
    if k == "bin" and "callee" not in e:
        op = e["op"]
        if op in ("And", "Or"):
            a, b = byte_pred(e["l"], bname, facts, depth + 1), byte_pred(e["r"], bname, facts, depth + 1)
            if a is None or b is None:
                return None
            return a & b if op == "And" else a | b
        if op in ("Eq", "Ne", "Lt", "Le", "Gt", "Ge"):
            l, r = hir.simp(e["l"]), hir.simp(e["r"])
            flip = {"Lt": "Gt", "Le": "Ge", "Gt": "Lt", "Ge": "Le", "Eq": "Eq", "Ne": "Ne"}
            if hir.is_local(r, bname) and r.get("k") == "local" and hir.lit_val(l) is not None:
                l, r, op = r, l, flip[op]
            if hir.is_local(l, bname) and isinstance(hir.lit_val(r), int):
                c = hir.lit_val(r)
                f = {"Eq": lambda x: x == c, "Ne": lambda x: x != c, "Lt": lambda x: x < c, "Le": lambda x: x <= c,
                     "Gt": lambda x: x > c, "Ge": lambda x: x >= c}[op]
                return frozenset(x for x in range(256) if f(x))
            lm = hir.simp(l)
            if lm.get("k") == "bin" and lm.get("op") == "BitAnd" and hir.is_local(lm["l"], bname) and isinstance(hir.lit_val(lm["r"]), int) \
                    and isinstance(hir.lit_val(r), int) and op in ("Eq", "Ne"):
                m, c = hir.lit_val(lm["r"]), hir.lit_val(r)
                return frozenset(x for x in range(256) if ((x & m) == c) == (op == "Eq"))
        return None
    if k == "match" and hir.is_local(e["scrut"], bname):
        out = set()
        rest = set(range(256))
        for a in e["arms"]:
            try:
                ints = hir.pat_ints(a["pat"])
            except Unrecognised:
                return None
            v = hir.lit_val(a["body"])
            if not isinstance(v, bool) or "guard" in a:
                return None
            hit = rest if ints is None else (rest & ints)
            if v:
                out |= hit
            rest -= hit
        return frozenset(out)
    if k == "call" and len(e["args"]) == 1 and hir.is_local(e["args"][0], bname):
        cal = hir.callee(e)
        std = {"core::num::<impl u8>::is_ascii": frozenset(range(128)),
               "core::num::<impl u8>::is_ascii_whitespace": ASCII_WS,
               "core::num::<impl u8>::is_ascii_control": frozenset(range(32)) | {127},
               "core::num::<impl u8>::is_ascii_graphic": frozenset(range(0x21, 0x7f)),
               "core::num::<impl u8>::is_ascii_digit": frozenset(range(0x30, 0x3a))}
        if cal in std:
            return std[cal]
        if facts is not None and cal.startswith("anstream::"):
            try:
                b = facts.body("anstream", cal)
            except Exception:
                return None
            if len(b["params"]) == 1 and b["params"][0].get("k") == "pbind" and b.get("sig", "").startswith("fn(u8) -> bool"):
                body = hir.simp(b["hir"])
                while body.get("k") == "block" and not body.get("stmts") and "expr" in body:
                    body = hir.simp(body["expr"])
                return byte_pred(body, b["params"][0]["name"], facts, depth + 1)
        return None
    return None


def _atoms_for(sc, clo, path, facts=None):
    """Classifier for the atoms of one path: 'P' (printability of this byte under the table), 'P?' (printability of
    something else), ('B', set) (a pure predicate over the byte), or None (anything else, e.g. a state test)."""
    b = clo["params"][0]["name"]
    lets = {}
    for t in path.trace:
        if t[0] == "let":
            p = t[1]
            if p.get("k") == "ptuple":
                for i, q in enumerate(p["pats"]):
                    if q.get("k") == "pbind":
                        lets[q["name"]] = (t[2], i)
            elif p.get("k") == "pbind":
                lets[p["name"]] = (t[2], None)

    def kind(e, depth=0):
        e = hir.simp(e)
        if e.get("k") == "local" and e["name"] in lets and lets[e["name"]][1] is None and depth < 4:
            return kind(lets[e["name"]][0], depth + 1)        # a boolean named first: `let keep = is_printable_bytes(..);`
        if hir.is_call(e, MOD + "is_printable_bytes") and len(e["args"]) == 2:
            a, bb = hir.simp(e["args"][0]), e["args"][1]
            if a.get("k") == "local" and a["name"] in lets and hir.is_local(bb, b):
                init, pos = lets[a["name"]]
                init = hir.simp(init)
                if pos == 1 and hir.is_call(init, "anstyle_parse::state::state_change") and hir.is_local(init["args"][1], b):
                    return "P"
            return "P?"
        s = byte_pred(e, b, facts)
        if s is not None:
            return ("B", s)
        return None

    return kind


def _assignments(atoms_txt):
    for vals in itertools.product((False, True), repeat=len(atoms_txt)):
        yield dict(zip(atoms_txt, vals))


def analyse_closure(sc, clo, facts=None):
    """For each path of a position-closure: the set of truth assignments (over its atoms) under which the closure
    returns false (= the scan goes on), with the classification of atoms."""
    out = []
    for p in hir.enumerate_paths(clo["body"]):
        if p.exit == "diverge":
            continue
        if p.exit not in ("value", "ret") or p.value is None:
            raise Unrecognised(f"{sc.name}: closure path without a boolean result")
        kind = _atoms_for(sc, clo, p, facts if facts is not None else getattr(sc, 'facts', None))
        conds = [(t[1], t[2]) for t in p.trace if t[0] == "cond"]
        arms = [t for t in p.trace if t[0] == "arm"]
        if arms:
            raise Unrecognised(f"{sc.name}: match inside a position closure")
        exprs = [c[0] for c in conds] + [p.value]
        atoms = []
        for e in exprs:
            for a in hir.bool_atoms(e):
                txt = hirpp.expr(a)
                if txt not in [x[0] for x in atoms]:
                    atoms.append((txt, a))
        names = [a[0] for a in atoms]
        kinds = {a[0]: kind(a[1]) for a in atoms}
        go_on = []
        for asg in _assignments(names):
            def av(node, asg=asg):
                return asg[hirpp.expr(node)]
            if all(hir.bool_eval(c, av) == v for c, v in conds) and hir.bool_eval(p.value, av) is False:
                go_on.append(asg)
        out.append({"path": p, "conds": conds, "kinds": kinds, "go_on": go_on, "names": names})
    return out


def cond_sig(conds):
    if not conds:
        return "always"
    c, v = conds[0]
    return ("" if v else "!") + hirpp.expr(c).replace(STATE + "::", "State::")


def byte_set_of(asg, info):
    """Bytes consistent with the truth values this assignment gives to the pure byte predicates of the path."""
    bs = frozenset(range(256))
    for a in info["names"]:
        k = info["kinds"][a]
        if isinstance(k, tuple) and k[0] == "B":
            bs &= k[1] if asg[a] else (frozenset(range(256)) - k[1])
    return bs


def kept_is_justified(asg, info):
    """A kept byte is justified by a true table-printability test on it, or by byte tests that confine it to the UTF-8
    continuation range 0x80..=0xbf."""
    if any(asg[a] and info["kinds"][a] == "P" for a in info["names"]):
        return True
    bs = byte_set_of(asg, info)
    return bool(bs) and bs <= CONT


def rule_S3(sc, rep):
    """take phase: a byte is kept (closure returns false) only after a true printability/continuation test on it."""
    b = sc.body
    n = 0
    for info in analyse_closure(sc, sc.take):
        n += 1
        bad = []
        for asg in info["go_on"]:
            if not byte_set_of(asg, info):
                continue   # contradictory byte tests: infeasible
            if not kept_is_justified(asg, info):
                bad.append(asg)
        sig = cond_sig(info["conds"])
        detail = "kept only under a true printability/continuation test"
        if bad:
            bs = sorted(byte_set_of(bad[0], info))
            detail = ("S3 every-kept-byte-is-classified: on this path the take phase keeps the byte although is_printable_bytes(action, b) "
                      "(action from the table for the carried state) was not found true for it and the byte is not confined to UTF-8 "
                      f"continuation bytes (possible bytes {bs[0]:#04x}..={bs[-1]:#04x}, {len(bs)} values)")
        rep.check(not bad, "S3", b["path"], f"take:{sig}", detail,
                  loc(b, info["path"].value if isinstance(info["path"].value, dict) else sc.take))
        q = [a for a in info["names"] if info["kinds"][a] == "P?"]
        if q:
            rep.bad("S3", b["path"], f"take:{sig}:foreign-action", "is_printable_bytes is applied to an action that does not come "
                    "from state_change for this byte", loc(b, sc.take))
    return n


def rule_S4(sc, rep):
    """skip phase: a byte is dropped (closure returns false) only if the table says it is not printable."""
    b = sc.body
    n = 0
    for info in analyse_closure(sc, sc.skip):
        n += 1
        bad = []
        for asg in info["go_on"]:
            ps = [a for a in info["names"] if info["kinds"][a] == "P"]
            if not ps or any(asg[a] for a in ps):
                bad.append(asg)
        sig = cond_sig(info["conds"])
        rep.check(not bad, "S4", b["path"], f"skip:{sig}",
                  "S4 skip-drops-only-unprintable: on this path the skip phase moves past a byte that the table classifies "
                  "as printable under the carried state, or without classifying it at all" if bad else
                  "dropped only when is_printable_bytes(action, b) is false",
                  loc(b, sc.skip))
    return n


def rule_S6(sc, rep):
    """The byte a scan stops at is not consumed by that scan: the take phase's stop byte is the first byte the next call's skip
    phase classifies. It has to be classified there from the state the take phase saw, so a take-phase path that can stop the scan
    (closure result true) stores nothing into the carried state and feeds nothing to the UTF-8 decoder."""
    b = sc.body
    n = 0
    for info in analyse_closure(sc, sc.take):
        p = info["path"]
        n += 1
        can_stop = False
        for asg in _assignments(info["names"]):
            def av(node, asg=asg):
                return asg[hirpp.expr(node)]
            if all(hir.bool_eval(c, av) == v for c, v in info["conds"]) and hir.bool_eval(p.value, av) is True:
                can_stop = True
                break
        effects = []
        for t in p.trace:
            if t[0] == "assign" and sc.is_carried(t[1]["l"]):
                effects.append("store into the carried state")
            elif t[0] == "eval":
                for a in t[1].get("args", []):
                    a = hir.simp(a)
                    while a.get("k") == "ref" or (a.get("k") == "un" and a.get("op") == "Deref"):
                        a = hir.simp(a["e"])
                    if a.get("k") == "local" and a.get("ty", "").replace("&mut ", "").endswith("Utf8Parser"):
                        effects.append("byte fed to the UTF-8 decoder")
        sig = cond_sig(info["conds"]) + ("" if len(info["conds"]) < 2 else ":" + cond_sig(info["conds"][1:]))
        bad = can_stop and effects
        rep.check(not bad, "S6", b["path"], f"take-stop:{sig}",
                  ("S6 stop-byte-is-reclassified-from-the-same-state: this take-phase path can end the run at a byte (which stays "
                   "in the input and is classified again by the next skip phase) after a " + ", ".join(sorted(set(effects)))
                   + " — the second classification then starts from a different state than the first") if bad else
                  ("continues the run" if not can_stop else "stops the run without touching the carried state or the decoder"),
                  loc(b, p.value if isinstance(p.value, dict) else sc.take))
    return n


def rule_S5(sc, rep):
    """Slices are in-order pieces of the input: both cuts are `bytes.split_at(offset.unwrap_or(bytes.len()))` with
    offset the preceding scan; `*bytes` only ever becomes the right half; the result is the left half of the second cut."""
    b = sc.body
    top = sc.top
    cuts = []
    for i, s in enumerate(top):
        if s.get("k") == "let" and "init" in s and hir.is_call(hir.simp(s["init"]), "split_at"):
            cuts.append((i, s))
    rep.check(len(cuts) == 2, "S5", b["path"], "two-cuts", f"{len(cuts)} split_at cuts", loc(b))
    for ci, (i, s) in enumerate(cuts):
        c = hir.simp(s["init"])
        recv_ok = hir.is_local(c["args"][0], sc.bytes)
        at = hir.simp(c["args"][1])
        off_ok = False
        if hir.is_call(at, "unwrap_or") and len(at["args"]) == 2:
            off, dflt = hir.simp(at["args"][0]), hir.simp(at["args"][1])
            prev = [p for p in sc.positions if p[0] < i]
            off_ok = (bool(prev) and off.get("k") == "local" and off["name"] == prev[-1][1]
                      and hir.is_call(dflt, "len") and hir.is_local(dflt["args"][0], sc.bytes)
                      # nothing between the scan and the cut rebinds the input
                      and not any(t.get("k") == "assign" and hir.is_local(t["l"], sc.bytes) for t in top[prev[-1][0] + 1:i]))
        rep.check(recv_ok and off_ok, "S5", b["path"], f"cut{ci}:at-scan-offset",
                  "the cut is bytes.split_at(offset.unwrap_or(bytes.len())) with offset from the preceding scan of the same bytes",
                  loc(b, s))
        # *bytes := right half, immediately
        pat = s["pat"]
        right = pat["pats"][1].get("name") if pat.get("k") == "ptuple" and len(pat["pats"]) == 2 else None
        nxt = hir.simp(top[i + 1]) if i + 1 < len(top) else {}
        adv_ok = (nxt.get("k") == "assign" and hir.is_local(nxt["l"], sc.bytes) and right is not None and hir.is_local(nxt["r"], right))
        rep.check(adv_ok, "S5", b["path"], f"cut{ci}:advance-to-right-half", "*bytes = <right half> directly after the cut", loc(b, nxt or s))
    # all stores into *bytes are those two
    stores = [n for n in hir.walk(b["hir"]) if n.get("k") in ("assign", "assignop") and hir.is_local(n["l"], sc.bytes)
              and hir.simp(n["l"]).get("k") == "un"]
    rep.check(len(stores) == 2, "S5", b["path"], "only-two-advances", f"{len(stores)} stores into *bytes", loc(b))
    # the result: Some(left half of the second cut) (through from_utf8_unchecked for the str scanner), else None
    if len(cuts) == 2:
        pat = cuts[1][1]["pat"]
        left = pat["pats"][0].get("id") if pat.get("k") == "ptuple" else None
        somes = [n for n in hir.walk(b["hir"]) if n.get("k") == "call" and n.get("ctor", "").endswith("Option::Some")]
        ok = len(somes) == 1 and left is not None
        if ok:
            v = hir.simp(somes[0]["args"][0])
            if v.get("k") != "local":
                ok = False
            elif v.get("id") != left:
                # `let piece = unsafe { from_utf8_unchecked(<left half>, ..) }` (the str scanner), whatever the binding is called
                binds = [n for n in hir.walk(b["hir"]) if n.get("k") == "let" and n["pat"].get("k") == "pbind" and n["pat"].get("id") == v.get("id") and "init" in n]
                ok = len(binds) == 1
                for sh in binds:
                    calls = [x for x in hir.walk(sh["init"]) if hir.is_call(x, MOD + "from_utf8_unchecked")]
                    a = hir.peel(calls[0]["args"][0]) if len(calls) == 1 else {}
                    ok = ok and len(calls) == 1 and a.get("k") == "local" and a.get("id") == left
        rep.check(ok, "S5", b["path"], "result-is-left-half", "the yielded piece is the left half of the second cut (kept run)", loc(b))
