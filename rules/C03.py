"""C03 — incremental processing equals one-shot processing for every chunking (structural part)."""
import hir
import hirpp
from core import AnchorMissing, Unrecognised, loc
from rules import scanner, stripstream

META = {
    "explanation": (
        "Static decision of the necessary structural conditions for chunk-invariance: (carry) rules S1/S2 of the strip "
        "scanners — every store into the carried parser state is table-driven or a constant store under an equality test, and "
        "every classification uses the carried state — so the state at the end of a chunk is the last table-driven state; "
        "(owned-state) the per-chunk iterators hold &mut borrows of all adapter state, the adapter modules have no static / "
        "thread-local / interior-mutable state and the only per-call reset touches `ready` alone; (same-start) one-shot "
        "constructors start from the same state as the incremental Default; (byte-at-a-time) the styled-run extractor feeds the "
        "parser one byte per split_first step; (replay) rule W1 of the strip stream. Does NOT decide full equality for the strip "
        "scanners (same undecided clause as C01)."),
}

MANIFEST = {
    "level": ("Sound static decision of necessary conditions of C03 for all inputs and chunkings: chunk-invariance can only fail "
              "through state that is lost, reset, copied or left stale at a chunk boundary, and each of those is a shape of the "
              "code (stores into the carried state, what the iterators borrow, what is reset per call). Sampled tests never cut "
              "inside an escape sequence."),
    "note": ("Trusted: rustc front end; path enumerator. Not decided: the full equality of outputs for the two-phase scanners "
             "(implied by C01's undecided invariant plus these conditions)."),
    "technique": "static analysis: typestate rules on the carried parser state (S1/S2) the only-two-advances rule (S5) and the stop-byte rule (S6), abstract evaluation of the one-shot strippers' between-slices methods and of constructors against Default, ownership/borrow facts of iterator types, value-flow (origin) rules for the byte-at-a-time extractor, abstract evaluation of the run epilogue, who-may-write, static-item inventory",
}

AD = "anstream::adapter::"


def run(ctx):
    rep, facts = ctx.report, ctx.facts
    for name in ("next_str", "next_bytes"):
        def scan(name=name):
            sc = scanner.Scanner(facts, name)
            rep.fn(sc.body["path"])
            scanner.rule_S1_S2(sc, rep, "C03")
            # chunk invariance needs every byte to go through the transition function from the carried state: a fast path that
            # consumes bytes any other way behaves differently when a chunk happens to start where it applies (S5)
            scanner.rule_S5(sc, rep)
            scanner.rule_S6(sc, rep)
            # the two phases agree on what a printable byte is (S3: the take phase keeps only what the table calls printable, S4: the
            # skip phase drops only what it does not) — a byte that is kept in the middle of a run but skipped at the start of a chunk
            # makes the output depend on where the chunk was cut
            # (the decoder-driven path `*state == Utf8` keeps whatever completes the character in either phase — that is C01's
            # question and its recorded finding, and does not depend on the cut)
            import core
            both = core.Filtered(rep, lambda rule, anchor, instance: not instance.replace(" ", "_").startswith("take:((Deref_$state)_Eq_State::Utf8)"))
            scanner.rule_S3(sc, both)
            scanner.rule_S4(sc, both)
        rep.guarded("carry", scanner.MOD + name, scan)
    rep.guarded("owned-state", "anstream::adapter", lambda: rule_owned(facts, rep))
    rep.guarded("same-start", "anstream::adapter", lambda: rule_same_start(facts, rep))
    rep.guarded("byte-at-a-time", AD + "wincon::next_bytes", lambda: rule_byte_at_a_time(facts, rep))
    # of the strip stream's short-write rules only W1 (the state replayed matches the bytes reported as consumed) belongs to this
    # property; the count rules (W3) are C06's
    import core
    w1 = core.Filtered(rep, lambda rule, anchor, instance: rule == "W1")
    rep.guarded("W1", "anstream::strip::write", lambda: stripstream.rule_W1_W3(facts, w1))
    rep.guarded("through", "anstream::strip", lambda: stripstream.rule_through(facts, rep, "through"))
    rep.guarded("who-writes", "anstream::adapter", lambda: rule_who_writes(facts, rep))
    rep.guarded("between-slices", AD + "strip::StrippedBytes", lambda: rule_between_slices(facts, rep))
    # the styled-run extractor closes a run exactly when the style changes with text pending — on anything else (what the text is,
    # what the styles are) the runs would depend on where a chunk ends, since the end of a chunk flushes the pending text too
    from rules import C07
    rep.guarded("emit", C07.FN + "csi_dispatch", lambda: C07.rule_emit(facts, rep))
    for r, n in (("S1", 7), ("S2", 8), ("owned-state", 9), ("same-start", 6), ("byte-at-a-time", 6), ("W1", 7), ("through", 7), ("who-writes", 3), ("S5", 12), ("S6", 5), ("S3", 2), ("S4", 3), ("between-slices", 1), ("emit", 9)):
        rep.floor(r, n)


def rule_owned(facts, rep):
    want = {
        AD + "strip::StripStrIter": {"state": "&'s mut anstyle_parse::state::definitions::State"},
        AD + "strip::StripBytesIter": {"state": "&'s mut anstyle_parse::state::definitions::State",
                                       "utf8parser": "&'s mut anstream::adapter::strip::Utf8Parser"},
        AD + "wincon::WinconBytesIter": {"parser": "&'s mut anstyle_parse::Parser", "capture": "&'s mut anstream::adapter::wincon::WinconCapture"},
    }
    for path, fields in want.items():
        it = facts.item("anstream", path, "Struct")
        ft = {f["name"]: f["ty"] for f in it["variants"][0]["fields"]}
        for f, ty in fields.items():
            rep.check(ft.get(f) == ty, "owned-state", path, f"borrows-&mut-{f}",
                      f"the per-chunk iterator must borrow the adapter's `{f}` mutably (a copy would drop progress at the end "
                      f"of the chunk): field type is `{ft.get(f)}`", f"{it['file']}:{it['ln']}")
    # the adapters' own state: plain values, no interior mutability, no shared statics
    for path in (AD + "strip::StripStr", AD + "strip::StripBytes", AD + "wincon::WinconBytes", AD + "wincon::WinconCapture",
                 AD + "strip::Utf8Parser"):
        it = facts.item("anstream", path, "Struct")
        bad = [f for f in it["variants"][0]["fields"] if any(x in f["ty"] for x in ("Cell<", "RefCell<", "Mutex<", "RwLock<", "Atomic", "OnceLock", "Rc<", "Arc<", "&"))]
        rep.check(not bad, "owned-state", path, "plain-owned-fields", f"{[(f['name'], f['ty']) for f in bad]}", f"{it['file']}:{it['ln']}")
    statics = [i for i in facts.items("anstream") if i["dk"] == "Static" and i["path"].startswith(AD)]
    rep.check(not statics, "owned-state", "anstream::adapter", "no-statics", f"{[s['path'] for s in statics]}", "")
    # extract_next hands out &mut self.parser / &mut self.capture
    b = facts.body("anstream", AD + "wincon::WinconBytes::extract_next")
    rep.fn(b["path"])
    s = [n for n in hir.walk(b["hir"]) if n.get("k") == "struct"]
    ok = len(s) == 1
    if ok:
        f = {x["name"]: hir.simp(x["e"]) for x in s[0]["fields"]}
        for fld in ("parser", "capture"):
            e = f.get(fld, {})
            ok = ok and e.get("k") == "ref" and e.get("mut") and hir.place_str(e["e"]) == f"self.{fld}"
        # ... and the slice it iterates is the caller's slice itself (through plain `let` renamings at most): trimming or skipping part
        # of a chunk here (a prefix "cleaned up" once per call) makes the result depend on where the chunks are cut
        src = hir.simp(f.get("bytes", {}))
        R_ = hir.Resolver(b["hir"])
        for _ in range(4):
            nxt = hir.simp(R_.res(src)) if src.get("k") == "local" else src
            if nxt is src:
                break
            src = nxt
        pid = [p_.get("id") for p_ in b["params"] if p_.get("name") == "bytes"]
        ok = ok and src.get("k") == "local" and src.get("id") in pid
    rep.check(ok, "owned-state", b["path"], "borrows-own-state-mutably", "", loc(b))
    # the only per-call reset: WinconCapture::reset assigns `ready` and nothing else
    r = facts.body("anstream", AD + "wincon::WinconCapture::reset")
    rep.fn(r["path"])
    asg = [n for n in hir.walk(r["hir"]) if n.get("k") in ("assign", "assignop")]
    calls = [n for n in hir.walk(r["hir"]) if n.get("k") == "call" and "ctor" not in n]
    rep.check(len(asg) == 1 and hir.place_str(asg[0]["l"]) == "self.ready" and not calls, "owned-state", r["path"], "reset-touches-ready-only",
              "the per-call reset must not touch the style in effect, the pending text or the parser", loc(r))
    # who else writes capture.style / parser between calls: only csi_dispatch assigns self.style
    writers = set()
    for body in facts.bodies("anstream"):
        if "hir" not in body or not body["path"].startswith(AD + "wincon") and "adapter::wincon::WinconCapture" not in body["path"]:
            continue
        if body.get("expn"):
            continue
        for n in hir.walk(body["hir"]):
            if n.get("k") in ("assign", "assignop") and hir.place_str(n["l"]) in ("self.style", "capture.style"):
                writers.add(body["path"].split("::")[-1])
    rep.check(writers == {"csi_dispatch"}, "owned-state", AD + "wincon::WinconCapture.style", "who-may-write", f"{sorted(writers)}", "")


def rule_same_start(facts, rep):
    # State's Default is Ground, and the one-shot constructors store Ground
    d = facts.body("anstyle_parse", "<anstyle_parse::state::definitions::State as core::default::Default>::default")
    rep.check(any(hir.is_def(n, "State::Ground") for n in hir.walk(d["hir"])) and
              not any(hir.is_def(n) and (hir.def_path(n) or "").startswith("anstyle_parse::state::definitions::State::") and not hir.is_def(n, "State::Ground")
                      for n in hir.walk(d["hir"])), "same-start", d["path"], "default-is-Ground", "", loc(d))
    for ctor in ("strip::StrippedStr::<'s>::new", "strip::StrippedBytes::<'s>::new"):
        b = facts.body("anstream", AD + ctor)
        s = [n for n in hir.walk(b["hir"]) if n.get("k") == "struct"]
        ok = len(s) == 1 and hir.is_def({x["name"]: x["e"] for x in s[0]["fields"]}.get("state"), "State::Ground")
        if ok and "StrippedBytes" in ctor:
            u = hir.simp({x["name"]: x["e"] for x in s[0]["fields"]}.get("utf8parser"))
            ok = hir.is_call(u, "Default::default")
        rep.check(ok, "same-start", b["path"], "one-shot-starts-like-Default", "state: State::Ground (= State::default()), fresh utf8 parser", loc(b))
    from rules import anstyle_common as ac
    for ctor in ("strip::StripStr::new", "strip::StripBytes::new", "wincon::WinconBytes::new"):
        b = facts.body("anstream", AD + ctor)
        st = hir.stmts_of(b["hir"])
        ok = len(st) == 1 and hir.is_call(st[0], "Default::default")
        why = ""
        if not ok:
            # spelled out instead of delegating: the same value as Default::default(), by abstract evaluation of both
            try:
                ty = AD + ctor.rsplit("::", 1)[0]
                inl = ("anstream", "anstyle_parse", "anstyle")
                got = ac.eval_all(facts, "anstream", b["path"], [], inl)
                want = ac.eval_all(facts, "anstream", f"<{ty} as core::default::Default>::default", [], inl)
                ok = len(got) == 1 and len(want) == 1 and got[0][1] == want[0][1]
                why = f"new() = {str(got[0][1])[:120]}; default() = {str(want[0][1])[:120]}"
            except Unrecognised as ex:
                why = f"not evaluable: {ex}"
        rep.check(ok, "same-start", b["path"], "new-is-Default", why, loc(b))
    # derived Default of the adapters (no hand-written Default that starts elsewhere)
    for ty in ("anstream::adapter::strip::StripStr", "anstream::adapter::strip::StripBytes", "anstream::adapter::wincon::WinconBytes"):
        impls = [i for i in facts.items("anstream") if i["dk"] == "Impl" and i.get("trait") == "core::default::Default" and i.get("self_ty") == ty]
        rep.check(len(impls) == 1 and impls[0].get("derived"), "same-start", ty, "Default-is-derived", f"{len(impls)} impls", "")


def rule_byte_at_a_time(facts, rep):
    b = facts.body("anstream", AD + "wincon::next_bytes")
    rep.fn(b["path"])
    adv = hir.visit_with_conds(b["hir"], lambda n: hir.is_call(n, "anstyle_parse::Parser::<C>::advance"))
    rep.check(len(adv) == 1, "byte-at-a-time", b["path"], "one-advance-site", f"{len(adv)} calls of Parser::advance", loc(b))
    if len(adv) != 1:
        return
    call, frames = adv[0]
    in_loop = [f for f in frames if f.get("kind") == "loop"]
    rep.check(len(in_loop) == 1 and hir.is_local(call["args"][0], "parser") and hir.is_local(call["args"][1], "capture"),
              "byte-at-a-time", b["path"], "advance(parser, capture, byte)-in-one-loop", "", loc(b, call))
    # the byte comes from `(*bytes).split_first()`, `*bytes = remainder` of the same call in the same iteration, and the
    # no-more-input case leaves the loop — whatever binds them (`if let .. else { break }`, `match`, `let .. else`)
    loop = in_loop[0]["node"] if in_loop else None
    ok_split = ok_adv = ok_break = False
    if loop is not None:
        O = hir.Origins(b["hir"])
        src, proj = O.of(call["args"][2])
        ok_split = hir.is_call(src, "split_first") and hir.is_local(hir.peel(src["args"][0]), "bytes") and proj == ("Some", ("tup", 0))
        # (anywhere in the function: input consumed before or after the loop does not pass through the parser at all, and what the
        # parser's state makes of the following bytes then depends on where the chunk started)
        stores = hir.visit_with_conds(b["hir"], lambda n: n.get("k") in ("assign", "assignop") and hir.is_local(n["l"], "bytes") and hir.simp(n["l"]).get("k") == "un")
        if ok_split and len(stores) == 1:
            st_node, st_frames = stores[0]
            s2, p2 = O.of(st_node["r"])
            extra = [f for f in st_frames if f.get("kind") == "if" and not (
                hir.is_call(hir.simp(f["expr"]), "Option::<T>::is_none") or hir.simp(f["expr"]).get("k") == "letexpr")]
            ok_adv = s2 is src and p2 == ("Some", ("tup", 1)) and not extra
        # the None case: the construct that destructures split_first() diverges with `break` when it does not match
        for n in hir.walk(loop):
            k = n.get("k")
            if k == "let" and "els" in n and hir.simp(n.get("init")) is src:
                ok_break = any(x.get("k") == "break" and "label" not in x for x in hir.walk(n["els"]))
            elif k == "if" and hir.simp(n["c"]).get("k") == "letexpr" and hir.simp(hir.simp(n["c"])["init"]) is src and "e" in n:
                ok_break = hir.simp(hir.stmts_of(n["e"])[-1]).get("k") == "break"
            elif k == "match" and n.get("src") not in ("TryDesugar", "ForLoopDesugar") and hir.simp(n["scrut"]) is src:
                rest = [a for a in n["arms"] if hir.last_seg(hir.pat_path(a["pat"]) or "") != "Some"]
                ok_break = len(rest) == 1 and hir.simp(hir.stmts_of(rest[0]["body"])[-1]).get("k") == "break"
    rep.check(ok_split, "byte-at-a-time", b["path"], "byte-from-split_first", "", loc(b))
    rep.check(ok_adv, "byte-at-a-time", b["path"], "advance-input-by-one", "*bytes = remainder; the first byte goes to the parser", loc(b))
    rep.check(ok_break, "byte-at-a-time", b["path"], "stop-at-end-of-chunk", "", loc(b))
    # the pending text is produced by the parser's callbacks only: here it is looked at and handed out, never added to
    writers = []
    for n in hir.walk(b["hir"]):
        if n.get("k") == "call" and not n.get("ctor") and n.get("args"):
            a0 = hir.simp(n["args"][0])
            by_mut = str(n.get("recv_adj_ty", "")).startswith("&mut") or (a0.get("k") == "ref" and a0.get("mut"))
            if by_mut and hir.place_str(hir.peel(a0)) == "capture.printable" and hir.callee(n).split("::")[-1] not in ("take", "replace", "swap"):
                writers.append(hir.callee(n))
        if n.get("k") in ("assign", "assignop") and (hir.place_str(n["l"]) or "").startswith("capture.printable"):
            rhs = hir.simp(n["r"])
            if not (hir.is_call(rhs, "String::new") or hir.is_call(rhs, "Default::default")):
                writers.append("assignment")
    rep.check(not writers, "byte-at-a-time", b["path"], "text-only-from-the-parser",
              f"next_bytes adds to the pending text itself ({writers}): those bytes bypass the parser state carried over from the previous chunk", loc(b))
    # the iterator's next() delegates with its own borrowed state
    n = facts.body("anstream", "<anstream::adapter::wincon::WinconBytesIter<'_> as core::iter::traits::iterator::Iterator>::next")
    st = hir.stmts_of(n["hir"])
    ok = len(st) == 1 and hir.is_call(st[0], AD + "wincon::next_bytes") and \
        [hir.place_str(a) for a in hir.simp(st[0])["args"]] == ["self.bytes", "self.parser", "self.capture"]
    rep.check(ok, "byte-at-a-time", n["path"], "next-delegates", "", loc(n))


def rule_who_writes(facts, rep):
    """The per-chunk entry points hand out borrows and nothing else: a store into the carried state there happens once per
    chunk, i.e. at every cut, which is exactly what one-shot processing never executes."""
    for path, allowed in ((AD + "strip::StripStr::strip_next", ()), (AD + "strip::StripBytes::strip_next", ()),
                          (AD + "wincon::WinconBytes::extract_next", ("anstream::adapter::wincon::WinconCapture::reset", "alloc::string::String::reserve"))):
        b = facts.body("anstream", path)
        rep.fn(path)
        stores = [n for n in hir.walk(b["hir"]) if n.get("k") in ("assign", "assignop")]
        calls = [hir.callee(n) for n in hir.walk(b["hir"]) if n.get("k") == "call" and not n.get("ctor") and hir.callee(n) not in allowed
                 and any(hir.is_local(x, "self") for a in n["args"] for x in hir.walk(a))]
        conds = [n for n in hir.walk(b["hir"]) if n.get("k") in ("if", "match", "loop")]
        rep.check(not stores and not calls and not conds, "who-writes", path, "entry-point-only-borrows",
                  f"per-chunk entry point must only build the iterator from &mut borrows; found stores "
                  f"{[hirpp.expr(s)[:50] for s in stores]}, calls {calls}, branches {len(conds)}", loc(b))


def rule_between_slices(facts, rep, rule="between-slices"):
    """A one-shot stripper fed several slices (`extend`) is the chunked adapter under another name: what is carried from one slice
    to the next is the escape state *and* the UTF-8 decoder. By abstract evaluation of every inherent `&mut self` method of the
    one-shot types on a symbolic value: all fields but `bytes` come out as they went in."""
    import abseval
    n = 0
    for b in facts.bodies("anstream"):
        if not (b["path"].startswith(AD + "strip::Stripped") and b.get("kind") == "AssocFn" and "hir" in b
                and b.get("sig", "").startswith("fn(&mut anstream::adapter::strip::Stripped")):
            continue
        ty = b["sig"][len("fn(&mut "):].split("<")[0]
        it = facts.item("anstream", ty, "Struct")
        fields = [f["name"] for f in it["variants"][0]["fields"]]
        self0 = ("rec", {f: ("sym", f + "-before") for f in fields})
        args = [self0] + [("sym", f"arg{i}") for i in range(1, len(b["params"]))]
        rep.fn(b["path"])
        n += 1

        def unint(callee, a_, e):
            if e.get("ty") == "bool":
                return ("bool", ev.oracle(("app", callee, repr(a_))))
            return ("app", callee) + tuple(a_)
        ev = abseval.Evaluator(facts, "anstream", {"*": unint})

        def run(choices):
            ev.choices = choices
            fin = []
            ev.call_fn("anstream", b["path"], args, final=fin)
            return fin[0]
        bad = []
        try:
            for choices, after in abseval.explore(run):
                if after[0] != "rec":
                    bad.append(f"self becomes {after}")
                    continue
                for f in fields:
                    if f != "bytes" and after[1].get(f) != ("sym", f + "-before"):
                        bad.append(f"`{f}` becomes {after[1].get(f)}")
        except Unrecognised as ex:
            bad.append(f"not evaluable: {ex}")
        rep.check(not bad, rule, b["path"], "carries-state-and-decoder",
                  f"every field but `bytes` is left as it was (fields {fields}) {sorted(set(bad))[:2]}"[:400], loc(b))
    return n
