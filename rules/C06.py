"""C06 — the strip stream keeps the Write contract under short writes and errors (structural part)."""
from rules import stripstream

META = {
    "explanation": (
        "Static decision on the HIR of anstream::strip::{write, write_all, write_fmt, offset_to}, StripStream::write_vectored and "
        "anstream::fmt::Adapter: W1 on the short-write path the stripper is rewound to the entry snapshot and re-fed exactly "
        "buf[..n] where n is the returned count; W2a every Err exit of write restores the snapshot first; W2b no Err exit is "
        "reachable after an earlier piece of the same call was delivered (recorded finding); W3 every Ok(n) is buf.len() after the "
        "loop or offset_to(buf, &piece[written..]); write_vectored forwards one caller buffer; W4 inner errors are propagated "
        "unchanged by write, write_all (`?` only) and through fmt::Adapter (saved in write_str, returned by write_fmt). Does NOT "
        "decide the end-to-end delivery of exactly the stripped form over all fault scripts."),
}

MANIFEST = {
    "level": ("Sound static decision of the protocol-shaped clauses of C06 for every input and every fault script: they are "
              "statements about which slice is replayed, which value is returned and what precedes each error exit, all visible "
              "in the code on every path. This is where the two repaired defects (wrong replay slice, state drift on error) and "
              "the recorded one (error after progress) live; sampled tests with well-behaved writers never reach these paths."),
    "note": ("Trusted: rustc front end; HIR normaliser. Not decided: that the delivered bytes equal the stripped form end-to-end "
             "(needs C01's undecided scanner invariant plus a protocol argument). Known finding: error after progress (D5b)."),
    "technique": "static analysis: value-flow rules on the short-write and error paths (replay slice, snapshot restore, returned count), composed abstract evaluation of fmt::Adapter (new, write_str, write_fmt), result-position rule for write_vectored",
}


def run(ctx):
    rep, facts = ctx.report, ctx.facts
    rep.guarded("W1", "anstream::strip::write", lambda: stripstream.rule_W1_W3(facts, rep))
    rep.guarded("W2a", "anstream::strip::write", lambda: stripstream.rule_W2(facts, rep))
    rep.guarded("W4", "anstream::strip::write_all", lambda: stripstream.rule_W4(facts, rep))
    rep.guarded("W5", "anstream::strip", lambda: stripstream.rule_through(facts, rep, "W5"))
    for r, n in (("W1", 7), ("W2a", 2), ("W2b", 1), ("W3", 5), ("W4", 12), ("W5", 7)):
        rep.floor(r, n)
