"""C15 — roff rendering preserves text, colours and font per segment (structural part)."""
import hir
import hirpp
from core import AnchorMissing, Unrecognised, loc
from rules import anstyle_common as ac
from spec import sgr, thirdparty as tp

META = {
    "explanation": (
        "Static reading of anstyle_roff: the cansi->anstyle 16-row colour table (same names, None->None); the create_effects "
        "pairing (8 rows: ITALIC<-italic, BLINK<-blink, INVERT<-reversed, HIDDEN<-hidden, STRIKETHROUGH<-strikethrough, "
        "UNDERLINE<-underline, BOLD<-intensity==Bold, DIMMED<-intensity==Faint); StyledStr::from wires text / fg / bg from the "
        "like-named fields; is_bright is exactly the 8 bright variants; ansi_color_to_roff names the hue of each colour; the "
        "font decision list is bold-or-bright-foreground -> bold, else italic -> italic, else roman; per segment the colour "
        "requests come first (gcolor <- foreground, fcolor <- background, in that order, from get_fg_color / get_bg_color) and "
        "then the text; None renders `default`; the RGB path emits `defcolor name rgb #hex` before the colour request and to_hex "
        "shifts fields 0/1/2 by 16/8/0 into #%06x; (taint) the input text reaches the document only through "
        "roff::{bold,italic,roman} -> Roff::text (the escaping API), never through Roff::control, whose arguments are literals, "
        "fixed colour names and hex strings. Does NOT decide segmentation (cansi) nor the roff crate's escaping itself."),
}

MANIFEST = {
    "level": ("Sound static decision of the tables, the font decision list, the request order/wiring and the 'text only through "
              "the escaping API' taint clause for every styled text: all are shapes of straight-line code and finite tables."),
    "note": ("Trusted: rustc front end; cansi 2.2.1 / roff 0.2 behave as documented (categorise_text_v3 segments the text, "
             "Roff::text escapes leading control characters and backslashes); version of cansi checked against Cargo.lock."),
    "technique": "static analysis: abstract evaluation of the effect rows and of StyledStr::from over attribute cases, evaluation of the hue names on the 16 colours and of the colour requests per colour kind (symbolic payload, roff calls recorded), truth-table evaluation of the brightness test, decision-list reading, call-order rules, taint (text only into roff::bold/italic/roman)",
}

R = "anstyle_roff::"


def vec_elems(e):
    """vec![a, b] as lowered on this toolchain → [a, b]."""
    e = hir.simp(e)
    arrs = [n for n in hir.walk(e) if n.get("k") == "array"]
    if hir.is_call(e, "alloc::boxed::box_assume_init_into_vec_unsafe") and len(arrs) >= 1:
        return arrs[0]["es"]
    if hir.is_call(e, "into_vec") and arrs:
        return arrs[0]["es"]
    raise Unrecognised(f"vec! lowering not recognised: {hirpp.expr(e)[:80]}")


def run(ctx):
    rep, facts = ctx.report, ctx.facts
    rep.guarded("tables", R, lambda: rule_tables(facts, rep))
    rep.guarded("font", R + "set_effects_and_text", lambda: rule_font(facts, rep))
    rep.guarded("colours", R, lambda: rule_colours(facts, rep))
    rep.guarded("taint", R, lambda: rule_taint(facts, rep))
    rep.guarded("segments", R + "to_roff", lambda: rule_segments(facts, rep))
    for r, n in (("tables", 8), ("font", 4), ("colours", 11), ("taint", 4), ("segments", 4)):
        rep.floor(r, n)


def rule_tables(facts, rep):
    import os
    import re
    import extract
    lock = open(os.path.join(extract.repo_root(), "Cargo.lock")).read()
    m = re.findall(r'name = "cansi"\nversion = "([^"]+)"', lock)
    rep.check(m == [tp.VERSIONS["cansi"]], "tables", "Cargo.lock", "cansi-version", f"{m}", "Cargo.lock")
    b = facts.body("anstyle_roff", R + "styled_str::cansi_to_anstyle_color")
    rep.fn(b["path"])
    # truth table by abstract evaluation over None and Some(each cansi colour): a 17-arm match, or `match color? { .. }` wrapped
    # afterwards, are the same table
    import abseval
    got = {}
    none_ok = False
    for name in [None] + list(tp.CANSI_COLOR):
        ev = abseval.Evaluator(facts, "anstyle_roff", {})
        env = abseval.Env()
        env[b["params"][0]["name"]] = ("none",) if name is None else ("some", ("enum", "cansi::Color::" + name))
        try:
            try:
                r = ev.ev(b["hir"], env)
            except abseval.Return as rt:
                r = rt.v
        except Unrecognised as ex:
            raise Unrecognised(f"cansi_to_anstyle_color: {ex}")
        if name is None:
            none_ok = r == ("none",)
        else:
            val = None
            if r[0] == "some" and r[1][0] == "ctor" and r[1][1] == "anstyle::color::Color::Ansi" and r[1][2][0] == "enum":
                val = r[1][2][1].split("::")[-1]
            got[name] = val
        rep.count()
    rep.check(got == {n: n for n in tp.CANSI_COLOR} and none_ok, "tables", b["path"], "16-rows-same-names",
              f"wrong rows: { {k: v for k, v in got.items() if k != v} }", loc(b))
    # create_effects
    c = facts.body("anstyle_roff", R + "styled_str::create_effects")
    rep.fn(c["path"])
    # the effect set as a function of the slice's flags, by abstract evaluation (anstyle's Effects::new/set/insert/remove are
    # followed into their bodies): each flag alone sets exactly its effect, Some(false)/None set nothing, and all together give
    # the union — a chain of .set(..), a fold over a table of pairs, a sequence of `|=` all evaluate alike
    import abseval
    FLAGS = {"italic": "ITALIC", "blink": "BLINK", "reversed": "INVERT", "hidden": "HIDDEN", "strikethrough": "STRIKETHROUGH", "underline": "UNDERLINE"}
    bit = {n_: v for n_, v, _ in ac.effect_consts(facts)}
    INT = "cansi::Intensity::"

    def effects_of(flags, intensity):
        cat = {f: (("some", ("bool", flags[f])) if f in flags else ("none",)) for f in FLAGS}
        cat["intensity"] = ("none",) if intensity is None else ("some", ("enum", INT + intensity))
        for extra in ("text", "start", "end", "fg", "bg"):
            cat[extra] = ("sym", extra)
        ev = abseval.Evaluator(facts, "anstyle_roff", {}, inline_crates=("anstyle",))
        r = ev.call_fn("anstyle_roff", c["path"], [("rec", cat)])
        if r[0] == "ctor" and len(r) == 3 and r[2][0] == "int":
            return r[2][1]
        raise Unrecognised(f"create_effects evaluates to {str(r)[:80]}")
    rows, bad = 0, []
    try:
        cases = [({}, None, 0), ({f: False for f in FLAGS}, "Normal", 0), ({}, "Bold", bit["BOLD"]), ({}, "Faint", bit["DIMMED"])]
        for f, eff in FLAGS.items():
            cases.append(({f: True}, None, bit[eff]))
            cases.append(({g: (g != f) for g in FLAGS}, "Bold", sum(bit[FLAGS[g]] for g in FLAGS if g != f) | bit["BOLD"]))
        cases.append(({f: True for f in FLAGS}, "Faint", sum(bit[e_] for e_ in FLAGS.values()) | bit["DIMMED"]))
        for flags, inten, want in cases:
            got = effects_of(flags, inten)
            rows += 1
            if got != want:
                bad.append(f"flags {sorted(k for k, v in flags.items() if v)} intensity {inten}: effects {got:#x}, expected {want:#x}")
    except Unrecognised as ex:
        bad.append(f"not evaluable: {ex}")
    rep.count(rows)
    rep.check(not bad and rows >= 17, "tables", c["path"], "8-effect-rows",
              f"italic/blink/reversed/hidden/strikethrough/underline and Bold/Faint intensity each set exactly their effect ({rows} cases evaluated) {bad[:2]}", loc(c))
    for fn, var in (("is_bold", "Bold"), ("is_faint", "Faint")):
        # the two intensity predicates, where they exist as functions, by evaluation on the four possible arguments; the effect rows
        # above decide the same mapping end to end, so a version without these helpers loses nothing
        fs = [x for x in facts.bodies("anstyle_roff") if x["path"] == R + "styled_str::" + fn]
        if not fs:
            rep.ok("tables", R + "styled_str::" + fn, f"Some({var})", "no such helper in this tree: the intensity mapping is decided in 8-effect-rows", "")
            continue
        f = fs[0]
        got = {}
        for arg, name in ((("none",), "None"), (("some", ("enum", INT + "Normal")), "Normal"), (("some", ("enum", INT + "Bold")), "Bold"),
                          (("some", ("enum", INT + "Faint")), "Faint")):
            try:
                got[name] = abseval.Evaluator(facts, "anstyle_roff", {}).call_fn("anstyle_roff", f["path"], [arg])
            except Unrecognised as ex:
                got[name] = ("not-evaluable", str(ex)[:60])
        ok = all(got[n_] == ("bool", n_ == var) for n_ in got)
        rep.check(ok, "tables", f["path"], f"Some({var})", f"{got}", loc(f))
    # StyledStr::from
    s = facts.body("anstyle_roff", "<anstyle_roff::styled_str::StyledStr<'text> as core::convert::From<cansi::v3::CategorisedSlice<'text>>>::from")
    rep.fn(s["path"])
    cat = {f: ("sym", f) for f in ("text", "start", "end", "fg", "bg", "intensity", "italic", "underline", "blink", "reversed", "hidden", "strikethrough")}
    ev = abseval.Evaluator(facts, "anstyle_roff", {R + "styled_str::cansi_to_anstyle_color": lambda a_: ("converted", a_[0]),
                                                   R + "styled_str::create_effects": lambda a_: ("effects-of", a_[0])}, inline_crates=("anstyle",))
    ok, why = True, ""
    try:
        # whatever the slice's attributes are (all absent / all on / all off), the colours and the text go through unchanged
        for flagv, inten in ((("none",), ("none",)), (("some", ("bool", True)), ("some", ("enum", INT + "Bold"))),
                             (("some", ("bool", False)), ("some", ("enum", INT + "Faint")))):
            cat2 = dict(cat, intensity=inten, **{f: flagv for f in FLAGS})
            r = ev.call_fn("anstyle_roff", s["path"], [("rec", dict(cat2))])
            st_ = r[1].get("style") if r[0] == "rec" else None
            good = r[0] == "rec" and set(r[1]) == {"text", "style"} and r[1]["text"] == ("sym", "text") and st_ and st_[0] == "rec" \
                and st_[1].get("fg") == ("converted", ("sym", "fg")) and st_[1].get("bg") == ("converted", ("sym", "bg")) \
                and st_[1].get("underline") == ("none",) and st_[1].get("effects") == ("effects-of", ("rec", cat2))
            if not good:
                ok, why = False, f"with attributes {flagv}: evaluates to {str(r)[:200]}"
    except Unrecognised as ex:
        ok, why = False, f"not evaluable: {ex}"
    rep.check(ok, "tables", s["path"], "text/fg/bg-from-like-named-fields",
              f"the segment keeps the slice's text, its colours are the converted fg / bg of the slice (no underline colour) and its effects are create_effects(slice) {why}", loc(s))
    # is_bright, ansi_color_to_roff
    ib = facts.body("anstyle_roff", R + "is_bright")
    rep.fn(ib["path"])
    # truth table of is_bright over the colour kinds by abstract evaluation: true exactly for the eight bright 4-bit colours
    import abseval
    got = set()
    other_true = []
    for kind, args in [("Ansi", ("enum", "anstyle::color::AnsiColor::" + n)) for n in sgr.ANSI16] + [("Ansi256", ("sym", "i")), ("Rgb", ("sym", "rgb"))]:
        ev = abseval.Evaluator(facts, "anstyle_roff", {}, inline_crates=("anstyle",))
        env = abseval.Env()
        env[ib["params"][0]["name"]] = ("ctor", "anstyle::color::Color::" + kind, args)
        try:
            try:
                r = ev.ev(ib["hir"], env)
            except abseval.Return as rt:
                r = rt.v
        except Unrecognised as ex:
            raise Unrecognised(f"is_bright: {ex}")
        if r == ("bool", True):
            if kind == "Ansi":
                got.add(args[1].split("::")[-1])
            else:
                other_true.append(kind)
    rep.check(not other_true and got == {n for n in sgr.ANSI16 if n.startswith("Bright")}, "tables", ib["path"], "eight-bright-variants", f"{sorted(got)} {other_true}", loc(ib))
    ar = facts.body("anstyle_roff", R + "ansi_color_to_roff")
    rep.fn(ar["path"])
    # by evaluation on each of the 16 variants: a match, a const table indexed by the palette index, a helper are one function
    t = {}
    for n in sgr.ANSI16:
        try:
            ev = abseval.Evaluator(facts, "anstyle_roff", {}, inline_crates=("anstyle",))
            r = ev.call_fn("anstyle_roff", ar["path"], [("enum", "anstyle::color::AnsiColor::" + n)])
            t[n] = r[1] if r[0] == "str" else str(r)[:60]
        except Unrecognised as ex:
            t[n] = f"not evaluable: {ex}"[:80]
    want = {n: (n[len("Bright"):] if n.startswith("Bright") else n).lower() for n in sgr.ANSI16}
    rep.check(t == want, "tables", ar["path"], "hue-names", f"{ {k: v for k, v in t.items() if want.get(k) != v} }", loc(ar))
    rep.count(16)
    hb = facts.body("anstyle_roff", R + "has_bright_fg")
    ok = True
    why = []
    bit = {n_: v for n_, v, _ in ac.effect_consts(facts)}
    fgs = [(("none",), False), (("some", ("ctor", "anstyle::color::Color::Rgb", ("ctor", "anstyle::color::RgbColor", ("int", 255), ("int", 0), ("int", 0)))), False),
           (("some", ("ctor", "anstyle::color::Color::Ansi256", ("ctor", "anstyle::color::Ansi256Color", ("int", 9)))), False)]
    fgs += [(("some", ("ctor", "anstyle::color::Color::Ansi", ("enum", "anstyle::color::AnsiColor::" + n_))), n_.startswith("Bright")) for n_ in sgr.ANSI16]
    # the whole style is given (anstyle's getters are followed into their bodies): the answer depends on the foreground alone, whatever
    # the effects and the other colours are
    for fgv, want in fgs:
        for eff in (0, bit["DIMMED"], bit["BOLD"] | bit["ITALIC"], 4095):
            for bgv in (("none",), ("some", ("ctor", "anstyle::color::Color::Ansi", ("enum", "anstyle::color::AnsiColor::BrightRed")))):
                style = ("rec", {"fg": fgv, "bg": bgv, "underline": ("none",), "effects": ("ctor", "anstyle::effect::Effects", ("int", eff))})
                try:
                    r = abseval.Evaluator(facts, "anstyle_roff", {}, inline_crates=("anstyle",)).call_fn("anstyle_roff", hb["path"], [style])
                except Unrecognised as ex:
                    r = ("not-evaluable", str(ex)[:80])
                rep.count()
                if r != ("bool", want):
                    ok = False
                    why.append(f"fg={str(fgv)[-40:]} effects={eff:#x}: {r}")
    rep.check(ok, "tables", hb["path"], "bright-foreground-test", f"true exactly for a bright 4-bit foreground: {why[:2]}", loc(hb))


_SEG_CACHE = {}


def segment_runs(facts):
    """What to_roff's loop body does to the document for one segment, by abstract evaluation of the body on segment values: the
    text a symbol, the foreground each of the 16 colours / a 256-colour / an RGB value / unset, the background set or unset, the
    effects one of seven sets.  Document calls are recorded (Roff::control, Roff::text, and add_color_to_roff as a whole: what it
    asks of the document per colour kind is decided in rule colours); everything else of the crate and of anstyle is evaluated,
    so where the statements live (helpers, destructured segment, parameters) does not matter.
    -> [(fg value, bright?, bg value, effect names, log)]"""
    key = id(facts)
    if key in _SEG_CACHE:
        return _SEG_CACHE[key]
    import abseval
    import itertools
    t = facts.body("anstyle_roff", R + "to_roff")
    loops = [l for l in (hir.for_loop(n) for n in hir.walk(t["hir"]) if n.get("k") == "match" and n.get("src") == "ForLoopDesugar") if l]
    if len(loops) != 1:
        raise Unrecognised(f"to_roff has {len(loops)} loops")
    pat, it, body = loops[0]
    docs = [x["pat"]["name"] for x in hir.stmts_of(t["hir"]) if x.get("k") == "let" and x["pat"].get("k") == "pbind" and
            hir.is_call(hir.simp(x.get("init", {})), "roff::Roff::new")]
    if len(docs) != 1:
        raise Unrecognised("to_roff does not build exactly one document")
    CO = "anstyle::color::Color::"
    bit = {n_: v for n_, v, _ in ac.effect_consts(facts)}
    fgs = [(("none",), False)] + [(("some", ("ctor", CO + "Ansi", ("enum", ac.ANSI + "::" + n))), n.startswith("Bright")) for n in sgr.ANSI16] + \
          [(("some", ("ctor", CO + "Ansi256", ("sym", "X"))), False), (("some", ("ctor", CO + "Rgb", ("sym", "RGB"))), False)]
    bgs = [("none",), ("some", ("sym", "BG"))]
    effs = [(), ("BOLD",), ("ITALIC",), ("BOLD", "ITALIC"), ("UNDERLINE", "DIMMED"), ("ITALIC", "STRIKETHROUGH"), tuple(sgr.EFFECT_ORDER)]

    def elems(v):
        if isinstance(v, tuple) and v and v[0] == "array":
            return list(v[1:])
        if isinstance(v, tuple):
            for x in v[1:]:
                r_ = elems(x)
                if r_ is not None:
                    return r_
        return None
    out = []
    for (fg, bright), bg, eff in itertools.product(fgs, bgs, effs):
        log = []
        atoms = {"roff::Roff::control": lambda a_, log=log: (log.append(("control", a_[1], elems(a_[2]))), a_[0])[1],
                 "roff::Roff::text": lambda a_, log=log: (log.append(("text", elems(a_[1]))), a_[0])[1],
                 R + "add_color_to_roff": lambda a_, log=log: (log.append(("colour", a_[1], a_[2])), ("unit",))[1],
                 "*": lambda cal, a_, e_: ("app", cal) + tuple(a_)}
        ev = abseval.Evaluator(facts, "anstyle_roff", atoms, inline_crates=("anstyle_roff", "anstyle"))
        bits = 0
        for n in eff:
            bits |= bit[n]
        style = ("rec", {"fg": fg, "bg": bg, "underline": ("none",), "effects": ("ctor", "anstyle::effect::Effects", ("int", bits))})
        env = abseval.Env()
        env[docs[0]] = ("sym", "doc")
        if not ev.bind(pat, ("rec", {"text": ("sym", "TEXT"), "style": style}), env):
            raise Unrecognised("the loop pattern does not bind a segment")
        try:
            ev.ev(body, env)
        except (abseval.Return, abseval.Break, abseval.Continue):
            log.append(("early-exit",))
        out.append((fg, bright, bg, eff, log))
    _SEG_CACHE[key] = out
    return out


def rule_font(facts, rep):
    b = facts.body("anstyle_roff", R + "to_roff")
    rep.fn(b["path"])
    try:
        h = facts.body("anstyle_roff", R + "set_effects_and_text")
        rep.fn(h["path"])
    except AnchorMissing:
        h = b
    runs = segment_runs(facts)
    # the font decision, case by case (BOLD set? bright foreground? ITALIC set?): the segment's text is written exactly once, wrapped
    # in exactly one of roff::bold / italic / roman, and it is bold if BOLD or bright-fg, else italic if ITALIC, else roman
    T = ("sym", "TEXT")

    def font_of(log):
        texts = [ev_ for ev_ in log if ev_[0] == "text"]
        if len(texts) != 1 or texts[0][1] is None or len(texts[0][1]) != 1:
            return f"{len(texts)} text writes"
        v = texts[0][1][0]
        if v[0] == "app" and v[1] in ("roff::bold", "roff::italic", "roff::roman") and list(v[2:]) == [T]:
            return v[1].split("::")[-1]
        return f"text written as {str(v)[:60]}"
    rep.check(len(runs) >= 200, "font", h["path"], "effects-of-the-segment", f"{len(runs)} segment values evaluated", loc(h))
    want_rows = [("BOLD|bright-fg", "bold", lambda bold, bright, italic: bold or bright), ("ITALIC", "italic", lambda bold, bright, italic: not (bold or bright) and italic),
                 ("else", "roman", lambda bold, bright, italic: not (bold or bright or italic))]
    for i, (label, font, pred) in enumerate(want_rows):
        bad = [(str(fg)[:50], eff, font_of(log)) for fg, bright, bg, eff, log in runs if pred("BOLD" in eff, bright, "ITALIC" in eff) and font_of(log) != font]
        rep.check(not bad, "font", h["path"], f"{i}:{label}→{font}",
                  f"(foreground, effects) cases where the text is not written exactly once in {font}: {bad[:2]}"[:400], loc(h))
    rep.count(len(runs))


def rule_colours(facts, rep):
    for path, val in ((R + "control_requests::FOREGROUND", "gcolor"), (R + "control_requests::BACKGROUND", "fcolor"), (R + "control_requests::CREATE_COLOR", "defcolor")):
        b = facts.body("anstyle_roff", path)
        rep.check(hir.lit_val(ac.single_expr(b["hir"])) == val, "colours", path, f"='{val}'", "", loc(b))
    t = facts.body("anstyle_roff", R + "to_roff")
    rep.fn(t["path"])
    loops = [l for l in (hir.for_loop(n) for n in hir.walk(t["hir"]) if n.get("k") == "match" and n.get("src") == "ForLoopDesugar") if l]
    ok = len(loops) == 1 and hir.is_call(hir.simp(loops[0][1]), R + "styled_str::styled_stream") and hir.is_local(hir.simp(loops[0][1])["args"][0], "styled_text")
    rep.check(ok, "colours", t["path"], "segments-from-styled_stream(text)", "", loc(t))
    # per segment, in order: colour request for the foreground (gcolor), for the background (fcolor), then the text — by evaluation
    # of the loop body on segment values (segment_runs): the helper set_color, its two calls written out, a destructured segment
    # are all the same
    bad = []
    if ok:
        for fg, bright, bg, eff, log in segment_runs(facts):
            kinds = [ev_[0] for ev_ in log]
            cols = [ev_ for ev_ in log if ev_[0] == "colour"]
            if kinds != ["colour", "colour", "text"] or cols[0][1:] != (("str", "gcolor"), fg) or cols[1][1:] != (("str", "fcolor"), bg):
                bad.append(f"fg {str(fg)[:40]}, bg {str(bg)[:30]}, effects {eff}: {str(log)[:200]}")
    ok = ok and not bad
    rep.check(ok, "colours", t["path"], "per-segment:colours(fg,bg)-then-text", f"{bad[:2]}"[:400], loc(t))
    rep.check(ok, "colours", R + "set_color", "gcolor←fg-then-fcolor←bg", f"{bad[:2]}"[:400], loc(t))
    a = facts.body("anstyle_roff", R + "add_color_to_roff")
    rep.fn(a["path"])
    # by abstract evaluation on each kind of colour (symbolic payload): the requests made of the document, in order — a match on
    # `&Option<Color>`, a let-else for the unset colour and a match on the colour, early returns: the same function
    import abseval
    CO = "anstyle::color::Color::"

    def requests(color):
        log = []

        def elems(t):
            if isinstance(t, tuple) and t and t[0] == "array":
                return list(t[1:])
            if isinstance(t, tuple):
                for x in t[1:]:
                    r_ = elems(x)
                    if r_ is not None:
                        return r_
            return None
        atoms = {"roff::Roff::control": lambda a_: (log.append(("control", a_[1], elems(a_[2]))), a_[0])[1],
                 R + "add_color_to_roff": lambda a_: (log.append(("again",) + tuple(a_)), ("unit",))[1],
                 R + "rgb_name": lambda a_: ("name", a_[0]), R + "to_hex": lambda a_: ("hex", a_[0]),
                 R + "ansi_color_to_roff": lambda a_: ("hue", a_[0]), R + "xterm_to_ansi_or_rgb": lambda a_: ("reduced", a_[0]),
                 "alloc::string::String::as_str": lambda a_: a_[0], "*": lambda cal, a_, e_: ("app", cal) + tuple(a_)}
        try:
            abseval.Evaluator(facts, "anstyle_roff", atoms).call_fn("anstyle_roff", a["path"], [("sym", "doc"), ("sym", "request"), color])
        except Unrecognised as ex:
            return [("not-evaluable", str(ex)[:80])]
        return log
    c_ = ("sym", "c")
    REQ = ("sym", "request")
    for key, color, want_log in (
            ("None→'default'", ("none",), [("control", REQ, [("str", "default")])]),
            ("Ansi→hue-name", ("some", ("ctor", CO + "Ansi", c_)), [("control", REQ, [("hue", c_)])]),
            ("Rgb→defcolor-name-rgb-hex-then-request(name)", ("some", ("ctor", CO + "Rgb", c_)),
             [("control", ("str", "defcolor"), [("name", c_), ("str", "rgb"), ("hex", c_)]), ("control", REQ, [("name", c_)])]),
            ("Ansi256→reduced-then-same-request", ("some", ("ctor", CO + "Ansi256", c_)),
             [("again", ("sym", "doc"), REQ, ("some", ("reduced", c_)))])):
        got = requests(color)
        rep.check(got == want_log, "colours", a["path"], key, f"requests made: {str(got)[:200]}", loc(a))
    h = facts.body("anstyle_roff", R + "to_hex")
    rep.fn(h["path"])
    import poly
    lets = {}
    for x in hir.walk(h["hir"]):
        if x.get("k") == "let" and x["pat"].get("k") == "pbind" and "init" in x and not hir.is_fmt_block(x):
            lets[(x["pat"]["name"], x["pat"].get("id"))] = x["init"]
    pname = h["params"][0].get("name")

    def chan(e):
        e = hir.simp(e)
        if e.get("k") == "field" and e["name"] in ("0", "1", "2") and hir.is_local(e["e"], pname):
            return "c" + e["name"]
        if e.get("k") == "call" and hir.callee(e) in ("anstyle::color::RgbColor::r", "anstyle::color::RgbColor::g", "anstyle::color::RgbColor::b") and hir.is_local(e["args"][0], pname):
            return "c" + str("rgb".index(hir.callee(e)[-1]))
        return None
    fm = hir.fmt_blocks(h["hir"])
    okf = False
    got = {}
    if len(fm) == 1:
        pieces, args = hir.fmt_template(fm[0])
        okf = pieces[0] == "#" and len(pieces) == 2 and pieces[1][2] == "new_lower_hex" and pieces[1][3].get("width") == 6 and pieces[1][3].get("zero_pad")
        if okf:
            got = poly.poly(hir.peel(args[pieces[1][1]]), resolve=chan, lets={k: v for k, v in lets.items() if k[0] != "args"})
    want = {("c0",): 65536, ("c1",): 256, ("c2",): 1}
    rep.check(okf and got == want, "colours", h["path"], "#rrggbb=(r<<16)+(g<<8)+b", f"value formatted as #{{:06x}}: {poly.show(got)}", loc(h))


def rule_taint(facts, rep):
    # the segment's text is only ever the argument of roff::bold / italic / roman: in the evaluated loop body (segment_runs) the
    # symbol standing for the text occurs once in the log, as the sole argument of one of the three inline constructors
    def occurrences(v):
        if v == ("sym", "TEXT"):
            return 1
        if isinstance(v, (tuple, list)):
            return sum(occurrences(x) for x in v)
        if isinstance(v, dict):
            return sum(occurrences(x) for x in v.values())
        return 0
    runs = segment_runs(facts)
    bad = []
    for fg, bright, bg, eff, log in runs:
        wrapped = [x for ev_ in log if ev_[0] == "text" and ev_[1] for x in ev_[1]
                   if x[0] == "app" and x[1] in ("roff::bold", "roff::italic", "roff::roman") and list(x[2:]) == [("sym", "TEXT")]]
        if occurrences(log) != 1 or len(wrapped) != 1:
            bad.append(str(log)[:160])
    rep.check(not bad and len(runs) >= 200, "taint", R + "set_effects_and_text", "text-only-into-bold/italic/roman",
              f"{len(runs)} segment values; {bad[:1]}"[:400], "")
    # Roff::control never receives data derived from the text: its arguments are literals, consts, hue names and hex strings
    bad = []
    n_ctrl = 0
    for b in facts.bodies("anstyle_roff"):
        if "hir" not in b or b.get("expn"):
            continue
        for n in hir.walk(b["hir"]):
            if hir.is_call(n, "roff::Roff::control"):
                n_ctrl += 1
                for x in hir.walk(n["args"][2]):
                    if x.get("k") == "field" and x["name"] == "text":
                        bad.append(hirpp.expr(x))
                    if x.get("k") == "local" and ("StyledStr" in str(x.get("ty", "")) or x["name"] in ("styled", "styled_text", "text")):
                        bad.append(hirpp.expr(x))
    rep.check(not bad and n_ctrl == 4, "taint", R + "add_color_to_roff", "control-requests-carry-no-text", f"{bad}; {n_ctrl} control sites", "")
    # the only other consumers of the raw input: categorise_text_v3
    s = facts.body("anstyle_roff", R + "styled_str::styled_stream")
    calls = [hir.callee(n) for n in hir.walk(s["hir"]) if n.get("k") == "call" and any(hir.is_local(a, "text") for a in n["args"])]
    rep.check(calls == ["cansi::categorise::categorise_text_v3"], "taint", s["path"], "input-goes-to-cansi-only", f"{calls}", loc(s))
    rn = facts.body("anstyle_roff", R + "rgb_name")
    fm = hir.fmt_blocks(rn["hir"])
    ok = False
    if len(fm) == 1:
        pieces, args = hir.fmt_template(fm[0])
        ok = pieces[0] == "hex_" and len(pieces) == 2
    rep.check(ok, "taint", rn["path"], "colour-name-is-hex_+digits", "", loc(rn))


def rule_segments(facts, rep):
    """Text is preserved: every slice cansi yields becomes a segment, and every segment gets its colour requests and its text,
    in order, unconditionally."""
    s = facts.body("anstyle_roff", R + "styled_str::styled_stream")
    rep.fn(s["path"])
    st = hir.stmts_of(s["hir"])
    tail = hir.simp(st[-1]) if st else {}
    lets = {x["pat"]["name"]: hir.simp(x["init"]) for x in st if x.get("k") == "let" and x["pat"].get("k") == "pbind" and "init" in x}
    chain = []
    e = tail
    while e.get("k") == "call" and e["args"]:
        chain.append(hir.callee_decl(e) or hir.callee(e))
        e = hir.simp(e["args"][0])
        if e.get("k") == "local" and e["name"] in lets:
            e = lets[e["name"]]
    want = ["core::iter::traits::iterator::Iterator::map", "core::iter::traits::collect::IntoIterator::into_iter", "cansi::categorise::categorise_text_v3"]
    got = [c for c in chain]
    ok = len(got) == 3 and got[0] == want[0] and got[1].endswith("IntoIterator::into_iter") and got[2] == want[2]
    rep.check(ok, "segments", s["path"], "every-slice-is-mapped",
              f"styled_stream = categorise_text(text).into_iter().map(into): an adaptor that drops, merges or reorders slices loses text; chain {got}", loc(s))
    clo = [n for n in hir.walk(s["hir"]) if n.get("k") == "closure"]
    okc = len(clo) == 1
    if okc:
        body = hir.simp(clo[0]["body"])
        okc = body.get("k") == "call" and hir.callee_decl(body).endswith(("Into::into", "From::from")) and hir.is_local(body["args"][0], clo[0]["params"][0].get("name"))
    elif not clo:
        # the conversion passed by name: `.map(StyledStr::from)`
        maps = [n for n in hir.walk(s["hir"]) if hir.is_call(n, "Iterator::map") and len(n["args"]) == 2]
        fv = hir.simp(maps[0]["args"][1]) if len(maps) == 1 else {}
        okc = fv.get("k") == "def" and str(fv.get("path", "")).endswith(("From::from", "Into::into", "::from")) and "StyledStr" in str(fv.get("path", "")) + str(fv.get("ty", ""))
    rep.check(okc, "segments", s["path"], "map-is-the-From-conversion", "the closure is `|x| x.into()` (or the conversion itself, by name)", loc(s))
    b = facts.body("anstyle_roff", R + "to_roff")
    rep.fn(b["path"])
    loops = [l for l in (hir.for_loop(n) for n in hir.walk(b["hir"]) if n.get("k") == "match" and n.get("src") == "ForLoopDesugar") if l]
    ok = len(loops) == 1 and hir.is_call(loops[0][1], R + "styled_str::styled_stream") and hir.is_local(loops[0][1]["args"][0], b["params"][0].get("name"))
    rep.check(ok, "segments", b["path"], "loops-over-styled_stream(input)", "", loc(b))
    if ok:
        pat, it, body = loops[0]
        calls = [hir.callee(x) for x in hir.walk(body) if x.get("k") == "call" and hir.callee(x).startswith(R) and hir.callee(x).split("::")[-1] in
                 ("set_color", "add_color_to_roff", "set_effects_and_text")]
        names = calls
        exits = [n for n in hir.walk(body) if n.get("k") in ("break", "continue", "ret", "if", "match")]
        good = names in ([R + "set_color", R + "set_effects_and_text"], [R + "add_color_to_roff", R + "add_color_to_roff", R + "set_effects_and_text"])
        rep.check(good and not exits, "segments", b["path"], "colour-requests-then-text-for-every-segment",
                  f"loop body must be set_color(..); set_effects_and_text(..) with no condition or early exit; found {names}, {len(exits)} branches", loc(b))
