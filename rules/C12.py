"""C12 — the LS_COLORS parser applies SGR codes left to right (structural part)."""
import hir
import hirpp
from core import AnchorMissing, Unrecognised, loc
from rules import anstyle_common as ac
from spec import sgr

META = {
    "explanation": (
        "Static reading of anstyle_ls::parse: the whole code table (one arm per literal code -> assignments to one of the four "
        "locals effects / fg_color / bg_color / underline_color) is compared with the SGR specification: effects 1-9 (5 and 6 "
        "both blink), resets 22-29 (22 clears bold and dim), 30-37 / 40-47 / 90-97 / 100-107 with the right slot and hue, 39 / 49 / "
        "59, 0 resets all four locals, the default arm is empty; the three extended-colour arms pop (5, n) / (2, r) + (g, b) in "
        "that order into the slot selected by 38 / 48 / 58 and construct RgbColor(r, g, b) in pop order; the final Style is built "
        "from the four locals with the matching setters; the early None for \"\", \"0\", \"00\"; the all-or-nothing split on ';' "
        "through u8::from_str collected into Option. Does NOT decide u8::from_str's accepted syntax nor the behaviour on "
        "truncated extended colours beyond 'stops without panic'."),
    "exhaustive": True,
}

MANIFEST = {
    "level": ("Sound static decision of the code table and of the wiring around it for every input string: the parser is a "
              "queue-driven match over literal codes, so 'applies the codes in order' reduces to each arm's update being the SGR "
              "meaning of its code, which is a finite table comparison."),
    "note": ("Trusted: rustc front end; spec/sgr.py; std's split/parse/collect::<Option<_>>/VecDeque::pop_front. Not decided: what "
             "u8::from_str accepts (e.g. '+1'); truncated extended colours."),
    "technique": "static analysis: abstract evaluation of parse on every code 0..=255 from two base styles, the extended-colour forms, rejects and zero-padded codes, compared with the SGR table; pop-order dataflow of the extended-colour arms; no-style inputs, all-or-nothing numeric split and slot wiring by evaluation on closed sets of descriptions",
}

F = "anstyle_ls::parse"
LOCALS = {"fg": "fg_color", "bg": "bg_color", "underline": "underline_color"}


def effect_const(e):
    p = hir.def_path(e)
    if p and p.startswith("anstyle::effect::Effects::"):
        return p.split("::")[-1]
    return None


def arm_update(body):
    """→ list of ('on', X) | ('off', X) | (slot, colour) | ('reset-all',) ; raises on anything else."""
    ops = []
    lets = {}
    for s in hir.stmts_of(body):
        s = hir.simp(s)
        if s.get("k") == "tuple" and not s["es"]:
            continue
        if s.get("k") == "let" and s["pat"].get("k") == "pbind" and "init" in s and "els" not in s:
            lets[s["pat"].get("id")] = s["init"]     # a temporary for the value stored below
            continue
        if s.get("k") == "assignop" and s["op"] in ("BitOrAssign", "SubAssign") and hir.is_local(s["l"], "effects"):
            keep, one = ac.effects_masks(s["r"], None)
            if keep:
                raise Unrecognised("effects op= <not a constant>")
            ops += [("on" if s["op"] == "BitOrAssign" else "off", n) for n in ac.mask_names(one)]
        elif s.get("k") == "assign" and hir.simp(s["l"]).get("k") == "local":
            name = hir.simp(s["l"])["name"]
            r = hir.simp(s["r"])
            if name == "effects":
                # the new value as a per-bit function of the old one: kept / switched on / switched off
                keep, one = ac.effects_masks(r, "effects")
                if keep == 0 and one == 0:
                    ops.append(("effects-default",))
                    continue
                ops += [("on", n) for n in ac.mask_names(one)]
                ops += [("off", n) for n in ac.mask_names(ac.FULL & ~keep & ~one)]
            elif name in LOCALS.values():
                slot = [k for k, v in LOCALS.items() if v == name][0]
                ops.append((slot, colour_of(r, lets)))
            else:
                raise Unrecognised(f"assignment to {name}")
        else:
            raise Unrecognised(f"statement in a code arm: {hirpp.expr(s)[:60]}")
    return ops


def colour_of(r, lets=None):
    lets = lets or {}

    def res(x):
        x = hir.simp(x)
        n = 0
        while isinstance(x, dict) and x.get("k") == "local" and x.get("id") in lets and n < 5:
            x = hir.simp(lets[x["id"]])
            n += 1
        return x
    r = res(r)
    if hir.is_def(r, "Option::None"):
        return ("none",)
    if hir.is_call(r, "Default::default"):
        return ("none",)       # Option::<Color>::default() is None
    if r.get("ctor", "").endswith("Option::Some"):
        x = res(r["args"][0])
        if hir.is_call(x, "Into<U>>::into") and x.get("ty") == "anstyle::color::Color":
            v = hir.simp(x["args"][0])
            p = hir.def_path(v)
            if p and p.startswith("anstyle::color::AnsiColor::"):
                return ("ansi", p.split("::")[-1])
            if v.get("ctor") == "anstyle::color::Ansi256Color":
                return ("ansi256", hir.local_name(v["args"][0]))
            if v.get("ctor") == "anstyle::color::RgbColor":
                return ("rgb", tuple(hir.local_name(a) for a in v["args"]))
    raise Unrecognised(f"colour value {hirpp.expr(r)[:60]}")


def run(ctx):
    rep, facts = ctx.report, ctx.facts
    rep.guarded("codes", F, lambda: rule_codes(facts, rep))
    rep.guarded("extended", F, lambda: rule_extended(facts, rep))
    rep.guarded("wiring", F, lambda: rule_wiring(facts, rep))
    rep.guarded("lists", F, lambda: rule_lists(facts, rep, ctx.tier))
    for r, n in (("codes", 56), ("extended", 12), ("wiring", 8), ("lists", 1)):
        rep.floor(r, n)


def is_pop(e, queue=None):
    """Taking the next code off the front of the queue: VecDeque::pop_front(&mut q) or Iterator::next(&mut q) on the owning
    iterator of the collected codes."""
    e = hir.simp(e)
    if not (hir.is_call(e, "pop_front") or hir.callee_decl(e) == "core::iter::traits::iterator::Iterator::next"):
        return False
    q = hir.peel(e["args"][0])
    return q.get("k") == "local" and (queue is None or q["name"] == queue)


def queue_name(b):
    wl = [hir.while_loop(n) for n in hir.walk(b["hir"]) if n.get("k") == "loop" and n.get("src") == "While"]
    c = hir.simp(wl[0][0]) if len(wl) == 1 else {}
    if c.get("k") == "letexpr" and is_pop(c["init"]):
        return hir.peel(hir.simp(c["init"])["args"][0])["name"]
    return None


def code_match(b):
    wl = [hir.while_loop(n) for n in hir.walk(b["hir"]) if n.get("k") == "loop" and n.get("src") == "While"]
    if len(wl) != 1:
        raise AnchorMissing("parse: one while-let loop expected")
    cond, body = wl[0]
    c = hir.simp(cond)
    if not (c.get("k") == "letexpr" and is_pop(c["init"])):
        raise Unrecognised("loop condition is not `let Some(part) = <queue>.pop_front()` (or .next() on its owning iterator)")
    part = c["pat"]["pats"][0].get("name")
    ms = [n for n in hir.walk(body) if n.get("k") == "match" and hir.is_local(n["scrut"], part)]
    if len(ms) != 1:
        raise AnchorMissing("parse: match on the popped code")
    return ms[0]


def observed(facts, text):
    """anstyle_ls::parse(text) by abstract evaluation with concrete strings: None, or (fg, bg, underline, effect bits)."""
    import abseval
    ev = abseval.Evaluator(facts, "anstyle_ls", {}, inline_crates=("anstyle",))
    ev.concrete_strings = True
    r = ev.call_fn("anstyle_ls", F, [("str", text)])

    def colour(v):
        if v == ("none",):
            return None
        c = v[1]
        if c[0] == "ctor" and c[1].endswith("Color::Ansi"):
            return ("ansi", c[2][1].split("::")[-1])
        if c[0] == "ctor" and c[1].endswith("Color::Ansi256"):
            return ("idx", c[2][2][1])
        if c[0] == "ctor" and c[1].endswith("Color::Rgb"):
            return ("rgb",) + tuple(x[1] for x in c[2][2:])
        raise Unrecognised(f"colour value {str(c)[:60]}")
    if r == ("none",):
        return None
    if r[0] == "some" and r[1][0] == "rec":
        st = r[1][1]
        return (colour(st["fg"]), colour(st["bg"]), colour(st["underline"]), st["effects"][2][1])
    raise Unrecognised(f"parse evaluates to {str(r)[:80]}")


def rule_codes(facts, rep):
    """Every code 0..=255 is applied to a style in which its effect is visible, and the result compared with the SGR table: by
    evaluation of `parse` on the description, so a match of literals, range arms with arithmetic, a helper, a lookup table are
    one function."""
    b = facts.body("anstyle_ls", F)
    rep.fn(b["path"])
    bit = {n_: v for n_, v, _ in ac.effect_consts(facts)}
    on_codes = [c for c in range(1, 10)]
    ALLON = ";".join(str(c) for c in on_codes)
    all_bits = 0
    for c in on_codes:
        all_bits |= bit[sgr.EFFECT_ON[c]]
    PRE = "1;31;42;58;5;9"                     # bold, red on green, underline colour 9
    pre_state = (("ansi", "Red"), ("ansi", "Green"), ("idx", 9), bit["BOLD"])

    def run(text):
        try:
            return observed(facts, text)
        except Unrecognised as ex:
            return ("not-evaluable", str(ex)[:80])
    rep.check(run(PRE) == pre_state and run(ALLON) == (None, None, None, all_bits), "codes", b["path"], "baseline",
              f"the two reference descriptions evaluate as expected: {run(PRE)} / {run(ALLON)}", loc(b))
    for code in range(0, 256):
        if code in (38, 48, 58):
            continue
        got = run(f"{PRE};{code}")
        fg, bg, ul, eff = pre_state
        want, why, tolerated = None, "", []
        if code == 0:
            want, why = (None, None, None, 0), "0 resets effects and all three colours"
        elif code in range(1, 10):
            want, why = (fg, bg, ul, eff | bit[sgr.EFFECT_ON[code]]), f"{code} switches {sgr.EFFECT_ON[code]} on"
        elif code in sgr.EFFECT_OFF:
            got = run(f"{ALLON};{code}")
            required = 0
            for e_ in sgr.EFFECT_OFF[code]:
                if bit[e_] & all_bits:
                    required |= bit[e_]
            want, why = (None, None, None, all_bits & ~required), f"{code} switches off {sorted(sgr.EFFECT_OFF[code])}"
        elif sgr.colour_code(code):
            slot, name = sgr.colour_code(code)
            want = (("ansi", name) if slot == "fg" else fg, ("ansi", name) if slot == "bg" else bg, ul, eff)
            why = f"{code} sets the {slot} colour {name}"
        elif code in (39, 49, 59):
            want = (None if code == 39 else fg, None if code == 49 else bg, None if code == 59 else ul, eff)
            why = f"{code} resets that colour only"
        else:
            want, why = pre_state, f"{code} is not in the property's list: ignored"
            if code in sgr.EFFECT_ON:
                tolerated = [(fg, bg, ul, eff | bit[sgr.EFFECT_ON[code]])]      # following SGR (21 = double underline) is fine too
            # ... and ignored whatever the style is: also from the state with every effect on
            full = run(f"{ALLON};31;42;58;5;9;{code}")
            full_want = (fg, bg, ul, all_bits)
            if full != full_want and not (code in sgr.EFFECT_ON and full == (fg, bg, ul, all_bits | bit[sgr.EFFECT_ON[code]])):
                got, want = full, full_want
        ok = got == want or got in tolerated
        if code in range(0, 10) or code in sgr.EFFECT_OFF or sgr.colour_code(code) or code in (39, 49, 59) or not ok:
            rep.check(ok, "codes", b["path"], f"{code}", f"{why}; evaluated: {got}", loc(b))
        rep.count()
    unknown_ok = all((run(f"{PRE};{c}") == pre_state and run(f"{ALLON};31;42;58;5;9;{c}") == (("ansi", "Red"), ("ansi", "Green"), ("idx", 9), all_bits))
                     or c in sgr.EFFECT_ON for c in range(0, 256)
                     if c not in (0, 38, 48, 58, 39, 49, 59) and c not in range(1, 10) and c not in sgr.EFFECT_OFF and not sgr.colour_code(c))
    rep.check(unknown_ok, "codes", b["path"], "unknown-codes-ignored", "every code outside the property's list leaves the style as it was", loc(b))
    for code in (38, 48, 58):
        slot = {38: 0, 48: 1, 58: 2}[code]
        bad = []
        for text, val, eff_extra in ((f"{code};5;200;3", ("idx", 200), bit["ITALIC"]), (f"{code};5;0", ("idx", 0), 0), (f"{code};5;255", ("idx", 255), 0),
                                     (f"{code};2;1;2;3;3", ("rgb", 1, 2, 3), bit["ITALIC"]), (f"{code};2;255;0;128", ("rgb", 255, 0, 128), 0),
                                     (f"1;{code};2;0;0;0;4", ("rgb", 0, 0, 0), bit["BOLD"] | bit["UNDERLINE"])):
            want = [None, None, None, eff_extra]
            want[slot] = val
            got = run(text)
            if got != tuple(want):
                bad.append(f"parse({text!r}) = {got}, expected {tuple(want)}")
        rep.check(not bad, "codes", b["path"], f"{code}", f"extended-colour introducer: ;5;n and ;2;r;g;b forms consume their arguments and the list goes on {bad[:2]}", loc(b))
        rep.count()
    rejects = ["x", "256", "300", "1;;2", "1;", ";1", "-1", " 1", "1 ", "1;x", "1;256", "1,2", "\u0661", "1;\u00e9"]
    bad = [t for t in rejects if run(t) is not None]
    rep.check(not bad, "codes", b["path"], "rejects-non-numbers", f"descriptions that are not lists of numbers 0..=255 give no style: accepted {bad}", loc(b))
    zeros = {"01;034": (("ansi", "Blue"), None, None, bit["BOLD"]), "001": (None, None, None, bit["BOLD"]), "0;1": (None, None, None, bit["BOLD"]),
             "00;1": (None, None, None, bit["BOLD"])}
    bad = [f"{t!r}: {run(t)}" for t, w in zeros.items() if run(t) != w]
    rep.check(not bad, "codes", b["path"], "leading-zeros", f"zero-padded codes are the same codes {bad[:2]}", loc(b))


def rule_extended(facts, rep):
    """The extended-colour introducers 38 / 48 / 58, by evaluation: `;5;n` sets that slot to palette index n and `;2;r;g;b` to the RGB
    colour with the components in that order, each consuming exactly its arguments (the code that follows is applied); a form that
    is cut short or has another selector stops the list there (what was parsed before it stands, nothing after it is applied)."""
    b = facts.body("anstyle_ls", F)
    bit = {n_: v for n_, v, _ in ac.effect_consts(facts)}

    def run(text):
        try:
            return observed(facts, text)
        except Unrecognised as ex:
            return ("not-evaluable", str(ex)[:80])
    for code, slot in ((38, 0), (48, 1), (58, 2)):
        def st(colour=None, eff=0):
            v = [None, None, None, eff]
            v[slot] = colour
            return tuple(v)
        checks = {
            f"{code};5;n→{('fg', 'bg', 'underline')[slot]}=Ansi256(n)":
                [(f"{code};5;{n}", st(("idx", n))) for n in (0, 1, 15, 16, 128, 255)] + [(f"1;{code};5;7;3", st(("idx", 7), bit["BOLD"] | bit["ITALIC"]))],
            f"{code};2;r;g;b→{('fg', 'bg', 'underline')[slot]}=Rgb(r,g,b)":
                [(f"{code};2;1;2;3", st(("rgb", 1, 2, 3))), (f"{code};2;255;0;128", st(("rgb", 255, 0, 128))), (f"{code};2;0;255;9;4", st(("rgb", 0, 255, 9), bit["UNDERLINE"])),
                 (f"1;{code};2;10;20;30;{code};5;9", st(("idx", 9), bit["BOLD"]))],
            f"{code}:looks-ahead-two":
                [(f"{code};5;4;4", st(("idx", 4), bit["UNDERLINE"])), (f"{code};2;4;4;4;4", st(("rgb", 4, 4, 4), bit["UNDERLINE"]))],
            f"{code}:malformed→stop":
                [(f"1;{code}", st(None, bit["BOLD"])), (f"1;{code};5", st(None, bit["BOLD"])), (f"1;{code};2;1;2", st(None, bit["BOLD"])),
                 (f"1;{code};2;1", st(None, bit["BOLD"])), (f"1;{code};2", st(None, bit["BOLD"])), (f"1;{code};7;9;4", st(None, bit["BOLD"])),
                 (f"1;{code};0;9;4", st(None, bit["BOLD"]))],
        }
        seen = {5: True, 2: True}
        for key, cases in checks.items():
            bad = [f"parse({t!r}) = {run(t)}, expected {w}" for t, w in cases if run(t) != w]
            if bad and ";5;" in key:
                seen[5] = False
            if bad and ";2;" in key:
                seen[2] = False
            rep.check(not bad, "extended", b["path"], key, f"{len(cases)} descriptions evaluated {bad[:2]}", loc(b))
            rep.count(len(cases))
        rep.check(seen == {5: True, 2: True}, "extended", b["path"], f"{code}:both-forms", f"{seen}", loc(b))


def rule_wiring(facts, rep):
    b = facts.body("anstyle_ls", F)
    top = hir.stmts_of(b["hir"])
    code = b["params"][0]["name"]
    # "no style" is exactly the empty description, `0` and `00` — by evaluation: those three give None, and their neighbours
    # (longer runs of zeros, zero as one element of a list, codes with leading zeros) are ordinary descriptions
    bit = {n_: v for n_, v, _ in ac.effect_consts(facts)}
    want = {"": None, "0": None, "00": None, "000": (None, None, None, 0), "0000": (None, None, None, 0), "0;0": (None, None, None, 0),
            "00;0": (None, None, None, 0), "0;00": (None, None, None, 0), "1;0": (None, None, None, 0), "1;00": (None, None, None, 0),
            "01": (None, None, None, bit["BOLD"]), "001": (None, None, None, bit["BOLD"]), "0;1": (None, None, None, bit["BOLD"]),
            "00;01": (None, None, None, bit["BOLD"])}
    bad = []
    for text, w in want.items():
        try:
            g = observed(facts, text)
        except Unrecognised as ex:
            g = ("not-evaluable", str(ex)[:80])
        if g != w:
            bad.append(f"parse({text!r}) = {g}, expected {w}")
    rep.count(len(want))
    rep.check(not bad, "wiring", b["path"], "no-style-for-empty-0-00", f"{len(want)} descriptions evaluated {bad[:3]}"[:400], loc(b))
    def obs(text):
        try:
            return observed(facts, text)
        except Unrecognised as ex:
            return ("not-evaluable", str(ex)[:80])
    # all-or-nothing numeric split: one element that is not a u8 rejects the whole description, wherever it stands; what u8's FromStr
    # accepts (a leading `+`, leading zeros) is a number
    BD = bit["BOLD"] | bit["DIMMED"]
    cases = {"x": None, "1;x": None, "x;1": None, "1;;2": None, ";1": None, "1;": None, "1;256": None, "256": None, "1;-1": None, "1; 2": None,
             " 1": None, "1;2x": None, "1;0x2": None, "1;2.0": None, "1;+2": (None, None, None, BD), "+1;2": (None, None, None, BD),
             "1;2": (None, None, None, BD), "255;1": (None, None, None, bit["BOLD"]), "1;255": (None, None, None, bit["BOLD"])}
    bad = [f"parse({t!r}) = {obs(t)}, expected {w}" for t, w in cases.items() if obs(t) != w]
    rep.count(len(cases))
    rep.check(not bad, "wiring", b["path"], "all-or-nothing-u8-split", f"{len(cases)} descriptions evaluated {bad[:3]}"[:400], loc(b))
    # a single code shows in its own slot of an otherwise default style
    single = {"1": (None, None, None, bit["BOLD"]), "31": (("ansi", "Red"), None, None, 0), "42": (None, ("ansi", "Green"), None, 0),
              "58;5;9": (None, None, ("idx", 9), 0), "38;5;9": (("idx", 9), None, None, 0), "48;2;1;2;3": (None, ("rgb", 1, 2, 3), None, 0)}
    bad = [f"parse({t!r}) = {obs(t)}, expected {w}" for t, w in single.items() if obs(t) != w]
    rep.count(len(single))
    rep.check(not bad, "wiring", b["path"], "starts-from-default-style", f"{bad[:3]}"[:400], loc(b))
    full = obs("1;31;42;58;5;9")
    want_full = (("ansi", "Red"), ("ansi", "Green"), ("idx", 9), bit["BOLD"])
    for i, k in enumerate(("fg_color", "bg_color", "underline_color", "effects")):
        rep.check(isinstance(full, tuple) and len(full) == 4 and full[i] == want_full[i], "wiring", b["path"], f"result.{k}←{k}",
                  f"parse('1;31;42;58;5;9') = {full}", loc(b))
    rep.check(obs("1;31;42;58;5;9;0") == (None, None, None, 0), "wiring", b["path"], "result-built-on-Style::new()", "a final 0 gives the default style", loc(b))


def list_model(codes, bit):
    """The style a list of codes denotes (the property's reading of SGR, from spec/sgr.py): (fg, bg, underline, effect bits)."""
    fg = bg = ul = None
    eff = 0
    i = 0
    while i < len(codes):
        c = codes[i]
        i += 1
        if c == 0:
            fg = bg = ul = None
            eff = 0
        elif c in sgr.EFFECT_ON and 1 <= c <= 9:
            eff |= bit[sgr.EFFECT_ON[c]]
        elif c in sgr.EFFECT_OFF:
            for e_ in sgr.EFFECT_OFF[c]:
                eff &= ~bit[e_]
        elif sgr.colour_code(c):
            slot, name = sgr.colour_code(c)
            if slot == "fg":
                fg = ("ansi", name)
            else:
                bg = ("ansi", name)
        elif c in (39, 49, 59):
            fg, bg, ul = (None if c == 39 else fg), (None if c == 49 else bg), (None if c == 59 else ul)
        elif c in (38, 48, 58):
            sel = codes[i] if i < len(codes) else None
            a0 = codes[i + 1] if i + 1 < len(codes) else None
            i += 2
            col = None
            if sel == 5 and a0 is not None:
                col = ("idx", a0)
            elif sel == 2 and a0 is not None:
                if i + 1 < len(codes):
                    col = ("rgb", a0, codes[i], codes[i + 1])
                i += 2
            if col is None:
                break                       # a form that is cut short or has another selector stops the list
            fg, bg, ul = (col if c == 38 else fg), (col if c == 48 else bg), (col if c == 58 else ul)
    return (fg, bg, ul, eff)


def rule_lists(facts, rep, tier="quick"):
    """Lists of codes against the model, by evaluation: all ordered pairs over a set of codes (quick: one representative per
    class; thorough: every pair over 0..=110 and every triple over the representatives), so that an arm that disturbs what
    another code set — in either order — is seen."""
    b = facts.body("anstyle_ls", F)
    bit = {n_: v for n_, v, _ in ac.effect_consts(facts)}
    reps = [0, 1, 2, 4, 5, 6, 7, 9, 10, 21, 22, 24, 25, 27, 29, 30, 31, 37, 39, 40, 47, 49, 59, 60, 90, 97, 100, 107, 108, 110]
    ext = ["38;5;9", "48;5;200", "58;5;3", "38;2;1;2;3", "48;2;4;5;6", "58;2;7;8;9", "38", "48;5", "58;2;1"]
    items = [str(c) for c in reps] + ext
    lists = [[x, y] for x in items for y in items]
    if tier == "thorough":
        lists += [[str(x), str(y)] for x in range(111) for y in range(111)]
        small = [0, 1, 2, 4, 22, 24, 31, 39, 42, 49, 59, 91, 104, 60]
        sm = [str(c) for c in small] + ["38;5;9", "58;2;7;8;9", "48"]
        lists += [[x, y, z] for x in sm for y in sm for z in sm]
    bad = []
    seen = set()
    for l_ in lists:
        text = ";".join(l_)
        if text in seen or text in ("0", "00"):
            continue
        seen.add(text)
        want = list_model([int(x) for x in text.split(";")], bit)
        try:
            got = observed(facts, text)
        except Unrecognised as ex:
            got = ("not-evaluable", str(ex)[:80])
        if got != want:
            bad.append(f"parse({text!r}) = {got}, expected {want}")
            if len(bad) > 20:
                break
    rep.count(len(seen))
    rep.check(not bad, "lists", b["path"], "pairs-and-triples-against-the-model", f"{len(seen)} lists evaluated {bad[:3]}"[:500], loc(b))
