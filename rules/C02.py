"""C02 — the parser reports exactly the events of the VT500 state machine (structural part)."""
import hir
import hirpp
from core import AnchorMissing, Unrecognised, loc
from rules import common_parse as cp
from spec import vt500

META = {
    "explanation": (
        "Static decision of the structural clauses of C02 on the type-checked program: (1) the 16x256 transition "
        "table (const-evaluated bytes) equals an independent VT500 specification cell by cell under the "
        "Anywhere-first lookup; (2) State/Action encoding and the two transmutes of unpack; (3) the lookup shape of "
        "state_change and the routing of every byte in Parser::advance; (4) exit -> transition -> entry action order and "
        "the entry/exit tables in perform_state_change; (5) the Action -> Perform callback map with argument wiring; "
        "(6) guards (is_full / MAX_INTERMEDIATES / MAX_OSC_PARAMS) dominating every push, extend, intermediate and OSC "
        "index store; (7) reset coverage of all bookkeeping fields; (8) the documented limits and saturating "
        "parameter accumulation. Does NOT decide whole-trace equality of callbacks (index arithmetic inside "
        "Params/ParamsIter and OSC slice bookkeeping are checked for guards and coverage only) nor UTF-8 decoding."),
    "exhaustive": True,
}

P = "anstyle_parse::Parser::<C>::"


def arms_by_variant(m, enum_path):
    """match on a fieldless enum → ({variant: arm}, default_arm|None)."""
    table, default = {}, None
    for a in m["arms"]:
        if "guard" in a:
            # `State::OscString if <cond> => ..` makes the table entry conditional on run-time data: not a table any more
            raise Unrecognised(f"arm `{hirpp.pat(a['pat'])} if {hirpp.expr(a['guard'])[:60]}` is guarded: the {enum_path.split('::')[-1]} table must be unconditional")
        for alt in hir.pat_alternatives(a["pat"]):
            if alt["k"] == "ppath" and alt["path"].startswith(enum_path + "::"):
                table[alt["path"].split("::")[-1]] = a
            elif alt["k"] in ("pwild", "pbind"):
                default = a
            else:
                raise Unrecognised(f"arm pattern {alt['k']} in match over {enum_path}")
    return table, default


def self_field(e, name):
    e = hir.peel(e)
    return isinstance(e, dict) and e.get("k") == "field" and e["name"] == name and hir.is_local(e["e"], "self")


def perform_action_call(e):
    """perform_action(self, performer, <action>, byte) → action expr or None."""
    e = hir.simp(e)
    if hir.is_call(e, "perform_action") and len(e["args"]) == 4:
        if not (hir.is_local(e["args"][0], "self") and hir.is_local(e["args"][1], "performer")
                and hir.is_local(e["args"][3], "byte")):
            raise Unrecognised("perform_action called with unexpected self/performer/byte arguments")
        return e["args"][2]
    return None


THOROUGH_CONFIGS = ["parse-none", "parse-core", "parse-core-utf8"]


def run(ctx):
    rep, facts = ctx.report, ctx.facts
    if ctx.tier == "thorough":
        # the same rules on the parser's three other feature sets (real builds, type-checked by the compiler)
        for cfg in THOROUGH_CONFIGS:
            if cfg in ctx.configs:
                run_rules(ctx.configs[cfg], rep.scoped(cfg))
    run_rules(facts, rep)
    for r, n in (("table", 16), ("encoding", 10), ("unpack", 3), ("lookup", 4), ("advance", 3), ("order", 7),
                 ("action-map", 16), ("guards", 9), ("reset", 9), ("limits", 7), ("params", 8), ("utf8", 3),
                 ("osc", 4), ("osc-arms", 3)):
        rep.floor(r, n)


def run_rules(facts, rep, skip=()):

    if "encoding" not in skip:
        rep.guarded("encoding", "State/Action", lambda: cp.check_encoding(facts, rep))
    if "table" not in skip:
        rep.guarded("table", "STATE_CHANGES", lambda: cp.check_table(facts, rep))
    if "unpack" not in skip:
        rep.guarded("unpack", "unpack", lambda: rule_unpack(facts, rep))
    if "lookup" not in skip:
        rep.guarded("lookup", "state_change", lambda: rule_lookup(facts, rep))
    if "advance" not in skip:
        rep.guarded("advance", "advance", lambda: rule_advance(facts, rep))
    if "order" not in skip:
        rep.guarded("order", "perform_state_change", lambda: rule_order(facts, rep))
    if "action-map" not in skip:
        rep.guarded("action-map", "perform_action", lambda: rule_action_map(facts, rep))
    if "guards" not in skip:
        rep.guarded("guards", "perform_action", lambda: rule_guards(facts, rep))
    if "reset" not in skip:
        rep.guarded("reset", "perform_action", lambda: rule_reset(facts, rep))
    if "limits" not in skip:
        rep.guarded("limits", "limits", lambda: rule_limits(facts, rep))
    if "params" not in skip:
        rep.guarded("params", "Params", lambda: rule_params(facts, rep))
    if "utf8" not in skip:
        rep.guarded("utf8", "process_utf8", lambda: rule_utf8(facts, rep))
    if "osc" not in skip:
        rep.guarded("osc", "osc_dispatch", lambda: rule_osc_dispatch(facts, rep))
    if "osc-arms" not in skip:
        rep.guarded("osc-arms", "perform_action", lambda: rule_osc_arms(facts, rep))


def rule_osc_arms(facts, rep, full_buffer=False):
    """(full_buffer: the fixed raw buffer of the `core` builds reports is_full() — the OscEnd cases must come out the same: the
    terminator closes the last parameter whether or not the payload was cut at the limit.)
    The OSC bookkeeping arms by abstract evaluation, for every parameter count 0..=16: a payload byte is always appended to the raw
    buffer (whatever the count — only a full fixed buffer may refuse it) and changes nothing else; `;` closes the current parameter
    as (end of the previous one or 0, current length) and counts it, unless 16 are closed already; OscEnd closes the last
    parameter the same way and then dispatches."""
    import abseval
    b = facts.body(cp.CRATE, P + "perform_action")
    m = top_match(b, "action")
    tbl, _ = arms_by_variant(m, cp.ACTION)
    LIM = C04_LIMIT = 16
    bad = {"payload-byte-always-buffered": [], "separator-closes-a-parameter": [], "end-closes-the-last-parameter-then-dispatches": []}
    n_cases = 0
    arms = (("OscPut", ((("int", 0x78), "payload"), (("int", 0x3b), "separator"))), ("OscEnd", ((("int", 0x07), "end"),)))
    for arm, byte_cases in (arms[1:] if full_buffer else arms):
        for byte, what in byte_cases:
            for count in range(0, LIM + 1):
                n_cases += 1
                pushes, stores, dispatched = [], [], []
                prev_end = ("sym", "end-of-previous")

                def load(a_, count=count):
                    if a_[0] == ("int", count - 1) and count >= 1:
                        return ("tuple", ("sym", "begin-of-previous"), prev_end)
                    raise Unrecognised(f"osc_params read at {a_[0]} with {count} parameters closed")
                ev = abseval.Evaluator(facts, cp.CRATE, {
                    "alloc::vec::Vec::<T, A>::push": lambda a_: (pushes.append(a_[1]), ("unit",))[1],
                    "arrayvec::arrayvec::ArrayVec::<T, CAP>::push": lambda a_: (pushes.append(a_[1]), ("unit",))[1],
                    "alloc::vec::Vec::<T, A>::len": lambda a_: ("sym", "raw-len"), "arrayvec::arrayvec::ArrayVec::<T, CAP>::len": lambda a_: ("sym", "raw-len"),
                    "arrayvec::arrayvec::ArrayVec::<T, CAP>::is_full": lambda a_: ("bool", full_buffer),
                    "core::slice::<impl [T]>::len": lambda a_: ("sym", "raw-len"),
                    "load:self.osc_params": load,
                    "store:self.osc_params": lambda a_: stores.append((a_[0], a_[1])),
                    P + "osc_dispatch": lambda a_: (dispatched.append(list(a_)), ("unit",))[1],
                    "AddAssign": lambda a_: ("int", a_[0][1] + a_[1][1]) if a_[0][0] == "int" and a_[1][0] == "int" else ("bin", "Add", a_[0], a_[1]),
                })
                env = abseval.Env()
                env.update({"self": ("sym", "self"), "self.osc_num_params": ("int", count), "self.osc_raw": ("sym", "raw"), "byte": byte,
                            "performer": ("sym", "performer")})
                try:
                    try:
                        ev.ev(tbl[arm]["body"], env)
                    except abseval.Return:
                        pass
                    after = env["self.osc_num_params"]
                    begin = ("int", 0) if count == 0 else prev_end
                    closed = [(("int", count), ("tuple", begin, ("sym", "raw-len")))]
                    if what == "payload":
                        if pushes != [byte] or stores or after != ("int", count) or dispatched:
                            bad["payload-byte-always-buffered"].append(f"{count} parameters closed: pushes {pushes}, index stores {stores}, count becomes {after}")
                    elif what == "separator":
                        want_st, want_n = (closed, ("int", count + 1)) if count < LIM else ([], ("int", count))
                        if pushes or stores != want_st or after != want_n or dispatched:
                            bad["separator-closes-a-parameter"].append(f"{count} parameters closed: pushes {pushes}, index stores {stores} (expected {want_st}), count becomes {after}")
                    else:
                        want_st, want_n = (closed, ("int", count + 1)) if count < LIM else ([], ("int", count))
                        if pushes or stores != want_st or after != want_n or dispatched != [[("sym", "self"), ("sym", "performer"), byte]]:
                            bad["end-closes-the-last-parameter-then-dispatches"].append(
                                f"{count} parameters closed: index stores {stores} (expected {want_st}), count becomes {after}, dispatch {dispatched}")
                except Unrecognised as ex:
                    key = {"payload": "payload-byte-always-buffered", "separator": "separator-closes-a-parameter"}.get(what, "end-closes-the-last-parameter-then-dispatches")
                    bad[key].append(f"{count} parameters closed: not evaluable: {ex}")
    rep.count(n_cases)
    for key, v in bad.items():
        if full_buffer and key != "end-closes-the-last-parameter-then-dispatches":
            continue
        rep.check(not v, "osc-arms", b["path"], key + ("@full-buffer" if full_buffer else ""),
                  f"{n_cases} cases evaluated (parameter counts 0..=16) {v[:2]}"[:500], loc(b, tbl["OscPut"]))


def rule_unpack(facts, rep):
    b = facts.body(cp.CRATE, "anstyle_parse::state::definitions::unpack")
    rep.fn(b["path"])
    # unpack(delta) for all 256 bytes by abstract evaluation: the state is variant (delta & 15), the action variant (delta >> 4),
    # by discriminant — a transmute of the nibble (valid for any 4-bit value by the encoding rule), a table indexed by it, a match
    import abseval

    def by_discriminant(a_):
        v, ty = a_[0], str(a_[-1])
        names = vt500.STATES if ty == cp.STATE else vt500.ACTIONS if ty == cp.ACTION else None
        if v[0] != "int" or names is None or not 0 <= v[1] < len(names):
            raise Unrecognised(f"transmute of {v} to {ty}")
        return ("enum", ty + "::" + names[v[1]])
    bad = {0: [], 1: []}
    for d in range(256):
        try:
            r = abseval.Evaluator(facts, cp.CRATE, {"transmute": by_discriminant}).call_fn(cp.CRATE, b["path"], [("int", d)])
        except Unrecognised as ex:
            r = ("not-evaluable", str(ex)[:60])
        want = (("enum", cp.STATE + "::" + vt500.STATES[d & 15]), ("enum", cp.ACTION + "::" + vt500.ACTIONS[d >> 4]))
        for i in (0, 1):
            if not (r[0] == "tuple" and len(r) == 3 and r[1 + i] == want[i]):
                bad[i].append((d, r[1 + i] if r[0] == "tuple" and len(r) == 3 else r))
    rep.count(256)
    for i, what in ((0, "state = variant (delta & 15)"), (1, "action = variant (delta >> 4)")):
        rep.check(not bad[i], "unpack", b["path"], f"component-{i}",
                  f"component {i}: {what} for every byte — state in the low, action in the high nibble (the discriminant order is checked by the "
                  f"encoding rule) {bad[i][:2]}", loc(b))
    rep.check(b["sig"].startswith("fn(u8) -> (" + cp.STATE), "unpack", b["path"], "signature", b["sig"], loc(b))


def rule_lookup(facts, rep):
    b = facts.body(cp.CRATE, "anstyle_parse::state::state_change")
    rep.fn(b["path"])
    # state_change(state, byte) is decided by abstract evaluation over two opaque table cells: A = STATE_CHANGES[Anywhere][byte]
    # and S = STATE_CHANGES[state][byte].  Whatever the control flow (mutable local, match with a binding arm, if/else
    # expression, a named constant for 0), the result must be unpack(S) exactly when A == 0 and unpack(A) otherwise.
    import abseval
    pn = [p.get("name") for p in b["params"]]

    def cell(args):
        st_ = args[0]
        if st_ in (("enum", cp.STATE + "::Anywhere"), ("int", vt500.STATES.index("Anywhere"))):      # (`State::Anywhere as usize` is its discriminant)
            return ("sym", "A")
        if st_ == ("sym", "state") and args[1] == ("sym", "byte"):
            return ("sym", "S")
        raise Unrecognised(f"state_change_ consulted for an unexpected row {st_}")

    def run(choices):
        ev = abseval.Evaluator(facts, cp.CRATE, {"anstyle_parse::state::state_change_": cell,
                                                  "index:anstyle_parse::state::table::STATE_CHANGES": cell,
                                                  "anstyle_parse::state::definitions::unpack": lambda a: ("unpack", a[0])})
        ev.choices = choices
        env = abseval.Env()
        env[pn[0]], env[pn[1]] = ("sym", "state"), ("sym", "byte")
        try:
            return ev.ev(b["hir"], env)
        except abseval.Return as r:
            return r.v
    results = abseval.explore(run)
    bad = []
    for choices, res in results:
        a_zero = choices.get(("A", ("int", 0)))
        if a_zero is None:
            bad.append(f"the Anywhere cell is never compared with 0 on a path returning {res}")
            continue
        want = ("unpack", ("sym", "S")) if a_zero else ("unpack", ("sym", "A"))
        if res != want:
            bad.append(f"with Anywhere-cell {'==' if a_zero else '!='} 0 the result is {res}, expected {want}")
    rep.check(not bad and len(results) >= 2, "lookup", b["path"], "anywhere-first",
              f"state_change = unpack(Anywhere cell if it is non-zero, else the current state's cell): {bad[:2]}", loc(b))
    rep.check(not bad and len(results) >= 2, "lookup", b["path"], "current-state-only-if-zero",
              "the current state's row is consulted exactly when the Anywhere cell is 0", loc(b))
    rep.check(not bad, "lookup", b["path"], "unpack-result", "the result is unpack(change)", loc(b))
    try:
        b2 = facts.body(cp.CRATE, "anstyle_parse::state::state_change_")
    except AnchorMissing:
        # the lookup helper was renamed or written in place: the evaluation above already required every table access of
        # state_change to be STATE_CHANGES[Anywhere | state][byte]
        rep.ok("lookup", "anstyle_parse::state::state_change", "row-state-col-byte", "table accessed in place (decided by the evaluation of state_change)")
        return
    rep.fn(b2["path"])
    idx = [n for n in hir.walk(b2["hir"]) if n.get("k") == "index"]
    ok = False
    if len(idx) == 2:
        outer, inner = idx[0], idx[1]

        def as_cast_of(e, name, locals_):
            e = hir.simp(e)
            if e.get("k") == "local" and e["name"] in locals_:
                e = locals_[e["name"]]
            e = hir.simp(e)
            return e.get("k") == "cast" and hir.is_local(e["e"], name) and e.get("ty") == "usize"

        lets = {s["pat"]["name"]: s["init"] for s in hir.stmts_of(b2["hir"]) if s.get("k") == "let" and s["pat"].get("k") == "pbind"}
        ok = (hir.is_def(inner["e"], "table::STATE_CHANGES") and as_cast_of(inner["i"], "state", lets)
              and as_cast_of(outer["i"], "byte", lets))
    rep.check(ok, "lookup", b2["path"], "row-state-col-byte",
              "state_change_ must read STATE_CHANGES[state as usize][byte as usize]", loc(b2))


def advance_by_value(facts):
    """advance() evaluated on every (parser state, byte): the calls it makes (process_utf8, perform_state_change, perform_action and
    the performer's callbacks, recorded), with state_change answering from the transition table (Anywhere row first — that this is
    what the function computes is rule `lookup`) -> {(state, byte): (calls, stores)}"""
    import abseval
    b = facts.body(cp.CRATE, P + "advance")
    _, rows = cp.table(facts)
    out = {}
    for st in vt500.STATES:
        si = vt500.STATES.index(st)
        for byte in range(256):
            calls = []

            def rec(name, ret=("unit",)):
                return lambda a_, name=name, ret=ret: (calls.append((name, list(a_))), ret)[1]

            def lookup(a_):
                if a_[0][0] != "enum" or a_[1][0] != "int":
                    raise Unrecognised("state_change on unknown arguments")
                ns, act = cp.effective_cell(rows, vt500.STATES.index(a_[0][1].split("::")[-1]), a_[1][1])
                return ("tuple", ("enum", cp.STATE + "::" + vt500.STATES[ns]), ("enum", cp.ACTION + "::" + vt500.ACTIONS[act]))
            atoms = {P + "process_utf8": rec("process_utf8"), P + "perform_state_change": rec("perform_state_change"), P + "perform_action": rec("perform_action"),
                     "anstyle_parse::state::state_change": lookup, "anstyle_parse::state::definitions::state_change": lookup}
            for cb in ("print", "execute", "hook", "put", "unhook", "osc_dispatch", "csi_dispatch", "esc_dispatch"):
                atoms["anstyle_parse::Perform::" + cb] = rec(cb)
            ev = abseval.Evaluator(facts, cp.CRATE, atoms)
            env = abseval.Env()
            env.update({"self": ("sym", "self"), "self.state": ("enum", cp.STATE + "::" + st), b["params"][1]["name"]: ("sym", "performer"),
                        b["params"][2]["name"]: ("int", byte)})
            try:
                ev.ev(b["hir"], env)
            except abseval.Return:
                pass
            out[(st, byte)] = (calls, list(ev.stores))
    return out


def rule_advance(facts, rep):
    b = facts.body(cp.CRATE, P + "advance")
    rep.fn(b["path"])
    try:
        cases = advance_by_value(facts)
        why = ""
    except Unrecognised as ex:
        cases, why = {}, f"not evaluable: {ex}"
    _, rows = cp.table(facts)
    SELF, PERF = ("sym", "self"), ("sym", "performer")
    bad_u = [(byte, c) for (st, byte), c in cases.items() if st == "Utf8" and c != ([("process_utf8", [SELF, PERF, ("int", byte)])], [])]
    ok_utf8 = bool(cases) and not bad_u
    rep.check(ok_utf8, "advance", b["path"], "utf8-out-of-band",
              f"in state Utf8 the byte goes to process_utf8 and nothing else happens {why} {bad_u[:1]}"[:300], loc(b))
    # every other state, every byte: what happens is perform_state_change(self, performer, state, action, byte) for the pair the
    # table gives — called as such or, where the target is Anywhere ("stay": the action only, rule `order`), as perform_action(action,
    # byte) or, for Print / Execute (rule `action-map`), as the performer's callback itself: a fast path for plain text is the same
    bad_l, bad_p = [], []
    for (st, byte), (calls, stores) in cases.items():
        if st == "Utf8":
            continue
        ns, act = cp.effective_cell(rows, vt500.STATES.index(st), byte)
        NS, ACT = ("enum", cp.STATE + "::" + vt500.STATES[ns]), ("enum", cp.ACTION + "::" + vt500.ACTIONS[act])
        forms = [[("perform_state_change", [SELF, PERF, NS, ACT, ("int", byte)])]]
        if vt500.STATES[ns] == "Anywhere":
            forms.append([("perform_action", [SELF, PERF, ACT, ("int", byte)])])
            if vt500.ACTIONS[act] == "Print":
                forms.append([("print", [PERF, ("char", byte)])])
                forms.append([("print", [PERF, ("int", byte)])])          # (`byte as char`: the same scalar value)
            if vt500.ACTIONS[act] == "Execute":
                forms.append([("execute", [PERF, ("int", byte)])])
        if calls not in forms:
            (bad_l if not calls or calls[0][0] in ("process_utf8",) or len(calls) != 1 else bad_p).append(f"state {st}, byte {byte:#04x}: {str(calls)[:160]}")
        elif stores:
            bad_p.append(f"state {st}, byte {byte:#04x}: also stores {str(stores)[:80]}")
    rep.check(bool(cases) and not bad_l, "advance", b["path"], "table-lookup", f"in every other state: (state, action) = state_change(self.state, byte) first {bad_l[:1]}"[:300], loc(b))
    rep.check(bool(cases) and not bad_p, "advance", b["path"], "perform",
              f"then perform_state_change(self, performer, state, action, byte) with the looked-up pair, and nothing else {bad_p[:1]}"[:300], loc(b))
    rep.count(len(cases))


def nm_all_nodes(root):
    import norm
    return norm.all_nodes(root)


def rule_order(facts, rep):
    """Case-wise decision of perform_state_change: for every (old state, target state, action is Nop or not) the ordered effects
    are read off the one structural path that is feasible for that case — however the function spells its branches (match with a
    binding arm, `==` on the field-less enums, early return): target Anywhere runs the action only; otherwise exit action of the
    OLD state, then the transition's action unless Nop, then entry action of the NEW state, then self.state = new."""
    b = facts.body(cp.CRATE, P + "perform_state_change")
    rep.fn(b["path"])
    names = [p.get("name") for p in b["params"]]
    if names != ["self", "performer", "state", "action", "byte"]:
        raise AnchorMissing(f"perform_state_change parameters are {names}")
    import abseval
    states = list(vt500.STATES)
    if "Anywhere" not in states:
        states = states + ["Anywhere"]
    # by abstract evaluation of the body on every (old state, target state) and a Nop / non-Nop action, the calls of perform_action
    # recorded in order (a call with Action::Nop does nothing — perform_action's Nop arm is empty, rule action-map) and the state left
    # in self.state: a match with a binding arm, `==` on the enums, an early return, helper functions naming the entry / exit
    # action of a state are all the same function
    cases = states
    n_cases = 0
    bad = {}
    for old in cases:
        for new in cases:
            for act in ("Nop", "Print"):
                n_cases += 1
                seq = []
                key = None

                def rec(a_):
                    v = a_[2]
                    seq.append(("act", hir.last_seg(v[1]) if v[0] == "enum" else "?"))
                    return ("unit",)
                ev = abseval.Evaluator(facts, cp.CRATE, {P + "perform_action": rec})
                env = abseval.Env()
                env.update({"self": ("sym", "self"), "self.state": ("enum", cp.STATE + "::" + old), "performer": ("sym", "performer"),
                            "state": ("enum", cp.STATE + "::" + new), "action": ("enum", cp.ACTION + "::" + act), "byte": ("sym", "byte")})
                try:
                    try:
                        ev.ev(b["hir"], env)
                    except abseval.Return:
                        pass
                    after = env["self.state"]
                    if after != ("enum", cp.STATE + "::" + old) or new == old:
                        if not (new == "Anywhere"):
                            seq.append(("state", hir.last_seg(after[1]) if after[0] == "enum" else "?"))
                        elif after != ("enum", cp.STATE + "::" + old):
                            seq.append(("state", hir.last_seg(after[1]) if after[0] == "enum" else "?"))
                    seq = [x for x in seq if x != ("act", "Nop")]
                    if new == "Anywhere":
                        want = [("act", act)] if act != "Nop" else []
                    else:
                        want = ([("act", vt500.EXIT_ACTIONS[old])] if old in vt500.EXIT_ACTIONS else []) + \
                               ([("act", act)] if act != "Nop" else []) + \
                               ([("act", vt500.ENTRY_ACTIONS[new])] if new in vt500.ENTRY_ACTIONS else []) + [("state", new)]
                    if seq != want:
                        key = f"effects {seq}, expected {want}"
                except Unrecognised as ex:
                    key = f"not evaluable: {ex}"
                if key:
                    which = ("anywhere-runs-action-only" if new == "Anywhere" else
                             "1-exit-actions-of-old-state" if old in vt500.EXIT_ACTIONS and "act" in key and vt500.EXIT_ACTIONS[old] not in key.split("expected")[0] else
                             "2-transition-action-unless-nop")
                    bad.setdefault(which, []).append(f"old={old} new={new} action={'Nop' if act == 'Nop' else 'non-Nop'}: {key}")
    rep.count(n_cases)

    def classify(msgs):
        return msgs[:2]
    all_bad = [m for v in bad.values() for m in v]
    # attribute the failures to the four ordered steps
    def failing(pred):
        return [m for m in all_bad if pred(m)]
    any_bad = failing(lambda m: "new=Anywhere" in m)
    rep.check(not any_bad, "order", b["path"], "anywhere-runs-action-only",
              f"target Anywhere = stay: run the action, do not touch self.state: {any_bad[:2]}", loc(b))
    rest = [m for m in all_bad if "new=Anywhere" not in m]

    def step_bad(extract):
        out = []
        for m in rest:
            if "effects" not in m:
                out.append(m)
                continue
            got, want = m.split("effects ", 1)[1].split(", expected ")
            if extract(eval(got)) != extract(eval(want)):
                out.append(m)
        return out
    ex_names = set(vt500.EXIT_ACTIONS.values())
    en_names = set(vt500.ENTRY_ACTIONS.values())

    def first_act(seq):
        return seq[0] if seq and seq[0][0] == "act" and seq[0][1] in ex_names else None

    def last_act(seq):
        acts = [x for x in seq if x[0] == "act"]
        return acts[-1] if acts and acts[-1][1] in en_names and (len(acts) > 1 or True) else None
    b1 = step_bad(first_act)
    rep.check(not b1, "order", b["path"], "1-exit-actions-of-old-state",
              f"first: exit action selected by self.state, table must be {vt500.EXIT_ACTIONS}: {b1[:2]}", loc(b))
    b3 = step_bad(last_act)
    rep.check(not b3, "order", b["path"], "3-entry-actions-of-new-state",
              f"third: entry action selected by the new state, table must be {vt500.ENTRY_ACTIONS}: {b3[:2]}", loc(b))
    b4 = step_bad(lambda seq: (seq[-1] if seq and seq[-1][0] == "state" else None, sum(1 for x in seq if x[0] == "state")))
    rep.check(not b4, "order", b["path"], "4-assign-state-last", f"last: self.state = state: {b4[:2]}", loc(b))
    b2 = [m for m in rest if m not in b1 and m not in b3 and m not in b4]
    rep.check(not b2, "order", b["path"], "2-transition-action-unless-nop",
              f"second: the transition's own action, skipped only for Nop: {b2[:2]}", loc(b))
    # no other writer of self.state in the crate except process_utf8 (-> Ground) and this
    writers = []
    for body in facts.bodies(cp.CRATE):
        if "hir" not in body or body.get("expn"):
            continue
        for n in hir.walk(body["hir"]):
            if n.get("k") == "assign" and self_field(n["l"], "state") and body.get("impl_self", "").startswith("anstyle_parse::Parser"):
                writers.append(body["path"].split("::")[-1])
    rep.check(sorted(writers) == ["perform_state_change", "process_utf8"], "order", "Parser.state", "who-may-write",
              f"writers of Parser.state: {sorted(writers)}", loc(b))
    rep.check(True, "order", b["path"], "new-state-is-parameter", "decided by the case-wise evaluation", loc(b))


def perform_call(e, method):
    e = hir.simp(e)
    if hir.is_call(e, "Perform::" + method) and hir.is_local(e["args"][0], "performer"):
        return e["args"][1:]
    return None


def rule_action_map(facts, rep):
    b = facts.body(cp.CRATE, P + "perform_action")
    rep.fn(b["path"])
    m = top_match(b, "action")
    tbl, default = arms_by_variant(m, cp.ACTION)
    rep.check(default is None and set(tbl) == set(vt500.ACTIONS), "action-map", b["path"], "exhaustive-no-default",
              f"all 16 actions have their own arm and there is no catch-all: {sorted(set(vt500.ACTIONS) - set(tbl))}", loc(b, m))

    def last_stmt(v):
        s = hir.stmts_of(tbl[v]["body"])
        return hir.simp(s[-1]) if s else {}

    def is_byte(e):
        return hir.is_local(e, "byte")

    def is_params(e):
        e = hir.peel(e)
        # through the accessor (whose body the accessors rule reads) or the field itself
        return (hir.is_call(e, P + "params") and hir.is_local(e["args"][0], "self")) or self_field(e, "params")

    def is_inter(e):
        e = hir.peel(e)
        if hir.is_call(e, P + "intermediates") and hir.is_local(e["args"][0], "self"):
            return True
        # the accessor written in place: &self.intermediates[..self.intermediate_idx]
        if e.get("k") == "index" and self_field(e["e"], "intermediates"):
            r_ = hir.simp(e["i"])
            f_ = {x["name"]: x["e"] for x in r_.get("fields", [])} if r_.get("k") == "struct" else {}
            return hir.last_seg(r_.get("path", {}).get("path")) == "RangeTo" and self_field(f_.get("end"), "intermediate_idx")
        return False

    def is_ign(e):
        return self_field(e, "ignoring")

    def chk(v, cond, what):
        rep.check(bool(cond), "action-map", b["path"], f"arm:{v}", what, loc(b, tbl.get(v)))
        rep.count()

    a = perform_call(last_stmt("Print"), "print")
    chk("Print", a and hir.simp(a[0]).get("k") == "cast" and is_byte(hir.simp(a[0])["e"]) and hir.simp(a[0]).get("ty") == "char"
        and len(hir.stmts_of(tbl["Print"]["body"])) == 1, "Print → performer.print(byte as char) and nothing else")
    a = perform_call(last_stmt("Execute"), "execute")
    chk("Execute", a and is_byte(a[0]) and len(hir.stmts_of(tbl["Execute"]["body"])) == 1, "Execute → performer.execute(byte)")
    a = perform_call(last_stmt("Put"), "put")
    chk("Put", a and is_byte(a[0]) and len(hir.stmts_of(tbl["Put"]["body"])) == 1, "Put → performer.put(byte)")
    a = perform_call(last_stmt("Unhook"), "unhook")
    chk("Unhook", a is not None and len(a) == 0 and len(hir.stmts_of(tbl["Unhook"]["body"])) == 1, "Unhook → performer.unhook()")
    def arm_view(v):
        """The arm's statements without `let x = <view of self's fields>;` (a slice or a reference named before it is passed), and a
        resolver that sees through those names."""
        st = hir.stmts_of(tbl[v]["body"])
        R = hir.Resolver(tbl[v]["body"])

        def view_let(x):
            x = hir.simp(x)
            if not (x.get("k") == "let" and x["pat"].get("k") == "pbind" and "init" in x and "els" not in x):
                return False
            return not any(n_.get("k") in ("call", "assign", "assignop", "closure", "match", "if", "loop") for n_ in hir.walk(x["init"]))
        # (such a name must be taken after the pending parameter was pushed: a copy of `ignoring` from before the push would be stale)
        keep = [x for x in st if not view_let(x)]
        first_view = next((i for i, x in enumerate(st) if view_let(x)), None)
        stale = first_view is not None and any(is_push_pending(x) for x in st[first_view + 1:]) and \
            any("ignoring" in hirpp.expr(hir.simp(x)["init"]) for x in st if view_let(x))
        return keep, R, stale
    for v, meth in (("Hook", "hook"), ("CsiDispatch", "csi_dispatch")):
        s, R_, stale = arm_view(v)
        a = perform_call(s[-1], meth) if s else None
        a = [R_.res(hir.peel(x)) for x in a] if a else a
        okargs = a and len(a) == 4 and is_params(a[0]) and is_inter(a[1]) and is_ign(a[2]) and is_byte(a[3]) and not stale
        okpush = len(s) == 2 and is_push_pending(s[0])
        chk(v, okargs and okpush,
            f"{v} → push the pending parameter (or set ignoring when full), then performer.{meth}(params, intermediates, ignoring, byte)")
    s, R_, stale = arm_view("EscDispatch")
    a = perform_call(s[-1], "esc_dispatch") if s else None
    a = [R_.res(hir.peel(x)) for x in a] if a else a
    chk("EscDispatch", a and len(a) == 3 and is_inter(a[0]) and is_ign(a[1]) and is_byte(a[2])
        and len(s) == 1, "EscDispatch → performer.esc_dispatch(intermediates, ignoring, byte)")
    s = hir.stmts_of(tbl["OscEnd"]["body"])
    l = hir.simp(s[-1]) if s else {}
    chk("OscEnd", hir.is_call(l, P + "osc_dispatch") and [hir.local_name(x) for x in l["args"]] == ["self", "performer", "byte"],
        "OscEnd → finish the last parameter then self.osc_dispatch(performer, byte)")
    l = last_stmt("BeginUtf8")
    chk("BeginUtf8", hir.is_call(l, P + "process_utf8") and [hir.local_name(x) for x in l["args"]] == ["self", "performer", "byte"]
        and len(hir.stmts_of(tbl["BeginUtf8"]["body"])) == 1, "BeginUtf8 → self.process_utf8(performer, byte)")
    for v in ("Ignore", "Nop"):
        body = [x for x in hir.stmts_of(tbl[v]["body"]) if not (hir.simp(x).get("k") == "tuple" and not hir.simp(x)["es"])]
        chk(v, not body, f"{v} does nothing")
    # arms that must not call the performer at all
    for v in ("OscStart", "OscPut", "Collect", "Param", "Clear"):
        calls = [n for n in hir.walk(tbl[v]["body"]) if n.get("k") == "call" and "Perform::" in hir.callee_decl(n)]
        chk(v, not calls, f"{v} is bookkeeping only: no Perform callback")
    # and no arm calls a Perform method other than its own
    own = {"Print": "print", "Execute": "execute", "Put": "put", "Unhook": "unhook", "Hook": "hook",
           "CsiDispatch": "csi_dispatch", "EscDispatch": "esc_dispatch"}
    for v, a in tbl.items():
        for n in hir.walk(a["body"]):
            if n.get("k") == "call" and "anstyle_parse::Perform::" in hir.callee_decl(n):
                meth = hir.callee_decl(n).split("::")[-1]
                if own.get(v) != meth:
                    rep.bad("action-map", b["path"], f"arm:{v}:foreign-callback", f"arm {v} calls Perform::{meth}", loc(b, n))


def top_match(b, scrut_local):
    m = hir.simp(b["hir"])
    while m.get("k") == "block":
        s = hir.stmts_of(m)
        if len(s) != 1:
            raise Unrecognised(f"{b['path']}: expected a single top-level match")
        m = hir.simp(s[0])
    if not (m.get("k") == "match" and hir.is_local(m["scrut"], scrut_local)):
        raise Unrecognised(f"{b['path']}: top-level match on `{scrut_local}` not found")
    return m


def is_push_pending(s):
    """if self.params.is_full() { self.ignoring = true } else { self.params.push(self.param) }"""
    s = hir.simp(s)
    if s.get("k") != "if" or "e" not in s:
        return False
    c = hir.simp(s["c"])
    if not (hir.is_call(c, "Params::is_full") and self_field(c["args"][0], "params")):
        return False
    t, e = hir.stmts_of(s["t"]), hir.stmts_of(s["e"])
    okt = len(t) == 1 and t[0].get("k") == "assign" and self_field(t[0]["l"], "ignoring") and hir.lit_val(t[0]["r"]) is True
    oke = (len(e) == 1 and hir.is_call(e[0], "Params::push") and self_field(e[0]["args"][0], "params")
           and self_field(e[0]["args"][1], "param"))
    return okt and oke


def frame_is(f, val, test):
    return f.get("kind") == "if" and f["val"] == val and test(f["expr"])


def rule_guards(facts, rep):
    b = facts.body(cp.CRATE, P + "perform_action")

    def is_full_test(e):
        e = hir.simp(e)
        return hir.is_call(e, "Params::is_full") and self_field(e["args"][0], "params")

    # (a) every Params::push / extend in the crate (outside params.rs itself) is under !is_full with no
    #     intervening mutation of self.params
    n_sites = 0
    for body in facts.bodies(cp.CRATE):
        if "hir" not in body:
            continue
        sites = hir.visit_with_conds(body["hir"], lambda n: hir.is_call(n, "Params::push", "Params::extend"))
        for n, frames in sites:
            n_sites += 1
            guarded = any(frame_is(f, False, is_full_test) for f in frames)
            # between guard and use: no other push/extend on the same path (structural: guard frame is the
            # innermost enclosing/preceding test; a second push in the same block after the first is caught here)
            meth = hir.callee(n).split("::")[-1]
            rep.check(guarded and body["path"] == b["path"], "guards", body["path"], f"{meth}@{arm_of(frames)}",
                      f"Params::{meth} must be reached only on the !self.params.is_full() path (32-parameter limit; "
                      f"otherwise the fixed arrays overflow)", loc(body, n))
    # each guarded region contains exactly one push/extend per path: check that no block has two pushes in sequence
    m = top_match(b, "action")
    tbl, _ = arms_by_variant(m, cp.ACTION)
    for v, a in tbl.items():
        for blk in [n for n in hir.walk(a["body"]) if n.get("k") == "block"]:
            pushes = [s for s in hir.stmts_of(blk) if hir.is_call(hir.simp(s), "Params::push", "Params::extend")]
            if len(pushes) > 1:
                rep.bad("guards", b["path"], f"double-push@{v}", "two pushes after one is_full test", loc(b, blk))
    # (b) the true edge of each is_full guard sets ignoring
    for v in ("Hook", "CsiDispatch", "Param"):
        ifs = [n for n in hir.walk(tbl[v]["body"]) if n.get("k") == "if" and is_full_test(n["c"])]
        ok = len(ifs) == 1
        if ok:
            t = hir.stmts_of(ifs[0]["t"])
            ok = (t and t[0].get("k") == "assign" and self_field(t[0]["l"], "ignoring") and hir.lit_val(t[0]["r"]) is True)
            if v == "Param":
                ok = ok and len(t) == 2 and hir.simp(t[1]).get("k") == "ret"
        rep.check(ok, "guards", b["path"], f"overflow-sets-ignoring@{v}",
                  "when the parameter list is full the overflow flag is set (and Param returns without touching anything)", loc(b, tbl[v]))
    # (c) intermediates store under intermediate_idx != MAX_INTERMEDIATES
    def inter_full(e):
        e = hir.simp(e)
        return (e.get("k") == "bin" and e["op"] == "Eq" and self_field(e["l"], "intermediate_idx")
                and hir.is_def(e["r"], "anstyle_parse::MAX_INTERMEDIATES"))

    def is_store_to(n, field):
        if n.get("k") not in ("assign", "assignop"):
            return False
        l = hir.simp(n["l"])
        return l.get("k") == "index" and self_field(l["e"], field)

    # (c)/(d) the bounded arrays: every index into self.intermediates / self.osc_params inside perform_action is proved in
    # bounds by the interval engine (path refinements from `==`/`!=` tests and match arms, on top of the inductive invariants
    # intermediate_idx in 0..=2 and osc_num_params in 0..=16, each store of which is proved to preserve them) — whatever the
    # arms look like: three-way match, `if idx == MAX { return }`, a shared tail
    import panics
    from rules import C04
    consts = C04.consts_of(facts, [cp.CRATE])
    cx = panics.Ctx(b, consts, {}, C04.FIELD_INV)
    n_idx = {"intermediates": 0, "osc_params": 0}
    for h in panics.hir_sites(b["hir"]):
        n = h["node"]
        if h["kind"] not in ("BoundsCheck",) or n.get("k") != "index":
            continue
        fld = [f for f in ("intermediates", "osc_params") if self_field(n["e"], f)]
        if not fld:
            continue
        n_idx[fld[0]] += 1
        try:
            d = C04.discharge(h, cx, b)
        except (Unrecognised, KeyError, TypeError, IndexError):
            d = None
        is_store = any(x.get("k") == "assign" and hir.simp(x["l"]) is n for x in hir.walk(b["hir"]))
        rep.check(d is not None, "guards", b["path"], f"{fld[0]}-{'store' if is_store else 'read'}@{arm_of(h['frames'])}:{hirpp.expr(n['i'])[:40]}".replace(" ", "_"),
                  f"self.{fld[0]}[{hirpp.expr(n['i'])[:40]}] must be provably inside the array ({'the limit of ' + ('2 intermediates' if fld[0] == 'intermediates' else '16 OSC parameters')}): "
                  f"{d[1] if d else 'no proof — the guard against the limit is missing or too weak'}", loc(b, n))
    checked_access = [n for n in hir.walk(b["hir"]) if n.get("k") == "call" and hir.callee(n).split("::")[-1] in ("get", "get_mut") and n.get("args")
                      and self_field(hir.peel(hir.simp(n["args"][0])), "intermediates")]
    rep.check((n_idx["intermediates"] >= 1 or checked_access) and n_idx["osc_params"] >= 2, "guards", b["path"], "bounded-array-sites",
              f"{n_idx}, checked accesses to intermediates: {len(checked_access)}", loc(b))
    for n in hir.walk(b["hir"]):
        if n.get("k") in ("assign", "assignop") and (self_field(n["l"], "intermediate_idx") or self_field(n["l"], "osc_num_params")):
            fld = "intermediate_idx" if self_field(n["l"], "intermediate_idx") else "osc_num_params"
            lo, hi = C04.FIELD_INV[("anstyle_parse::Parser", fld)]
            frames = [fr for (x, fr) in hir.visit_with_conds(b["hir"], lambda x: x is n)]
            refine = panics.refinements(frames[0] if frames else [], cx, n)
            rv = panics.interval(n["r"], cx, refine, at=n)
            iv = rv
            if n["k"] == "assignop":
                cur = panics.interval(n["l"], cx, refine, at=n)
                iv = (cur[0] + rv[0], cur[1] + rv[1]) if (cur and rv and n["op"] == "AddAssign") else None
            rep.check(iv is not None and lo <= iv[0] and iv[1] <= hi, "guards", b["path"],
                      f"{fld}-stays-within-{hi}@{arm_of(frames[0] if frames else [])}:{hirpp.expr(n)[:40]}".replace(" ", "_"),
                      f"{fld} is only advanced below its limit {hi}: stored value in {iv}", loc(b, n))
    # the Collect arm by abstract evaluation for each value of the counter: below the limit the byte is stored at the counter's
    # slot and the counter advances; at the limit nothing is stored and the overflow flag is set — an `if idx == MAX`, a checked
    # `get_mut`, a match on the counter all evaluate alike
    import abseval
    ok, why = True, ""
    lim = C04.FIELD_INV[("anstyle_parse::Parser", "intermediate_idx")][1]
    for idx in range(0, lim + 1):
        stored, asked = [], []

        def checked(a_, asked=asked):
            asked.append(a_[1])
            return ("some", ("slot", a_[1])) if a_[1][0] == "int" and a_[1][1] < lim else ("none",)
        ev = abseval.Evaluator(facts, cp.CRATE, {"store:self.intermediates": lambda a_, stored=stored: stored.append((a_[0], a_[1])),
                                                 "core::slice::<impl [T]>::get_mut": checked})
        env = abseval.Env()
        env.update({"self": ("sym", "self"), "self.intermediate_idx": ("int", idx), "self.intermediates": ("sym", "intermediates"),
                    "self.ignoring": ("sym", "ignoring-before"), "byte": ("sym", "byte"), "performer": ("sym", "performer")})
        try:
            try:
                ev.ev(tbl["Collect"]["body"], env)
            except abseval.Return:
                pass
            via_slot = [(asked[0], v) for (k_, v) in ev.stores if not str(k_).startswith("self.") and v == ("sym", "byte") and len(asked) == 1]
            writes = stored + via_slot
            if idx < lim:
                good = writes == [(("int", idx), ("sym", "byte"))] and env["self.intermediate_idx"] == ("int", idx + 1) and env["self.ignoring"] == ("sym", "ignoring-before")
            else:
                good = not writes and env["self.intermediate_idx"] == ("int", idx) and env["self.ignoring"] == ("bool", True)
            if not good:
                ok, why = False, f"counter {idx}: writes {writes}, counter becomes {env['self.intermediate_idx']}, ignoring {env['self.ignoring']}"
        except Unrecognised as ex:
            ok, why = False, f"counter {idx}: not evaluable: {ex}"
    rep.check(ok, "guards", b["path"], "collect-overflow-sets-ignoring",
              f"a third intermediate sets the overflow flag and is dropped; otherwise it is stored at the counter and the counter advances {why}", loc(b, tbl["Collect"]))
    rep.count(n_sites)


def arm_of(frames):
    for f in frames:
        if f.get("kind") == "arm" and hir.pat_path(f["pat"]) and hir.pat_path(f["pat"]).startswith(cp.ACTION):
            return hir.pat_path(f["pat"]).split("::")[-1]
    return "-"


def arm_index(frames):
    idx = [str(f["index"]) for f in frames if f.get("kind") == "arm"]
    return ".".join(idx[1:]) if len(idx) > 1 else "0"


def rule_reset(facts, rep):
    b = facts.body(cp.CRATE, P + "perform_action")
    m = top_match(b, "action")
    tbl, _ = arms_by_variant(m, cp.ACTION)
    st = facts.item(cp.CRATE, "anstyle_parse::Parser", "Struct")
    fields = [f["name"] for f in st["variants"][0]["fields"]]
    # Clear: zero all of intermediate_idx, ignoring, param; params.clear()
    zeroed = {}
    for s in hir.stmts_of(tbl["Clear"]["body"]):
        s = hir.simp(s)
        if s.get("k") == "assign":
            l = hir.peel(s["l"])
            if l.get("k") == "field" and hir.is_local(l["e"], "self"):
                zeroed[l["name"]] = hir.lit_val(s["r"])
        elif hir.is_call(s, "Params::clear") and self_field(s["args"][0], "params"):
            zeroed["params"] = "clear"
    want = {"intermediate_idx": 0, "ignoring": False, "param": 0, "params": "clear"}
    for f, v in want.items():
        rep.check(zeroed.get(f) == v and type(zeroed.get(f)) == type(v), "reset", b["path"], f"Clear:{f}",
                  f"Clear must reset {f} (got {zeroed.get(f)!r})", loc(b, tbl["Clear"]))
    # OscStart: osc_raw.clear(), osc_num_params = 0
    got = {}
    for s in hir.stmts_of(tbl["OscStart"]["body"]):
        s = hir.simp(s)
        if s.get("k") == "assign" and self_field(s["l"], "osc_num_params"):
            got["osc_num_params"] = hir.lit_val(s["r"])
        if hir.is_call(s, "clear") and self_field(s["args"][0], "osc_raw"):
            got["osc_raw"] = "clear"
    for f, v in {"osc_raw": "clear", "osc_num_params": 0}.items():
        rep.check(got.get(f) == v, "reset", b["path"], f"OscStart:{f}", f"OscStart must reset {f}", loc(b, tbl["OscStart"]))
    # coverage: every field is reset by one of them, or is (a) state itself, (b) data only readable below a reset
    # counter (intermediates < intermediate_idx, osc_params < osc_num_params), (c) the utf8 accumulator
    covered = set(want) | {"osc_raw", "osc_num_params"}
    exempt = {"state": "assigned by every transition", "intermediates": "read only below intermediate_idx",
              "osc_params": "read only below osc_num_params", "utf8_parser": "self-resetting accumulator (utf8parse)"}
    unknown = [f for f in fields if f not in covered and f not in exempt]
    rep.check(not unknown, "reset", "anstyle_parse::Parser", "field-coverage",
              f"fields of Parser not covered by Clear/OscStart and not exempt: {unknown} — a new bookkeeping field must be "
              f"reset on ESC/CSI/DCS entry or it survives CAN/SUB", f"{st['file']}:{st['ln']}")
    # Params::clear zeroes len and current_subparams
    pc = facts.body(cp.CRATE, "anstyle_parse::params::Params::clear")
    z = {}
    for s in hir.stmts_of(pc["hir"]):
        s = hir.simp(s)
        if s.get("k") == "assign":
            l = hir.peel(s["l"])
            if l.get("k") == "field" and hir.is_local(l["e"], "self"):
                z[l["name"]] = hir.lit_val(s["r"])
    rep.check(z == {"current_subparams": 0, "len": 0}, "reset", pc["path"], "zeroes-len-and-subparams", f"{z}", loc(pc))
    # intermediates() exposes exactly the prefix below intermediate_idx
    if not facts.crate(cp.CRATE)["_bodies"].get(P + "intermediates"):
        # the accessor written in place at its call sites: the dispatch arms' own argument check (action-map, is_inter) reads the slice
        rep.ok("reset", P + "perform_action", "prefix-below-idx", "no accessor: the dispatch arms pass &self.intermediates[..self.intermediate_idx] themselves")
        rep.fn(pc["path"])
        return
    bi = facts.body(cp.CRATE, P + "intermediates")
    idx = [n for n in hir.walk(bi["hir"]) if n.get("k") == "index"]
    ok = False
    if len(idx) == 1 and self_field(idx[0]["e"], "intermediates"):
        r = hir.simp(idx[0]["i"])
        ok = (r.get("k") == "struct" and hir.last_seg(r["path"].get("path")) == "RangeTo"
              and self_field(r["fields"][0]["e"], "intermediate_idx"))
    rep.check(ok, "reset", bi["path"], "prefix-below-idx", "intermediates() = &self.intermediates[..self.intermediate_idx]", loc(bi))
    rep.fn(bi["path"])
    rep.fn(pc["path"])


def rule_limits(facts, rep):
    for path, val in (("anstyle_parse::params::MAX_PARAMS", 32), ("anstyle_parse::MAX_INTERMEDIATES", 2),
                      ("anstyle_parse::MAX_OSC_PARAMS", 16)):
        it = facts.item(cp.CRATE, path, "Const")
        rep.check(it.get("value") == val, "limits", path, f"=={val}", f"documented limit {val}, found {it.get('value')}",
                  f"{it['file']}:{it['ln']}")
    p = facts.item(cp.CRATE, "anstyle_parse::params::Params", "Struct")
    ft = {f["name"]: f["ty"] for f in p["variants"][0]["fields"]}
    rep.check(ft.get("params") in ("[u16; 32]", "[u16; MAX_PARAMS]") and ft.get("subparams") in ("[u8; 32]", "[u8; MAX_PARAMS]"), "limits", p["path"], "array-sizes",
              f"{ft}", f"{p['file']}:{p['ln']}")
    ps = facts.item(cp.CRATE, "anstyle_parse::Parser", "Struct")
    ft = {f["name"]: f["ty"] for f in ps["variants"][0]["fields"]}
    rep.check(ft.get("intermediates") in ("[u8; 2]", "[u8; MAX_INTERMEDIATES]") and ft.get("osc_params") in ("[(usize, usize); 16]", "[(usize, usize); MAX_OSC_PARAMS]") and ft.get("param") == "u16",
              "limits", ps["path"], "array-sizes", f"{ft}", f"{ps['file']}:{ps['ln']}")
    # is_full is `len == MAX_PARAMS`
    b = facts.body(cp.CRATE, "anstyle_parse::params::Params::is_full")
    e = hir.simp(b["hir"])
    while e.get("k") == "block":
        e = hir.simp(hir.stmts_of(e)[0])
    rep.check(e.get("k") == "bin" and e["op"] == "Eq" and self_field(e["l"], "len") and hir.is_def(e["r"], "MAX_PARAMS"),
              "limits", b["path"], "len==MAX_PARAMS", "", loc(b))
    # Param arm: saturating accumulation, ';' → push, ':' → extend, then param = 0
    pa = facts.body(cp.CRATE, P + "perform_action")
    m = top_match(pa, "action")
    tbl, _ = arms_by_variant(m, cp.ACTION)
    body = tbl["Param"]["body"]
    sites = hir.visit_with_conds(body, lambda n: n.get("k") == "call" and hir.callee(n).split("::")[-1] in
                                 ("push", "extend", "saturating_mul", "saturating_add", "wrapping_mul", "wrapping_add",
                                  "checked_mul", "checked_add") or (n.get("k") in ("bin", "assignop") and n.get("op") in ("Mul", "Add")
                                                                     and n.get("ty") == "u16"))

    def byte_class(frames):
        """Which byte class the path conditions select: ';' / ':' / anything else (digit), for if-chains and matches on `byte`."""
        is_v = {59: None, 58: None}   # value -> True (equal) / False (different) / None (unknown)
        for f in frames:
            if f.get("kind") == "if":
                e = hir.simp(f["expr"])
                if e.get("k") == "bin" and e["op"] in ("Eq", "Ne") and hir.is_local(e["l"], "byte") and hir.lit_val(e["r"]) in is_v:
                    eq = (e["op"] == "Eq") == f["val"]
                    is_v[hir.lit_val(e["r"])] = eq
            elif f.get("kind") == "arm" and hir.is_local(f["scrut"], "byte"):
                try:
                    mine = hir.pat_ints(f["pat"])
                    prior = [hir.pat_ints(p) for p in f["prior"]]
                except Unrecognised:
                    return "?"
                for v in is_v:
                    if mine is not None:
                        is_v[v] = (mine == {v}) if v in mine or len(mine) == 1 else is_v[v]
                        if v not in mine:
                            is_v[v] = False
                    elif any(p is not None and v in p for p in prior):
                        is_v[v] = False
        if is_v[59] is True:
            return "semi"
        if is_v[58] is True and is_v[59] is not True:
            return "colon"
        if is_v[59] is False and is_v[58] is False:
            return "digit"
        return "?"

    got = {}
    for n, frames in sites:
        name = hir.callee(n).split("::")[-1] if n.get("k") == "call" else n.get("op")
        got.setdefault(byte_class(frames), []).append((name, n))
    ok_semi = [x[0] for x in got.get("semi", [])] == ["push"]
    ok_colon = [x[0] for x in got.get("colon", [])] == ["extend"]
    dig = got.get("digit", [])
    ok_digit = [x[0] for x in dig] == ["saturating_mul", "saturating_add"]
    if ok_digit:
        mul, add = dig[0][1], dig[1][1]
        ok_digit = ("core::num::<impl u16>::saturating_mul" == hir.callee(mul) and self_field(mul["args"][0], "param")
                    and hir.lit_val(mul["args"][1]) == 10 and hir.callee(add) == "core::num::<impl u16>::saturating_add"
                    and self_field(add["args"][0], "param"))
        if ok_digit:
            d = hir.simp(add["args"][1])
            ok_digit = (d.get("k") == "cast" and d.get("ty") == "u16")
            if ok_digit:
                sub = hir.simp(d["e"])
                ok_digit = sub.get("k") == "bin" and sub["op"] == "Sub" and hir.is_local(sub["l"], "byte") and hir.lit_val(sub["r"]) == 0x30
    rep.check(ok_semi, "limits", pa["path"], "Param:';'→push", f"{[x[0] for x in got.get('semi', [])]}", loc(pa, body))
    rep.check(ok_colon, "limits", pa["path"], "Param:':'→extend", f"{[x[0] for x in got.get('colon', [])]}", loc(pa, body))
    # the digit case by symbolic evaluation of the arm: with byte neither ';' nor ':' and room in the list, param becomes
    # param.saturating_mul(10).saturating_add((byte - b'0') as u16) — in two statements or one
    import abseval
    digit_results = []
    sep_results = []

    def run(choices):
        calls = []
        ev = abseval.Evaluator(facts, cp.CRATE, {
            "anstyle_parse::params::Params::is_full": lambda a: ("bool", ev.oracle(("params", "full"))),
            "anstyle_parse::params::Params::push": lambda a: (calls.append(("push", a[1])), ("unit",))[1],
            "anstyle_parse::params::Params::extend": lambda a: (calls.append(("extend", a[1])), ("unit",))[1],
            "core::num::<impl u16>::saturating_mul": lambda a: ("smul", a[0], a[1]),
            "core::num::<impl u16>::saturating_add": lambda a: ("sadd", a[0], a[1])})
        ev.choices = choices
        env = abseval.Env()
        env["byte"] = ("sym", "b")
        env["self.param"] = ("sym", "p")
        env["self.ignoring"] = ("sym", "ign")
        env["self.params"] = ("sym", "params")
        try:
            ev.ev(tbl["Param"]["body"] if "Param" in tbl else body, env)
        except abseval.Return:
            pass
        return env["self.param"], calls
    try:
        for choices, (fin, calls_) in abseval.explore(run):
            if choices.get(("params", "full")) is not False:
                continue
            if choices.get(("b", ("int", 59))) is True:
                sep_results.append(("semi", fin, calls_))
            elif choices.get(("b", ("int", 58))) is True:
                sep_results.append(("colon", fin, calls_))
            if choices.get(("b", ("int", 59))) is False and choices.get(("b", ("int", 58))) is False:
                digit_results.append(fin)
        want_digit = ("sadd", ("smul", ("sym", "p"), ("int", 10)), ("bin", "Sub", ("sym", "b"), ("int", 48)))
        ok_digit = bool(digit_results) and all(r == want_digit for r in digit_results)
    except Unrecognised:
        pass          # keep the structural verdict computed above
    rep.check(ok_digit and "?" not in got, "limits", pa["path"], "Param:digit→saturating",
              f"param = param.saturating_mul(10).saturating_add((byte - b'0') as u16) — values saturate at 65535; got "
              f"{[x[0] for x in dig]}", loc(pa, body))
    # a separator hands the accumulated value to push / extend and leaves param at 0 (in whichever order: `push(p); p = 0` or
    # `let v = mem::take(&mut p); push(v)`)
    zero_after = sum(1 for kind, fin, calls_ in sep_results
                     if fin == ("int", 0) and calls_ == [("push" if kind == "semi" else "extend", ("sym", "p"))])
    if len(sep_results) != 2:
        zero_after = -len(sep_results)
    rep.check(zero_after == 2, "limits", pa["path"], "Param:zero-after-separator", f"{zero_after} of 2", loc(pa, body))


def rule_params(facts, rep):
    """push/extend/clear are the only writers of Params' fields; push ends a group, extend continues it."""
    writers = {}
    for body in facts.bodies(cp.CRATE):
        if "hir" not in body or body.get("expn"):
            continue
        for n in hir.walk(body["hir"]):
            if n.get("k") in ("assign", "assignop"):
                l = hir.simp(n["l"])
                base = l["e"] if l.get("k") == "index" else l
                base = hir.peel(base)
                if base.get("k") == "field" and base["name"] in ("subparams", "params", "current_subparams", "len") and \
                        hir.is_local(base["e"], "self") and body.get("impl_self") == "anstyle_parse::params::Params":
                    writers.setdefault(body["path"].split("::")[-1], set()).add(base["name"])
    rep.check(set(writers) == {"push", "extend", "clear"}, "params", "anstyle_parse::params::Params", "who-may-write",
              f"writers of Params fields: {sorted(writers)} (struct fields are private; only these may mutate)", "")
    st = facts.item(cp.CRATE, "anstyle_parse::params::Params", "Struct")
    priv = all("Restricted" in f["vis"] for f in st["variants"][0]["fields"])
    rep.check(priv, "params", st["path"], "fields-private", "", f"{st['file']}:{st['ln']}")
    import abseval
    import poly
    L, S, I = ("sym", "len"), ("sym", "cur"), ("sym", "item")

    def same(t, want):
        try:
            return poly.of_term(t) == poly.of_term(want)
        except Unrecognised:
            return False
    for meth, want_cur in (("push", ("int", 0)), ("extend", ("bin", "Add", S, ("int", 1)))):
        b = facts.body(cp.CRATE, f"anstyle_parse::params::Params::{meth}")
        rep.fn(b["path"])
        stores = []
        ev = abseval.Evaluator(facts, cp.CRATE, {
            "store:self.subparams": lambda a: stores.append(("subparams", a[0], a[1])),
            "store:self.params": lambda a: stores.append(("params", a[0], a[1])),
            "AddAssign": lambda a: ("bin", "Add", a[0], a[1]),
        })
        env = abseval.Env()
        env.update({"self.len": L, "self.current_subparams": S, b["params"][1].get("name", "item"): I})
        d, ok = "", False
        try:
            try:
                ev.ev(b["hir"], env)
            except abseval.Return:
                pass
            ok0 = [x for x in stores if x[0] == "subparams"]
            ok1 = [x for x in stores if x[0] == "params"]
            h = len(ok0) == 1 and same(ok0[0][1], ("bin", "Sub", L, S)) and same(ok0[0][2], ("bin", "Add", S, ("int", 1)))
            st = len(ok1) == 1 and same(ok1[0][1], L) and ok1[0][2] == I
            cur = same(env["self.current_subparams"], want_cur)
            ln = same(env["self.len"], ("bin", "Add", L, ("int", 1)))
            ok = h and st and cur and ln
            d = f"group-head={h} store={st} subparams={cur} len+1={ln}"
        except Unrecognised as u:
            d = f"not evaluable: {u}"
        rep.check(ok, "params", b["path"], "shape",
                  f"{meth}: with len=L, current_subparams=S on entry: subparams[L-S] = S+1, params[L] = item, current_subparams = "
                  f"{'0' if meth == 'push' else 'S+1'}, len = L+1 — decided by abstract evaluation, offsets compared as polynomials ({d})", loc(b))
    # iterator: yields params[index..index+subparams[index]] and advances by that
    b = facts.body(cp.CRATE, "<anstyle_parse::params::ParamsIter<'a> as core::iter::traits::iterator::Iterator>::next")
    rep.fn(b["path"])
    X, N, K = ("sym", "index"), ("sym", "n"), ("sym", "k")
    cases = []

    def run_next(choices):
        loads = []

        def load_sub(a):
            loads.append(a[0])
            return K
        ev = abseval.Evaluator(facts, cp.CRATE, {
            "anstyle_parse::params::Params::len": lambda a: N,
            "ord": lambda a: ("bool", ev.oracle(("ord",) + tuple(a))),
            "load:self.params.subparams": load_sub,
            "load:self.params.params": lambda a: ("slice", a[0]),
            "AddAssign": lambda a: ("bin", "Add", a[0], a[1]),
        })
        ev.choices = choices
        env = abseval.Env()
        env.update({"self.index": X, "self.params": ("sym", "params")})
        try:
            out = ev.ev(b["hir"], env)
        except abseval.Return as r:
            out = r.v
        return out, env["self.index"], loads
    try:
        for choices, res in abseval.explore(run_next):
            cases.append((choices, res))
    except Unrecognised as u:
        cases = [("not evaluable", str(u))]
    ok_guard = ok_rng = ok_adv = False
    if len(cases) == 2 and all(isinstance(c[0], dict) and len(c[0]) == 1 for c in cases):
        for choices, (out, idx, loads) in cases:
            (key, taken), = choices.items()
            op, l, r = key[1], key[2], key[3]
            # normalise the comparison to "index >= n"
            at_end = {("Ge", X, N): taken, ("Lt", X, N): not taken, ("Le", N, X): taken, ("Gt", N, X): not taken}.get((op, l, r))
            if at_end is True:
                ok_guard = out == ("none",) and idx == X
            elif at_end is False:
                end = ("bin", "Add", X, K)
                ok_rng = (out[0] == "some" and out[1][0] == "slice" and out[1][1][0] == "rec" and loads and all(same(x, X) for x in loads)
                          and same(out[1][1][1].get("start"), X) and same(out[1][1][1].get("end"), end))
                ok_adv = same(idx, end)
    d = "" if len(cases) == 2 else f"{cases}"[:200]
    rep.check(ok_guard, "params", b["path"], "end-guard", "returns None (index unchanged) when index >= len " + d, loc(b))
    rep.check(ok_rng, "params", b["path"], "slice-is-group", "yields params[index .. index + subparams[index]] (abstract evaluation; bounds as polynomials)", loc(b))
    rep.check(ok_adv, "params", b["path"], "advance-by-group", "index becomes index + subparams[index]", loc(b))
    rep.check(True, "params", "anstyle_parse::params", "checked", "")


def rule_utf8(facts, rep):
    b = facts.body(cp.CRATE, P + "process_utf8")
    rep.fn(b["path"])
    import abseval
    ok, why = True, ""
    for complete in (True, False):
        calls = []
        ev = abseval.Evaluator(facts, cp.CRATE, {
            "anstyle_parse::CharAccumulator::add": lambda a_, complete=complete: (calls.append(("add", list(a_))), ("some", ("sym", "c")) if complete else ("none",))[1],
            "anstyle_parse::Perform::print": lambda a_: (calls.append(("print", list(a_))), ("unit",))[1],
        })
        env = abseval.Env()
        env.update({"self": ("sym", "self"), "self.utf8_parser": ("sym", "acc"), "self.state": ("enum", cp.STATE + "::Utf8"),
                    b["params"][1]["name"]: ("sym", "performer"), b["params"][2]["name"]: ("sym", "byte")})
        try:
            try:
                ev.ev(b["hir"], env)
            except abseval.Return:
                pass
            want_calls = [("add", [("sym", "acc"), ("sym", "byte")])] + ([("print", [("sym", "performer"), ("sym", "c")])] if complete else [])
            want_state = ("enum", cp.STATE + ("::Ground" if complete else "::Utf8"))
            if calls != want_calls or env["self.state"] != want_state:
                ok, why = False, f"accumulator {'completes' if complete else 'needs more'}: calls {calls}, state {env['self.state']}"
        except Unrecognised as ex:
            ok, why = False, f"not evaluable: {ex}"
    rep.check(ok, "utf8", b["path"], "print-on-complete-then-ground",
              f"the byte goes to the accumulator; a completed character is printed once and the state returns to Ground, otherwise nothing else happens {why}"[:300], loc(b))
    # who reaches process_utf8: only advance (state Utf8) and the BeginUtf8 arm
    callers = set()
    for body in facts.bodies(cp.CRATE):
        if "hir" in body:
            for n in hir.walk(body["hir"]):
                if hir.is_call(n, P + "process_utf8"):
                    callers.add(body["path"].split("::")[-1])
    rep.check(callers == {"advance", "perform_action"}, "utf8", b["path"], "callers", f"{sorted(callers)}", loc(b))
    # the table yields BeginUtf8 exactly with target Utf8 (so the accumulator is entered iff the state says so)
    _, rows = cp.table(facts)
    bad = []
    for si in range(16):
        for byte in range(256):
            ns, act = cp.effective_cell(rows, si, byte) if si not in (0, 15) else (rows[si][byte] & 15, rows[si][byte] >> 4)
            if (vt500.ACTIONS[act] == "BeginUtf8") != (vt500.STATES[ns] == "Utf8"):
                bad.append((si, byte))
    rep.count(4096)
    rep.check(not bad, "utf8", "STATE_CHANGES", "BeginUtf8-iff-target-Utf8", f"{bad[:5]}", "")


def rule_osc_dispatch(facts, rep):
    b = facts.body(cp.CRATE, P + "osc_dispatch")
    rep.fn(b["path"])
    rep.check(b["sig"].startswith("fn(&anstyle_parse::Parser<C>,"), "osc", b["path"], "takes-&self",
              "osc_dispatch cannot modify the bookkeeping it reads", loc(b))
    # the initialising loop is bounded by .take(self.osc_num_params), the exposed prefix by the same field
    takes = [n for n in hir.walk(b["hir"]) if hir.is_call(n, "Iterator::take")]
    ok_take = len(takes) == 1 and self_field(takes[0]["args"][1], "osc_num_params")
    rep.check(ok_take, "osc", b["path"], "init-loop-bound", "slices are initialised for exactly osc_num_params entries", loc(b))
    lets = {}
    for n in hir.walk(b["hir"]):
        if n.get("k") == "let" and n["pat"].get("k") == "pbind" and "init" in n:
            lets[n["pat"]["name"]] = n["init"]
    rt = [n for n in hir.walk(b["hir"]) if n.get("k") == "struct" and hir.last_seg(n["path"].get("path")) == "RangeTo"]
    ok_prefix = False
    if len(rt) == 1:
        end = hir.simp(rt[0]["fields"][0]["e"])
        if end.get("k") == "local" and end["name"] in lets:
            end = lets[end["name"]]
        ok_prefix = self_field(end, "osc_num_params")
    rep.check(ok_prefix, "osc", b["path"], "exposed-prefix-bound", "the slice handed to the performer is slices[..osc_num_params]", loc(b))
    # each slice is osc_raw[indices.0 .. indices.1] with indices = osc_params[i]
    rng = [n for n in hir.walk(b["hir"]) if n.get("k") == "index" and self_field(n["e"], "osc_raw")]
    ok_rng = False
    if len(rng) == 1:
        r = hir.simp(rng[0]["i"])
        if r.get("k") == "struct" and hir.last_seg(r["path"].get("path")) == "Range":
            f = {x["name"]: hir.simp(x["e"]) for x in r["fields"]}
            ok_rng = (f["start"].get("k") == "field" and f["start"]["name"] == "0" and f["end"].get("k") == "field"
                      and f["end"]["name"] == "1" and hir.local_name(f["start"]["e"]) == hir.local_name(f["end"]["e"]))
    rep.check(ok_rng, "osc", b["path"], "slice-from-recorded-indices", "payload slice = osc_raw[begin..end] of the recorded pair", loc(b))
    # terminator kind: byte == 0x07
    calls = [n for n in hir.walk(b["hir"]) if hir.is_call(n, "Perform::osc_dispatch")]
    ok_bell = False
    if len(calls) == 1:
        a = hir.simp(calls[0]["args"][2])
        ok_bell = a.get("k") == "bin" and a["op"] == "Eq" and hir.is_local(a["l"], "byte") and hir.lit_val(a["r"]) == 7
    rep.check(ok_bell, "osc", b["path"], "bell-terminated-flag", "bell_terminated = (byte == 0x07)", loc(b))

MANIFEST = {
    "level": ("Sound static decision of the structural clauses of C02 for all inputs: the complete transition function "
              "(3584 effective cells + Anywhere/Utf8 rows) is compared with an independent VT500 specification; encoding, "
              "lookup order, action ordering, callback wiring, overflow guards, reset coverage and limits are decided on the "
              "type-checked HIR. This is the right level for a property whose truth is mostly a finite table plus wiring; "
              "whole-trace equality of callbacks is not claimed."),
    "note": ("Trusted: rustc front end and const evaluation; the specification table spec/vt500.py (written from vt100.net + "
             "the crate's documented deviations, independent of state/codegen.rs); the HIR idiom normaliser. Not decided: "
             "functional correctness of Params/ParamsIter index arithmetic and OSC slice bookkeeping beyond shape, UTF-8 "
             "decoding (utf8parse)."),
    "technique": "static analysis: const-evaluated table vs independent spec, case-wise path feasibility over the state/action enums (perform_state_change), abstract evaluation per parser state (advance, process_utf8), over opaque table cells (state_change) and over a symbolic entry state with offsets compared as polynomials (Params push/extend/next), the OSC bookkeeping arms for every parameter count 0..=16, interval proofs with inductive field invariants for the bounded arrays, match-table extraction, who-may-write",
}
