"""C13 — style, effects and colour values obey their algebra."""
import hir
import hirpp
from core import AnchorMissing, Unrecognised, loc
from rules import anstyle_common as ac
from spec import sgr

META = {
    "explanation": (
        "Complete static reading of the anstyle value types: the 12 Effects constants are the single bits 1<<0..1<<11 in "
        "declaration order; insert/remove/contains/is_plain/clear/set are normalised by bit-parallel evaluation of their "
        "expressions to per-bit truth tables (a|b, a&!b, b=>a, a==0, 0, ite) from which the set laws over 12 independent bits "
        "follow; operator impls resolve to those methods; both iterators have the bounded-scan shape (bound METADATA.len(), mask "
        "1<<index, step 1, yield on contains); every Style setter stores exactly its own field from its parameter and returns "
        "self, every getter returns its field, the 8 convenience methods insert the like-named constant, is_plain is the 4-way "
        "conjunction, PartialEq<Effects> compares with Style::new().effects(e); from_ansi/into_ansi are inverse bijections on "
        "0..=15 in declaration order, bright(true/false) keeps the hue and is idempotent, is_bright is the upper eight. All are "
        "finite tables or one-line bodies, so the static reading is complete for this property."),
    "exhaustive": True,
}

MANIFEST = {
    "level": ("Complete static decision: every clause of C13 is a finite table or a one-expression body, read from the "
              "type-checked program and compared with the algebraic specification (bit-level truth tables, field wiring, "
              "bijection tables). Nothing about this property depends on runtime quantities."),
    "note": "Trusted: rustc front end and const evaluation; the bit-parallel evaluator; spec/sgr.py for the colour order.",
    "technique": "static analysis: abstract evaluation of the Effects/Style operations to bit-vector terms decided against their laws on the all-0/all-1 assignments, colour tables as function values over their whole finite domain, case-split evaluation of the two iterators from every start index, field-wiring by evaluation on record values",
}

S = "anstyle::style::Style::"
E = "anstyle::effect::Effects::"
A, B, MASK = 0b1100, 0b1010, 0b1111


def bits(e, env):
    """Bit-parallel evaluation over the 4 combinations of one bit of `self` (A) and one bit of `other` (B)."""
    e = hir.simp(e)
    k = e.get("k")
    ps = hir.place_str(e)
    if ps in env:
        return env[ps]
    if k == "lit" and e.get("t") == "int" and e["v"] == 0:
        return 0
    if k == "def" and e["path"] == E + "PLAIN":
        return 0
    if k == "field" and e["name"] == "0":
        inner = hir.simp(e["e"])
        if inner.get("k") == "def" and inner["path"] == E + "PLAIN":
            return 0
    if k == "bin" and "callee" not in e:
        l, r = bits(e["l"], env), bits(e["r"], env)
        if e["op"] == "BitOr":
            return l | r
        if e["op"] == "BitAnd":
            return l & r
        if e["op"] == "BitXor":
            return l ^ r
    if k == "un" and e["op"] == "Not" and "callee" not in e:
        return ~bits(e["e"], env) & MASK
    raise Unrecognised(f"not a bit-parallel expression: {hirpp.expr(e)[:60]}")


def self_mut_result(body, env):
    """`mut self` method: apply the statements to self.0 and return the final value (tail must be `self`)."""
    st = hir.stmts_of(body["hir"])
    env = dict(env)
    for s in st[:-1]:
        s = hir.simp(s)
        if s.get("k") == "assignop" and hir.place_str(s["l"]) == "self.0":
            op = {"BitOrAssign": "BitOr", "BitAndAssign": "BitAnd", "BitXorAssign": "BitXor"}.get(s["op"])
            if op is None:
                raise Unrecognised(f"compound op {s['op']}")
            r = bits(s["r"], env)
            env["self.0"] = {"BitOr": env["self.0"] | r, "BitAnd": env["self.0"] & r, "BitXor": env["self.0"] ^ r}[op]
        elif s.get("k") == "assign" and hir.place_str(s["l"]) == "self.0":
            env["self.0"] = bits(s["r"], env)
        else:
            raise Unrecognised("statement other than an update of self.0")
    if not hir.is_local(st[-1], "self"):
        raise Unrecognised("tail is not `self`")
    return env["self.0"]


EFFT = "anstyle::effect::Effects"


def eff_val(name):
    """A symbolic Effects value: the newtype around the 16-bit symbol `name`."""
    return ("ctor", EFFT, ("sym", name))


def eff_bits(v):
    if isinstance(v, tuple) and v and v[0] == "ctor" and len(v) == 3:
        return v[2]
    raise Unrecognised(f"an Effects value was expected, found {str(v)[:80]}")


def run_fn(facts, path, args, atoms=None):
    """Abstractly evaluate a function of the anstyle crate (its callees inlined): (result, final values of the parameters)."""
    import abseval
    ev = abseval.Evaluator(facts, "anstyle", atoms or {})
    fin = []
    r = ev.call_fn("anstyle", path, list(args), final=fin)
    return r, fin


def eff_law(facts, rep, rule, b, args, syms, pick, want, key, text):
    """One Effects-valued function against a bitwise law, decided for all inputs (lib/bits.py)."""
    import bits as bv
    ok, why = False, ""
    try:
        r, fin = run_fn(facts, b["path"], args)
        t = eff_bits(pick(r, fin))
        ok = bv.same(t, want, syms)
        why = "" if ok else f"computed {str(t)[:120]}"
    except Unrecognised as ex:
        why = f"not evaluable: {ex}"
    rep.check(ok, rule, b["path"], key, f"{text} {why}", loc(b))


THOROUGH_CONFIGS = ["anstyle-nostd"]


def run(ctx):
    rep, facts = ctx.report, ctx.facts
    if ctx.tier == "thorough" and "anstyle-nostd" in ctx.configs:
        f2, r2 = ctx.configs["anstyle-nostd"], rep.scoped("anstyle-nostd")
        r2.guarded("consts", E, lambda: rule_consts(f2, r2))
        r2.guarded("bitwise", E, lambda: rule_bitwise(f2, r2))
        r2.guarded("operators", "anstyle", lambda: rule_operators(f2, r2))
        r2.guarded("iterators", "anstyle::effect", lambda: rule_iterators(f2, r2))
        r2.guarded("wiring", S, lambda: rule_wiring(f2, r2))
        r2.guarded("colour-tables", "anstyle::color", lambda: rule_colour_tables(f2, r2))
    rep.guarded("consts", E, lambda: rule_consts(facts, rep))
    rep.guarded("debug", E, lambda: rule_debug(facts, rep))
    rep.guarded("bitwise", E, lambda: rule_bitwise(facts, rep))
    rep.guarded("operators", "anstyle", lambda: rule_operators(facts, rep))
    rep.guarded("iterators", "anstyle::effect", lambda: rule_iterators(facts, rep))
    rep.guarded("wiring", S, lambda: rule_wiring(facts, rep))
    rep.guarded("colour-tables", "anstyle::color", lambda: rule_colour_tables(facts, rep))
    for r, n in (("consts", 13), ("bitwise", 7), ("operators", 9), ("iterators", 6), ("wiring", 21), ("colour-tables", 7), ("debug", 1)):
        rep.floor(r, n)


def rule_consts(facts, rep):
    cs = [(n, v, it) for n, v, it in ac.effect_consts(facts) if n != "PLAIN"]
    names = [n for n, _, _ in cs]
    rep.check(names == sgr.EFFECT_ORDER, "consts", E, "twelve-in-declaration-order", f"{names}", "")
    for i, (n, v, it) in enumerate(cs):
        rep.check(v == 1 << i, "consts", it["path"], f"=1<<{i}", f"{n} = {v}, expected single bit {1 << i}", f"{it['file']}:{it['ln']}")
        rep.count()
    plain = [v for n, v, _ in ac.effect_consts(facts) if n == "PLAIN"]
    # the private name for the empty set is optional (what `new()` returns is decided in the bitwise rule); if present it is 0
    rep.check(plain in ([0], []), "consts", E + "PLAIN", "=0", f"{plain}", "")
    st = facts.item("anstyle", "anstyle::effect::Effects", "Struct")
    rep.check([f["ty"] for f in st["variants"][0]["fields"]] == ["u16"], "consts", st["path"], "newtype-u16", "", f"{st['file']}:{st['ln']}")


def rule_bitwise(facts, rep):
    env = {"self.0": A, "other.0": B}
    for meth, want, law in (("insert", A | B, "a|b (union)"), ("remove", A & ~B & MASK, "a&!b (difference)")):
        b = facts.body("anstyle", E + meth)
        rep.fn(b["path"])
        fn = (lambda a, b_: a | b_) if meth == "insert" else (lambda a, b_: a & ~b_)
        eff_law(facts, rep, "bitwise", b, [eff_val("a"), eff_val("b")], ["a", "b"], lambda r, fin: r, fn, f"per-bit:{law}",
                f"{meth}(a, b) is {law} for all a, b (abstract evaluation to a bit-vector term, compared on the all-0/all-1 assignments)")
        rep.count(4)
    # the two predicates, by abstract evaluation: the function's result must be ONE comparison `l == r` (or `!=`, negated) of two
    # bit-vector terms — however it is reached (`(other & self) == other`, `other.remove(self).is_plain()`, a helper) — and that
    # comparison must hold exactly when the law does: per bit position, "the two sides agree" is the law's bit function
    import abseval
    import bits as bv

    def predicate(path, args):
        seen = []

        def cmp_(a_):
            op, l, r = a_
            if op not in ("Eq", "Ne"):
                return None
            seen.append((op, l, r))
            return ("sym", f"cmp{len(seen) - 1}")
        ev = abseval.Evaluator(facts, "anstyle", {"cmp": cmp_})
        r = ev.call_fn("anstyle", path, args)
        neg = False
        while r[0] == "not" or (r[0] == "bool-not"):
            r, neg = r[1], not neg
        if not (r[0] == "sym" and str(r[1]).startswith("cmp")):
            raise Unrecognised(f"the result is not a single comparison of bit sets ({str(r)[:60]})")
        op, l, r_ = seen[int(r[1][3:])]
        return l, r_, (op == "Eq") != neg
    mask = MASK

    def agree_table(l, r_, syms):
        out = {}
        for combo in __import__("itertools").product((0, mask), repeat=len(syms)):
            asg = dict(zip(syms, combo))
            out[combo] = ~(bv.value(l, asg, mask) ^ bv.value(r_, asg, mask)) & mask
        return out
    b = facts.body("anstyle", E + "contains")
    rep.fn(b["path"])
    ok, why = False, ""
    try:
        l, r_, positive = predicate(b["path"], [eff_val("a"), eff_val("b")])
        t = agree_table(l, r_, ["a", "b"])
        ok = positive and all(t[(a_, b_)] == ((~b_ | a_) & mask) for a_ in (0, mask) for b_ in (0, mask))
        why = f"compares {str(l)[:60]} with {str(r_)[:40]}"
    except Unrecognised as ex:
        why = f"not evaluable: {ex}"
    rep.check(ok, "bitwise", b["path"], "per-bit:b=>a (subset test)", f"contains(self, other) holds iff every bit of other is in self; {why}", loc(b))
    rep.count(4)
    b = facts.body("anstyle", E + "is_plain")
    rep.fn(b["path"])
    ok, why = False, ""
    try:
        try:
            l, r_, positive = predicate(b["path"], [eff_val("a")])
            t = agree_table(l, r_, ["a"])
            ok = positive and all(t[(a_,)] == (~a_ & mask) for a_ in (0, mask))
            why = f"compares {str(l)[:60]} with {str(r_)[:40]}"
        except Unrecognised:
            # not one comparison of bit-vector terms (a constant pattern, say): the predicate on every one of the 65536 values the
            # representation has, concretely
            ev = abseval.Evaluator(facts, "anstyle", {})
            wrong = [v for v in range(1 << 16) if ev.call_fn("anstyle", b["path"], [("ctor", EFFT, ("int", v))]) != ("bool", v == 0)]
            ok, why = not wrong, f"by enumeration of all 16-bit values; wrong on {wrong[:3]}"
    except Unrecognised as ex:
        why = f"not evaluable: {ex}"
    rep.check(ok, "bitwise", b["path"], "per-bit:a==0", f"is_plain iff no bit set; {why}", loc(b))
    # new / clear: the empty set
    n = facts.body("anstyle", E + "new")
    eff_law(facts, rep, "bitwise", n, [], [], lambda r, fin: r, lambda: 0, "new-is-empty", "Effects::new() has no bit set")
    c = facts.body("anstyle", E + "clear")
    eff_law(facts, rep, "bitwise", c, [eff_val("a")], ["a"], lambda r, fin: r, lambda a: 0, "clear-is-empty", "clear(a) has no bit set")
    # set: if enable { insert } else { remove }
    s = facts.body("anstyle", E + "set")
    import bits as bv
    ok, why = True, ""
    try:
        for enable, fn in ((True, lambda a, b_: a | b_), (False, lambda a, b_: a & ~b_)):
            r, _ = run_fn(facts, s["path"], [eff_val("a"), eff_val("b"), ("bool", enable)])
            if not bv.same(eff_bits(r), fn, ["a", "b"]):
                ok, why = False, f"set(a, b, {str(enable).lower()}) computes {str(eff_bits(r))[:100]}"
    except Unrecognised as ex:
        ok, why = False, f"not evaluable: {ex}"
    rep.check(ok, "bitwise", s["path"], "ite(enable,insert,remove)", f"set(a, b, true) = a|b and set(a, b, false) = a&!b for all a, b {why}", loc(s))
    for x in (n, c, s):
        rep.fn(x["path"])


def rule_operators(facts, rep):
    def body(path):
        b = facts.body("anstyle", path)
        rep.fn(b["path"])
        return b

    for tr, meth, target in (("core::ops::bit::BitOr", "bitor", "insert"), ("core::ops::arith::Sub", "sub", "remove")):
        b = body(f"<{EFFT} as {tr}>::{meth}")
        fn = (lambda a, b_: a | b_) if target == "insert" else (lambda a, b_: a & ~b_)
        eff_law(facts, rep, "operators", b, [eff_val("a"), eff_val("b")], ["a", "b"], lambda r, fin: r, fn, f"is-{target}",
                f"`{meth}` on Effects is {target}: {'a|b' if target == 'insert' else 'a&!b'} for all a, b")
    for tr, meth, target in (("core::ops::bit::BitOrAssign", "bitor_assign", "insert"), ("core::ops::arith::SubAssign", "sub_assign", "remove")):
        b = body(f"<{EFFT} as {tr}>::{meth}")
        fn = (lambda a, b_: a | b_) if target == "insert" else (lambda a, b_: a & ~b_)
        eff_law(facts, rep, "operators", b, [eff_val("a"), eff_val("b")], ["a", "b"], lambda r, fin: fin[0], fn, f"is-{target}",
                f"`{meth}` on Effects leaves {'a|b' if target == 'insert' else 'a&!b'} in *self for all a, b")
    STY = "anstyle::style::Style"
    # Style (op) Effects: decided by abstract evaluation on a record value — the result differs from `self` in `effects` only,
    # and there it is insert / remove of the operand (`|=`, `.insert()`, the `effects()` setter are all accepted spellings)
    import abseval
    for tr, meth, op in ((f"core::ops::bit::BitOr<{EFFT}>", "bitor", "BitOrAssign"), (f"core::ops::arith::Sub<{EFFT}>", "sub", "SubAssign"),
                         (f"core::ops::bit::BitOrAssign<{EFFT}>", "bitor_assign", "BitOrAssign"), (f"core::ops::arith::SubAssign<{EFFT}>", "sub_assign", "SubAssign")):
        b = body(f"<{STY} as {tr}>::{meth}")
        tag = "ins" if op == "BitOrAssign" else "rem"
        import bits as bv
        start = {"fg": ("sym", "fg"), "bg": ("sym", "bg"), "underline": ("sym", "ul"), "effects": eff_val("a")}
        ok, why = False, ""
        try:
            r, fin = run_fn(facts, b["path"], [("rec", dict(start)), eff_val("b")])
            res = r if meth in ("bitor", "sub") else fin[0]
            fn = (lambda a, b_: a | b_) if tag == "ins" else (lambda a, b_: a & ~b_)
            ok = res[0] == "rec" and set(res[1]) == set(start) and all(res[1][f] == start[f] for f in ("fg", "bg", "underline")) \
                and bv.same(eff_bits(res[1]["effects"]), fn, ["a", "b"])
            why = "" if ok else f"result {str(res)[:160]}"
        except Unrecognised as ex:
            why = str(ex)
        rep.check(ok, "operators", b["path"], f"effects-{op}-only", f"Style {meth} leaves the colours alone and makes effects {'a|b' if tag == 'ins' else 'a&!b'} for all a, b: {why[:160]}", loc(b))
    # PartialEq<Effects> for Style: *self == Style::from(*other) ; From<Effects>: Style::new().effects(e)
    b = body(f"<{STY} as core::cmp::PartialEq<{EFFT}>>::eq")
    # style == effects exactly when the style has no colours and its effects are those effects: 16 cases by abstract evaluation
    bad = []
    n_cases = 0
    for fgv in (("none",), ("some", ("sym", "c1"))):
        for bgv in (("none",), ("some", ("sym", "c2"))):
            for ulv in (("none",), ("some", ("sym", "c3"))):
                def run(choices, fgv=fgv, bgv=bgv, ulv=ulv):
                    ev = abseval.Evaluator(facts, "anstyle", {})
                    ev.choices = choices
                    env = abseval.Env()
                    env[b["params"][0]["name"]] = ("rec", {"fg": fgv, "bg": bgv, "underline": ulv, "effects": ("sym", "E")})
                    env[b["params"][1]["name"]] = ("sym", "other")
                    try:
                        return ev.ev(b["hir"], env)
                    except abseval.Return as rt:
                        return rt.v
                for choices, res in abseval.explore(run):
                    n_cases += 1
                    same = choices.get(("E", ("sym", "other")), choices.get(("other", ("sym", "E"))))
                    plain = fgv == ("none",) and bgv == ("none",) and ulv == ("none",)
                    want = plain and bool(same)
                    if plain and same is None:
                        bad.append("the effects are never compared for a colourless style")
                    elif res != ("bool", want):
                        bad.append(f"fg={fgv[0]} bg={bgv[0]} underline={ulv[0]} effects {'equal' if same else 'differ'}: {res}, expected {want}")
    rep.check(not bad and n_cases >= 9, "operators", b["path"], "compares-with-from(effects)",
              f"style == effects iff style == Style::from(effects) (no colours, the same effects): {bad[:2]}", loc(b))
    b = body(f"<{STY} as core::convert::From<{EFFT}>>::from")
    # by value: no colours, exactly these effects (Style::new().effects(e), a struct update of a PLAIN constant, a literal)
    ok, why = False, ""
    try:
        r, _ = run_fn(facts, b["path"], [eff_val("a")])
        ok = r == ("rec", {"fg": ("none",), "bg": ("none",), "underline": ("none",), "effects": eff_val("a")})
        why = "" if ok else f"result {str(r)[:160]}"
    except Unrecognised as ex:
        why = f"not evaluable: {ex}"
    rep.check(ok, "operators", b["path"], "new().effects(e)", f"no colours, exactly these effects {why}", loc(b))


def rule_iterators(facts, rep):
    ET = "anstyle::effect::"
    for ty, yields in (("EffectIter", "effect"), ("EffectIndexIter", "index")):
        b = facts.body("anstyle", f"<{ET}{ty} as core::iter::traits::iterator::Iterator>::next")
        rep.fn(b["path"])
        # decided by abstract evaluation from every starting index, the set being symbolic: each membership test of a single bit is
        # a case split (explore), so a path is "bits start..j-1 absent, bit j present" or "none present"
        import abseval
        n_bits = len(sgr.EFFECT_ORDER)
        A = eff_val("a")
        bad, n_paths = [], 0
        for start in range(0, n_bits + 1):          # (an index beyond the number of effects is not a reachable state)
            def run(choices, start=start):
                queries = []

                def has(j):
                    queries.append(j)
                    return ("bool", ev.oracle(("has", j)))

                def contains(a):
                    m = eff_bits(a[1])
                    if a[0] != A or m[0] != "int" or m[1] <= 0 or m[1] & (m[1] - 1):
                        raise Unrecognised("membership test of something other than one bit of the iterated set")
                    return has(m[1].bit_length() - 1)

                def cmp_(a):
                    # `(set & bit) == bit`, `(set & bit) != 0` written on the raw bits
                    op, l, r = a
                    for x, y in ((l, r), (r, l)):
                        if x[0] == "bin" and x[1] == "BitAnd" and y[0] == "int":
                            for u, v in ((x[2], x[3]), (x[3], x[2])):
                                if u == A[2] and v[0] == "int" and v[1] > 0 and not v[1] & (v[1] - 1) and y[1] in (0, v[1]):
                                    present = has(v[1].bit_length() - 1)[1]
                                    return ("bool", present == ((y[1] != 0) == (op == "Eq")))
                    return None
                ev = abseval.Evaluator(facts, "anstyle", {E + "contains": contains, "cmp": cmp_})
                ev.choices = choices
                fin = []
                r = ev.call_fn("anstyle", b["path"], [("rec", {"effects": A, "index": ("int", start)})], final=fin)
                return r, fin[0], queries
            try:
                for choices, (r, selfv, queries) in abseval.explore(run):
                    n_paths += 1
                    hit = [j for j in queries if choices.get(("has", j))]
                    want_q = list(range(start, (hit[0] + 1) if hit else n_bits)) if start < n_bits else []
                    idx = selfv[1].get("index") if selfv and selfv[0] == "rec" else None
                    if queries != want_q:
                        bad.append(f"from index {start}: bits tested {queries}, expected {want_q}")
                    elif selfv[0] != "rec" or selfv[1].get("effects") != A:
                        bad.append(f"from index {start}: the iterated set is modified")
                    elif hit:
                        j = hit[0]
                        want_r = ("some", ("int", j)) if yields == "index" else None
                        ok_r = r == want_r if want_r else (r[0] == "some" and r[1][0] == "ctor" and r[1][2] == ("int", 1 << j))
                        if not ok_r or idx != ("int", j + 1):
                            bad.append(f"from index {start} with bit {j} the first one present: returns {str(r)[:60]}, index becomes {idx}")
                    elif r != ("none",) or not (idx and idx[0] == "int" and idx[1] >= n_bits):
                        bad.append(f"from index {start} with no bit present: returns {str(r)[:60]}, index becomes {idx}")
            except Unrecognised as ex:
                bad.append(f"from index {start}: not evaluable: {ex}")
        rep.count(n_paths)
        rep.check(not bad and n_paths >= 78, "iterators", b["path"], f"yields-each-present-{yields}-once-in-bit-order",
                  f"next() from index i tests bits i, i+1, .. in order, returns the first present one ({'its index' if yields == 'index' else 'as a one-bit set'}) "
                  f"leaving index just after it, and None (index >= {n_bits}) when there is none; {n_paths} paths evaluated. {bad[:2]}", loc(b))
    for meth, ty in (("iter", "EffectIter"), ("index_iter", "EffectIndexIter")):
        b = facts.body("anstyle", E + meth)
        rep.fn(b["path"])
        e = ac.single_expr(b["hir"])
        ok = e.get("k") == "struct" and e["path"].get("path") == ET + ty
        if ok:
            f = {x["name"]: x["e"] for x in e["fields"]}
            ok = hir.lit_val(f.get("index")) == 0 and hir.is_local(f.get("effects"), "self")
        rep.check(ok, "iterators", b["path"], "starts-at-0-over-self", "", loc(b))
    # Debug names the members through METADATA[index].name
    d = facts.body("anstyle", "<anstyle::effect::Effects as core::fmt::Debug>::fmt")
    rep.fn(d["path"])
    # every name printed is METADATA[x].name with x a value handed out by the index iterator of self (a `for`, an `enumerate`,
    # an explicit `.next()`: panics.Ctx.yielded knows the binding forms), and there is at least one such read
    import panics
    panics.YIELD_RANGE.setdefault("anstyle::effect::EffectIndexIter", (0, len(sgr.EFFECT_ORDER) - 1))
    cx = panics.Ctx(d, {})
    reads = [n for n in hir.walk(d["hir"]) if n.get("k") == "index" and hir.is_def(hir.simp(n["e"]), "effect::METADATA")]
    named = [n for n in hir.walk(d["hir"]) if n.get("k") == "field" and n["name"] == "name" and any(hir.simp(n["e"]) is r for r in reads)]
    from_iter = [r for r in reads if hir.simp(r["i"]).get("k") == "local" and (hir.simp(r["i"])["name"], hir.simp(r["i"]).get("id")) in cx.yielded]
    its = hir.calls_in(d["hir"], E + "index_iter")
    ok = bool(reads) and len(from_iter) == len(reads) == len(named) and len(its) == 1 and hir.is_local(hir.peel(its[0]["args"][0]), "self")
    rep.check(ok, "iterators", d["path"], "debug-names-members-via-METADATA", "", loc(d))
    # METADATA names = constant names in bit order
    md = facts.body("anstyle", "anstyle::effect::METADATA")
    arr = ac.single_expr(md["hir"])
    names = []
    if arr.get("k") == "array":
        for el in arr["es"]:
            f = {x["name"]: x["e"] for x in hir.simp(el)["fields"]}
            names.append(hir.lit_val(f.get("name")))
    rep.check(names == sgr.EFFECT_ORDER, "iterators", md["path"], "names-in-bit-order", f"{names}", loc(md))
    rep.count(12)


def rule_debug(facts, rep):
    """The debug form names exactly the members: `Debug::fmt` evaluated (the text handed to the formatter, `write!` included) on
    the empty set, every single effect, every pair, every run of three neighbours and the full set."""
    import abseval
    b = facts.body("anstyle", f"<{EFFT} as core::fmt::Debug>::fmt")
    rep.fn(b["path"])
    names = list(sgr.EFFECT_ORDER)
    n = len(names)
    sets = [0] + [1 << i for i in range(n)] + [(1 << i) | (1 << j) for i in range(n) for j in range(i + 1, n)] + \
        [7 << i for i in range(n - 2)] + [(1 << n) - 1, 0b101010101010, 0b010101010101]
    bad = []
    for v in sets:
        got = []
        sink = lambda a_: (got.append(a_[1][1] if a_[1][0] == "str" else str(a_[1])), ("ok", ("unit",)))[1]
        ev = abseval.Evaluator(facts, "anstyle", {"fmt:sink": sink, "core::fmt::Formatter::<'a>::write_str": sink, "core::fmt::Write::write_str": sink})
        ev.concrete_strings = True
        want = "Effects(" + " | ".join(names[i] for i in range(n) if v >> i & 1) + ")"
        try:
            r = ev.call_fn("anstyle", b["path"], [("ctor", EFFT, ("int", v)), ("sym", "f")])
            text = "".join(got)
            if text != want or r != ("ok", ("unit",)):
                bad.append(f"{want}: {text!r} (result {r})")
        except Unrecognised as ex:
            bad.append(f"not evaluable: {ex}")
            break
    rep.count(len(sets))
    rep.check(not bad, "debug", b["path"], "names-exactly-the-members", f"{len(sets)} effect sets evaluated {bad[:2]}"[:400], loc(b))


def rule_wiring(facts, rep):
    st = facts.item("anstyle", "anstyle::style::Style", "Struct")
    fields = [f["name"] for f in st["variants"][0]["fields"]]
    rep.check(fields == ["fg", "bg", "underline", "effects"], "wiring", st["path"], "fields", f"{fields}", f"{st['file']}:{st['ln']}")
    for setter, field in (("fg_color", "fg"), ("bg_color", "bg"), ("underline_color", "underline"), ("effects", "effects")):
        b = facts.body("anstyle", S + setter)
        rep.fn(b["path"])
        start = {"fg": ("sym", "fg"), "bg": ("sym", "bg"), "underline": ("sym", "ul"), "effects": ("sym", "eff")}
        ok, why = False, ""
        # the value set is the value kept, whatever kind of value it is: each kind of colour (a setter that looks inside its argument
        # — say, to store a 4-bit colour in another form — shows here), no colour, a symbolic effects value
        if field == "effects":
            vals = [("sym", "new"), ("ctor", EFFT, ("int", 0)), ("ctor", EFFT, ("int", 4095))]
        else:
            CO = "anstyle::color::Color::"
            vals = [("none",)] + [("some", ("ctor", CO + "Ansi", ("enum", "anstyle::color::AnsiColor::" + n_))) for n_ in ("Black", "Red", "BrightWhite")] + \
                [("some", ("ctor", CO + "Ansi256", ("ctor", "anstyle::color::Ansi256Color", ("int", i_)))) for i_ in (0, 9, 255)] + \
                [("some", ("ctor", CO + "Rgb", ("ctor", "anstyle::color::RgbColor", ("int", 1), ("int", 2), ("int", 3))))]
        try:
            bad_ = []
            for nv in vals:
                r, _ = run_fn(facts, b["path"], [("rec", dict(start)), nv])
                if r != ("rec", dict(start, **{field: nv})):
                    bad_.append(f"{str(nv)[:70]} -> {str(r[1].get(field) if r[0] == 'rec' else r)[:90]}")
            ok = not bad_
            why = "" if ok else f"{bad_[:2]}"
        except Unrecognised as ex:
            why = f"not evaluable: {ex}"
        rep.check(ok, "wiring", b["path"], f"stores-{field}-only", f"`{setter}(v)` returns self with {field} = v and the other three fields unchanged {why}", loc(b))
    for getter, field in (("get_fg_color", "fg"), ("get_bg_color", "bg"), ("get_underline_color", "underline"), ("get_effects", "effects")):
        b = facts.body("anstyle", S + getter)
        rep.fn(b["path"])
        rep.check(hir.place_str(ac.single_expr(b["hir"])) == f"self.{field}", "wiring", b["path"], f"returns-{field}", "", loc(b))
    for meth, const in (("bold", "BOLD"), ("dimmed", "DIMMED"), ("italic", "ITALIC"), ("underline", "UNDERLINE"), ("blink", "BLINK"),
                        ("invert", "INVERT"), ("hidden", "HIDDEN"), ("strikethrough", "STRIKETHROUGH")):
        b = facts.body("anstyle", S + meth)
        rep.fn(b["path"])
        import bits as bv
        start = {"fg": ("sym", "fg"), "bg": ("sym", "bg"), "underline": ("sym", "ul"), "effects": eff_val("a")}
        bit = {n_: v for n_, v, _ in ac.effect_consts(facts)}.get(const)
        ok, why = False, ""
        try:
            r, _ = run_fn(facts, b["path"], [("rec", dict(start))])
            ok = r[0] == "rec" and set(r[1]) == set(start) and all(r[1][f] == start[f] for f in ("fg", "bg", "underline")) \
                and isinstance(bit, int) and bv.same(eff_bits(r[1]["effects"]), lambda a, bit=bit: a | bit, ["a"])
            why = "" if ok else f"result {str(r)[:160]}"
        except Unrecognised as ex:
            why = f"not evaluable: {ex}"
        rep.check(ok, "wiring", b["path"], f"inserts-{const}", f"`{meth}()` leaves the colours alone and makes effects a|{const} for all a {why}", loc(b))
    n = facts.body("anstyle", S + "new")
    ok, why = False, ""
    try:
        r, _ = run_fn(facts, n["path"], [])
        ok = r == ("rec", {"fg": ("none",), "bg": ("none",), "underline": ("none",), "effects": ("ctor", EFFT, ("int", 0))})
        why = "" if ok else f"result {str(r)[:160]}"
    except Unrecognised as ex:
        why = f"not evaluable: {ex}"
    rep.check(ok, "wiring", n["path"], "all-None-and-empty", f"Style::new() by value {why}", loc(n))
    p = facts.body("anstyle", S + "is_plain")
    # by value: each colour present or not, the effects empty / one bit (each of the 16) / all bits — plain exactly when all three
    # colours are absent and no effect bit is set (a conjunction, early returns, a tuple pattern: all the same function)
    import itertools
    bad = []
    try:
        for fg, bg, ul, eff in itertools.product((False, True), (False, True), (False, True), [0, 0xffff] + [1 << i_ for i_ in range(16)]):
            st = ("rec", {"fg": ("some", ("sym", "c")) if fg else ("none",), "bg": ("some", ("sym", "c")) if bg else ("none",),
                          "underline": ("some", ("sym", "c")) if ul else ("none",), "effects": ("ctor", EFFT, ("int", eff))})
            r, _ = run_fn(facts, p["path"], [st])
            if r != ("bool", not (fg or bg or ul or eff)):
                bad.append(f"fg {fg}, bg {bg}, underline {ul}, effects {eff:#x}: {r}")
            rep.count()
    except Unrecognised as ex:
        bad.append(f"not evaluable: {ex}")
    rep.check(not bad, "wiring", p["path"], "4-way-conjunction", f"{bad[:3]}", loc(p))
    for x in (n, p):
        rep.fn(x["path"])
    # derived PartialEq on Style compares all four fields (derive ⇒ field-wise)
    impls = [i for i in facts.items("anstyle") if i["dk"] == "Impl" and i.get("trait") == "core::cmp::PartialEq" and i.get("self_ty") == "anstyle::style::Style"]
    rep.check(len(impls) == 1 and impls[0].get("derived"), "wiring", "anstyle::style::Style", "PartialEq-is-derived", "", "")
    # Default for Style is derived: all None, Effects::default() = Effects(0)
    impls = [i for i in facts.items("anstyle") if i["dk"] == "Impl" and i.get("trait") == "core::default::Default"
             and i.get("self_ty") in ("anstyle::style::Style", "anstyle::effect::Effects")]
    ok = len(impls) == 2
    why = ""
    if ok and not all(i.get("derived") for i in impls):
        # written by hand: its value, by evaluation, is what the derive gives (all None, no effect bit)
        try:
            rs, _ = run_fn(facts, "<anstyle::style::Style as core::default::Default>::default", [])
            re_, _ = run_fn(facts, "<anstyle::effect::Effects as core::default::Default>::default", []) \
                if not [i for i in impls if i.get("derived") and i.get("self_ty") == EFFT] else (("ctor", EFFT, ("int", 0)), None)
            if [i for i in impls if i.get("derived") and i.get("self_ty") == "anstyle::style::Style"]:
                rs = ("rec", {"fg": ("none",), "bg": ("none",), "underline": ("none",), "effects": re_})
            ok = re_ == ("ctor", EFFT, ("int", 0)) and rs == ("rec", {"fg": ("none",), "bg": ("none",), "underline": ("none",), "effects": ("ctor", EFFT, ("int", 0))})
            why = f"Style::default() = {str(rs)[:120]}, Effects::default() = {re_}"
        except Unrecognised as ex:
            ok, why = False, f"not evaluable: {ex}"
    rep.check(ok, "wiring", "anstyle::style::Style", "Default-is-derived", f"derived, or by value the plain style / empty set; {why}", "")


def rule_colour_tables(facts, rep):
    names, discr, it = ac.ansi_variants(facts)
    rep.check(names == sgr.ANSI16 and discr == list(range(16)), "colour-tables", ac.ANSI, "variants-in-palette-order", f"{names}", f"{it['file']}:{it['ln']}")

    # every table below is the function's value on each element of its (finite) domain, by abstract evaluation: a match, a const
    # table, a cast of the discriminant, an arithmetic expression all denote the same table
    def value_of(path, args):
        try:
            return run_fn(facts, path, args)[0]
        except Unrecognised as ex:
            return ("not-evaluable", str(ex)[:120])

    def variant(n):
        return ("enum", ac.ANSI + "::" + n)

    fa = facts.body("anstyle", "anstyle::color::Ansi256Color::from_ansi")
    rep.fn(fa["path"])
    t = {}
    for n in sgr.ANSI16:
        v = value_of(fa["path"], [variant(n)])
        t[n] = v[2][1] if v[0] == "ctor" and len(v) == 3 and v[2][0] == "int" else v
    rep.check(t == {n: i for i, n in enumerate(sgr.ANSI16)}, "colour-tables", fa["path"], "variant-i↦i", f"{t}", loc(fa))
    rep.count(16)
    ia = facts.body("anstyle", "anstyle::color::Ansi256Color::into_ansi")
    rep.fn(ia["path"])
    got, others = {}, {}
    for i in range(256):
        v = value_of(ia["path"], [("ctor", "anstyle::color::Ansi256Color", ("int", i))])
        if v[0] == "some" and v[1][0] == "enum":
            got[i] = v[1][1].split("::")[-1]
        elif v != ("none",):
            others[i] = v
    rep.check(not others and got == {i: n for i, n in enumerate(sgr.ANSI16)}, "colour-tables", ia["path"], "i↦variant-i-else-None",
              f"evaluated for all 256 indices: Some for {sorted(got)[:20]}, not decided: {dict(list(others.items())[:2])}", loc(ia))
    rep.count(256)
    rep.check(all(got.get(t.get(n)) == n for n in sgr.ANSI16), "colour-tables", "anstyle::color", "from_ansi∘into_ansi=id",
              "the two tables are mutually inverse on 0..=15", "")
    # bright(yes)
    br = facts.body("anstyle", ac.ANSI + "::bright")
    rep.fn(br["path"])
    res = {}
    for yes in (True, False):
        for n in sgr.ANSI16:
            v = value_of(br["path"], [variant(n), ("bool", yes)])
            res[(n, yes)] = v[1].split("::")[-1] if v[0] == "enum" else v
    want = {}
    for n in sgr.ANSI16:
        want[(n, True)] = "Bright" + n if not n.startswith("Bright") else n
        want[(n, False)] = n[len("Bright"):] if n.startswith("Bright") else n
    rep.count(32)
    bad = {k: v for k, v in res.items() if want[k] != v}
    rep.check(not bad, "colour-tables", br["path"], "projection-preserving-hue",
              f"bright(true)/bright(false) keep the hue and are idempotent {dict(list(bad.items())[:3]) if bad else ''}", loc(br))
    ib = facts.body("anstyle", ac.ANSI + "::is_bright")
    rep.fn(ib["path"])
    t2 = {}
    for n in sgr.ANSI16:
        v = value_of(ib["path"], [variant(n)])
        t2[n] = v[1] if v[0] == "bool" else v
    rep.check(t2 == {n: n.startswith("Bright") for n in sgr.ANSI16}, "colour-tables", ib["path"], "upper-eight", f"{t2}", loc(ib))
    rep.count(16)
    # From<AnsiColor> for Ansi256Color is from_ansi
    f = facts.body("anstyle", "<anstyle::color::Ansi256Color as core::convert::From<anstyle::color::AnsiColor>>::from")
    e = ac.single_expr(f["hir"])
    rep.check(hir.is_call(e, "anstyle::color::Ansi256Color::from_ansi") and hir.is_local(e["args"][0], f["params"][0]["name"]),
              "colour-tables", f["path"], "is-from_ansi", "", loc(f))
