"""C07 — styled-run extraction follows standard SGR semantics (structural part)."""
import enumflow
import hir
import hirpp
from core import AnchorMissing, Unrecognised, loc
from spec import sgr
from rules import anstyle_common as ac

META = {
    "explanation": (
        "Static decision on the HIR of anstream::adapter::wincon: (codes) the (Normal, code) arms of csi_dispatch are read as a "
        "table code -> style update and compared with the SGR specification (effects, 16-colour fg/bg with range patterns "
        "justifying the subtraction, 39/49, 38/48/58 selecting the colour target), to_ansi_color is the identity on the hue "
        "index, non-`m` finals and the ignore flag return before the style is touched; (substate) a powerset-of-variants "
        "dataflow of the local SGR sub-parser state over the loop nest decides the transition taken by every arm and that "
        "Underline does not survive the end of a parameter and that completed colour groups return to Normal; (targets) "
        "color_target / r / g are assigned on entry of the states that read them; (emit) a run is emitted exactly when the "
        "style changes with text pending, carrying the old style, and the new style is stored last. Does NOT decide full "
        "trace equivalence with an SGR interpreter."
        " Linked rules: the VT parser underneath (C02's table / order / action-map / guards / reset / limits / params rules, all but the OSC payload rule) is evaluated in this check too — a run is only right if every complete SGR sequence is dispatched with its parameters."),
}

MANIFEST = {
    "level": ("Sound static decision of the code table and of the sub-parser's state transitions for every parameter sequence: "
              "the transition of each arm is computed by an enum-valued dataflow (fixpoint over the two nested loops), so "
              "'combined in one sequence = sent separately' is reduced to 'every attribute group leaves the sub-state Normal', "
              "which is exactly what the repaired defect violated."),
    "note": ("Trusted: rustc front end; spec/sgr.py; the enum dataflow in lib/enumflow.py; anstyle's convenience methods mean "
             "the like-named effect (decided in C13). Not decided: whole-sequence trace equivalence; behaviour on malformed "
             "extended-colour groups (outside the property)."),
    "technique": "static analysis: match-table extraction vs SGR spec, powerset-of-variants dataflow over the loop nest, abstract evaluation of the run epilogue (old/new style, pending text), value-flow rules for the yielded run and for the driver loop (every byte through the parser, text only from its callbacks), linked parser rules",
}

W = "anstream::adapter::wincon::"
ST = W + "State"
FN = "<anstream::adapter::wincon::WinconCapture as anstyle_parse::Perform>::"

EFFECT_METHODS = {"bold": "BOLD", "dimmed": "DIMMED", "italic": "ITALIC", "underline": "UNDERLINE", "blink": "BLINK",
                  "invert": "INVERT", "hidden": "HIDDEN", "strikethrough": "STRIKETHROUGH"}


def effect_const(e):
    p = hir.def_path(e)
    if p and p.startswith("anstyle::effect::Effects::"):
        return p.split("::")[-1]
    return None


def style_update(e, var, lets):
    """Normalise an expression producing the new style from local `var` into a list of operations."""
    e = hir.simp(e)
    if hir.is_local(e, var) and e.get("k") == "local":
        return []
    if hir.is_call(e, "<anstyle::style::Style as core::default::Default>::default", "anstyle::style::Style::new"):
        return [("reset",)]
    if e.get("k") == "call":
        name = hir.callee(e).split("::")[-1]
        if hir.callee(e).startswith("anstyle::style::Style::") and name in EFFECT_METHODS:
            return style_update(e["args"][0], var, lets) + [("on", EFFECT_METHODS[name])]
        if hir.callee(e) in ("anstyle::style::Style::fg_color", "anstyle::style::Style::bg_color", "anstyle::style::Style::underline_color"):
            slot = {"fg_color": "fg", "bg_color": "bg", "underline_color": "underline"}[name]
            return style_update(e["args"][0], var, lets) + [(slot, colour_expr(e["args"][1], lets))]
        if hir.callee(e) == "anstyle::style::Style::effects":
            base = style_update(e["args"][0], var, lets)
            eff = hir.simp(e["args"][1])
            if hir.is_call(eff, "anstyle::effect::Effects::remove"):
                g = hir.simp(eff["args"][0])
                c = effect_const(eff["args"][1])
                if hir.is_call(g, "anstyle::style::Style::get_effects") and hir.is_local(g["args"][0], var) and c:
                    return base + [("off", c)]
            raise Unrecognised("Style::effects(..) with an unrecognised effects expression")
    if e.get("k") == "bin" and e.get("op") == "BitOr":
        c = effect_const(e["r"])
        if c:
            return style_update(e["l"], var, lets) + [("on", c)]
    raise Unrecognised(f"style update expression not understood: {hirpp.expr(e)[:80]}")


def colour_expr(e, lets):
    e = hir.simp(e)
    for _ in range(4):         # the Option may be built in a temporary before the setter is called
        if e.get("k") == "local" and ("id", e.get("id")) in lets:
            e = hir.simp(lets[("id", e.get("id"))])
        else:
            break
    if hir.is_def(e, "Option::None"):
        return ("none",)
    if e.get("k") == "call" and e.get("ctor", "").endswith("Option::Some"):
        v = hir.simp(e["args"][0])
        for _ in range(6):     # conversions and temporaries between the constructor and Some(..) are transparent
            if hir.is_call(v, "Into<U>>::into", "From<T>>::from") or \
                    (v.get("k") == "call" and len(v.get("args", [])) == 1 and hir.callee_decl(v) in ("core::convert::From::from", "core::convert::Into::into")
                     and str(v.get("ty", "")) == "anstyle::color::Color"):
                v = hir.simp(v["args"][0])
            elif v.get("k") == "local" and ("id", v.get("id")) in lets:
                v = hir.simp(lets[("id", v.get("id"))])
            elif v.get("k") == "local" and v["name"] in lets and ("id", v.get("id")) not in lets and not any(isinstance(k, tuple) for k in lets):
                v = hir.simp(lets[v["name"]])
            else:
                break
        return colour_value(v)
    raise Unrecognised("colour argument is neither None nor Some(..)")


def colour_value(v):
    v = hir.simp(v)
    bright = False
    if hir.is_call(v, "anstyle::color::AnsiColor::bright"):
        if hir.lit_val(v["args"][1]) is not True:
            raise Unrecognised("bright(false)")
        bright = True
        v = hir.simp(v["args"][0])
    if hir.is_call(v, "Option::<T>::expect", "Option::<T>::unwrap"):
        inner = hir.simp(v["args"][0])
        if hir.is_call(inner, W + "to_ansi_color"):
            a = hir.simp(inner["args"][0])
            if a.get("k") == "bin" and a["op"] == "Sub" and hir.is_local(a["l"], "value") and hir.lit_val(a["r"]) is not None:
                return ("ansi-index", hir.lit_val(a["r"]), bright)
    if v.get("k") == "call" and v.get("ctor") == "anstyle::color::Ansi256Color":
        a = hir.simp(v["args"][0])
        return ("ansi256", hir.local_name(a["e"]) if a.get("k") == "cast" else hir.local_name(a))
    if v.get("k") == "call" and v.get("ctor") == "anstyle::color::RgbColor":
        return ("rgb", tuple(hir.local_name(hir.simp(a)["e"]) if hir.simp(a).get("k") == "cast" else hir.local_name(a) for a in v["args"]))
    raise Unrecognised(f"colour value not understood: {hirpp.expr(v)[:80]}")


class Dispatch:
    def __init__(self, facts):
        self.b = facts.body("anstream", FN + "csi_dispatch")
        b = self.b
        self.top = hir.stmts_of(b["hir"])
        it = facts.item("anstream", ST, "Enum")
        self.variants = [v["name"] for v in it["variants"]]
        # the main match on (state, *value)
        ms = [n for n in hir.walk(b["hir"]) if n.get("k") == "match" and n.get("src") == "Normal"
              and hir.simp(n["scrut"]).get("k") == "tuple" and len(hir.simp(n["scrut"])["es"]) == 2
              and hir.is_local(hir.simp(n["scrut"])["es"][0], "state")]
        if len(ms) != 1:
            raise AnchorMissing("csi_dispatch: the match on (state, *value) was not found")
        self.m = ms[0]
        if not hir.is_local(hir.simp(self.m["scrut"])["es"][1], "value"):
            raise Unrecognised("csi_dispatch: second scrutinee component is not *value")
        self.arms = []
        for a in self.m["arms"]:
            for alt in hir.pat_alternatives(a["pat"]):
                if alt.get("k") == "ptuple":
                    sp, vp = alt["pats"]
                    st = hir.pat_path(sp).split("::")[-1] if hir.pat_path(sp) else "*"
                    self.arms.append((st, vp, a))
                elif alt.get("k") in ("pwild", "pbind"):
                    self.arms.append(("*", alt, a))
                else:
                    raise Unrecognised("csi_dispatch: arm pattern")

    def lets_of(self, arm):
        out = {}
        for n in hir.walk(arm["body"]):
            if n.get("k") == "let" and n["pat"].get("k") == "pbind" and "init" in n:
                out[n["pat"]["name"]] = n["init"]
                out[("id", n["pat"].get("id"))] = n["init"]
        return out

    def style_ops(self, arm):
        ops = []
        lets = self.lets_of(arm)
        for n in hir.walk(arm["body"]):
            if n.get("k") == "assign" and hir.is_local(n["l"], "style") and hir.simp(n["l"]).get("k") == "local":
                r = hir.simp(n["r"])
                if r.get("k") == "match" and hir.is_local(r["scrut"], "color_target"):
                    per = {}
                    for a in r["arms"]:
                        per[hir.pat_path(a["pat"]).split("::")[-1]] = style_update(a["body"], "style", lets)
                    ops.append(("by-target", per))
                else:
                    ops += style_update(r, "style", lets)
            if n.get("k") == "assignop" and hir.is_local(n["l"], "style"):
                c = effect_const(n["r"])
                if n["op"] == "BitOrAssign" and c:
                    ops.append(("on", c))
                else:
                    raise Unrecognised("compound assignment to style")
        return ops


def run(ctx):
    rep, facts = ctx.report, ctx.facts
    rep.guarded("codes", FN + "csi_dispatch", lambda: rule_codes(facts, rep))
    rep.guarded("substate", FN + "csi_dispatch", lambda: rule_substate(facts, rep))
    rep.guarded("emit", FN + "csi_dispatch", lambda: rule_emit(facts, rep))
    rep.guarded("model", FN + "csi_dispatch", lambda: rule_model(facts, rep, ctx.tier))
    # the driver: every input byte reaches the parser (whose state persists across calls) and the text comes from its callbacks
    from rules import C03
    rep.guarded("byte-at-a-time", "anstream::adapter::wincon::next_bytes", lambda: C03.rule_byte_at_a_time(facts, rep))
    from rules import links
    links.parser_under_sgr(facts, rep)   # the runs are only as good as the parser's dispatch of each SGR sequence
    for r, n in (("codes", 26), ("substate", 33), ("targets", 5), ("emit", 9), ("model", 1), ("byte-at-a-time", 6)):
        rep.floor(r, n)


def rule_codes(facts, rep):
    d = Dispatch(facts)
    b = d.b
    rep.fn(b["path"])
    # early returns before the style is read
    s0, s1 = hir.simp(d.top[0]), hir.simp(d.top[1])
    ok0 = s0.get("k") == "if" and hir.is_local(s0["c"], "ignore") and hir.diverges(s0["t"])
    c1 = hir.simp(s1.get("c", {}))
    ok1 = (s1.get("k") == "if" and c1.get("k") == "bin" and c1["op"] == "Ne" and hir.is_local(c1["l"], "action")
           and hir.lit_val(c1["r"]) == ord("m") and hir.diverges(s1["t"]))
    rep.check(ok0, "codes", b["path"], "ignored-sequence-changes-nothing", "`if ignore { return }` first", loc(b, s0))
    rep.check(ok1, "codes", b["path"], "non-SGR-final-changes-nothing", "`if action != b'm' { return }` before the style is touched", loc(b, s1))
    s2 = d.top[2]
    rep.check(s2.get("k") == "let" and s2["pat"].get("name") == "style" and hir.place_str(s2["init"]) == "self.style", "codes", b["path"],
              "starts-from-style-in-effect", "let mut style = self.style — the style persists across sequences and calls", loc(b, s2))
    # table of (Normal, code) arms
    seen_codes = {}
    for st, vp, arm in d.arms:
        if st != "Normal":
            continue
        codes = hir.pat_ints(vp)
        if codes is None:
            rep.bad("codes", b["path"], "Normal:catch-all", "(Normal, _) arm: every unknown code must fall to the final `_ => break`", loc(b, arm))
            continue
        ops = d.style_ops(arm)
        lo = min(codes)
        tag = f"{lo}" if len(codes) == 1 else f"{lo}..={max(codes)}"
        rep.count(len(codes))
        targets = [n for n in hir.walk(arm["body"]) if n.get("k") == "assign" and hir.is_local(n["l"], "color_target")]
        want = None
        ok = False
        if codes == {0}:
            want, ok = "reset to the default style", ops == [("reset",)]
        elif len(codes) == 1 and lo in (1, 2, 3, 4, 7, 8, 9, 21):
            eff = sgr.EFFECT_ON[lo]
            want, ok = f"switch {eff} on", ops == [("on", eff)]
        elif len(codes) == 8 and sgr.colour_code(lo):
            slot, name = sgr.colour_code(lo)
            bright = name.startswith("Bright")
            want = f"{slot} = {'bright ' if bright else ''}colour with hue index (code - {lo})"
            ok = ops == [(slot, ("ansi-index", lo, bright))] and codes == set(range(lo, lo + 8))
        elif len(codes) == 1 and lo in (39, 49):
            slot = {39: "fg", 49: "bg"}[lo]
            want, ok = f"{slot} back to default", ops == [(slot, ("none",))]
        elif len(codes) == 1 and lo in (38, 48, 58):
            t = {38: "Fg", 48: "Bg", 58: "Underline"}[lo]
            want = f"select colour target {t}"
            ok = not ops and len(targets) == 1 and hir.is_def(targets[0]["r"], "ColorTarget::" + t)
        else:
            want = "a code the property does not list: must change nothing or follow SGR"
            if len(codes) == 1 and lo in sgr.EFFECT_ON:
                ok = ops == [("on", sgr.EFFECT_ON[lo])]
            elif len(codes) == 1 and lo in sgr.EFFECT_OFF:
                ok = sorted(ops) == sorted(("off", e) for e in sgr.EFFECT_OFF[lo])
            else:
                ok = False
        for c in codes:
            seen_codes[c] = tag
        rep.check(ok, "codes", b["path"], f"Normal:{tag}", f"SGR {tag} must {want}; the arm does {ops or [hirpp.expr(t['r']) for t in targets]}", loc(b, arm))
    must = {0, 1, 2, 3, 4, 7, 8, 9, 21, 38, 39, 48, 49, 58} | set(range(30, 38)) | set(range(40, 48)) | set(range(90, 98)) | set(range(100, 108))
    missing = sorted(must - set(seen_codes))
    rep.check(not missing, "codes", b["path"], "all-listed-codes-handled", f"codes named by the property without an arm: {missing}", loc(b))
    # Underline sub-parameters 4:k
    for st, vp, arm in d.arms:
        if st != "Underline":
            continue
        codes = hir.pat_ints(vp)
        if codes is None or len(codes) != 1:
            rep.bad("codes", b["path"], "Underline:pattern", "Underline arms must match a single style number", loc(b, arm))
            continue
        k = next(iter(codes))
        ops = d.style_ops(arm)
        style = sgr.UNDERLINE_STYLE.get(k, "?")
        if style is None:
            want = [("off", "UNDERLINE")]
        elif style == "UNDERLINE":
            want = []
        else:
            want = [("off", "UNDERLINE"), ("on", style)]
        rep.check(ops == want, "codes", b["path"], f"Underline:4:{k}", f"4:{k} must yield {style}: expected ops {want}, got {ops}", loc(b, arm))
        rep.count()
    # extended colours: Ansi256 arm and the completing Rgb sub-arm set the slot chosen by color_target
    for st, vp, arm in d.arms:
        if st == "Ansi256":
            ops = d.style_ops(arm)
            n = vp.get("name")
            want = {"Fg": [("fg", ("ansi256", n))], "Bg": [("bg", ("ansi256", n))], "Underline": [("underline", ("ansi256", n))]}
            rep.check(len(ops) == 1 and ops[0] == ("by-target", want), "codes", b["path"], "Ansi256:value→target-slot",
                      f"`;5;n` sets the selected slot to Ansi256Color(n): {ops}", loc(b, arm))
        if st == "Rgb":
            ops = d.style_ops(arm)
            bn = vp.get("name")
            inner = [n for n in hir.walk(arm["body"]) if n.get("k") == "match" and hir.simp(n["scrut"]).get("k") == "tuple"]
            names = None
            if len(inner) == 1:
                for a in inner[0]["arms"]:
                    ps = a["pat"].get("pats", [])
                    if len(ps) == 2 and all(p.get("k") == "pts" and p["pats"] and p["pats"][0].get("k") == "pbind" for p in ps):
                        names = (ps[0]["pats"][0]["name"], ps[1]["pats"][0]["name"], bn)
                        # the bound names must come from the (r, g) scrutinee in that order
                        sc = [hir.local_name(x) for x in hir.simp(inner[0]["scrut"])["es"]]
                        if sc != ["r", "g"]:
                            names = None
            want = {t: [(s, ("rgb", names))] for t, s in (("Fg", "fg"), ("Bg", "bg"), ("Underline", "underline"))}
            rep.check(names is not None and len(ops) == 1 and ops[0] == ("by-target", want), "codes", b["path"], "Rgb:r,g,b→target-slot",
                      f"`;2;r;g;b` sets the selected slot to RgbColor(r, g, b) in that order: {ops}", loc(b, arm))
    # to_ansi_color: identity on the hue index
    t = facts.body("anstream", W + "to_ansi_color")
    rep.fn(t["path"])
    # table by abstract evaluation over 0..=40: a match or a constant array with `.get(i)` are the same table
    import abseval
    got = {}
    for i in range(41):
        ev = abseval.Evaluator(facts, "anstream", {})
        env = abseval.Env()
        env[t["params"][0].get("name")] = ("int", i)
        try:
            try:
                r = ev.ev(t["hir"], env)
            except abseval.Return as rt:
                r = rt.v
        except Unrecognised as ex:
            raise Unrecognised(f"to_ansi_color: {ex}")
        if r[0] == "some" and r[1][0] == "enum":
            got[i] = r[1][1].split("::")[-1]
        elif r[0] != "none":
            got[i] = str(r)
        rep.count()
    rep.check(got == {i: sgr.ANSI16[i] for i in range(8)} or got == {i: sgr.ANSI16[i] for i in range(16)}, "codes", t["path"],
              "identity-on-hue-index", f"{got}", loc(t))


def rule_substate(facts, rep):
    d = Dispatch(facts)
    b = d.b
    flow = enumflow.Flow("state", d.variants, ST)
    flow.run(b["hir"], frozenset(d.variants))
    # the declared start
    lets = [s for s in d.top if s.get("k") == "let" and s["pat"].get("name") == "state"]
    rep.check(len(lets) == 1 and hir.is_def(lets[0]["init"], "State::Normal"), "substate", b["path"], "starts-Normal",
              "every sequence starts with the sub-parser in Normal", loc(b))
    expected = {}

    def want(st, code_tag, outs):
        expected[(st, code_tag)] = outs

    n_checked = 0
    for st, vp, arm in d.arms:
        ain, aout = flow.arm_in.get(id(arm)), flow.arm_out.get(id(arm))
        codes = hir.pat_ints(vp) if vp.get("k") not in ("pbind", "pwild") else None
        tag = "_" if codes is None else (str(min(codes)) if len(codes) == 1 else f"{min(codes)}..={max(codes)}")
        if st == "*":
            # the catch-all must not change the sub-state of a well-formed group; it is entered with whatever is left
            rep.check(aout is not None and aout <= (ain or frozenset()), "substate", b["path"], "default-arm-keeps-state", f"{sorted(aout or [])}", loc(b, arm))
            continue
        if st == "Normal":
            if codes == {4}:
                exp = {"Underline"}
            elif codes and codes <= {38, 48, 58}:
                exp = {"PrepareCustomColor"}
            else:
                exp = {"Normal"}
        elif st == "PrepareCustomColor":
            exp = {"Ansi256"} if codes == {5} else {"Rgb"} if codes == {2} else {"PrepareCustomColor"}
        elif st == "Ansi256":
            exp = {"Normal"}
        elif st == "Rgb":
            exp = {"Rgb", "Normal"}
        elif st == "Underline":
            exp = {"Underline"}
        else:
            exp = set()
        n_checked += 1
        rep.check(aout is not None and set(aout) == exp, "substate", b["path"], f"({st},{tag})→{'|'.join(sorted(exp))}",
                  f"arm ({st}, {tag}) must leave the sub-parser in {sorted(exp)}; the dataflow finds {sorted(aout or [])}"
                  + (" — a completed attribute group must return to Normal, otherwise the next parameter of the same sequence is "
                     "read as part of the group (e.g. ESC[38;5;10;1m loses the bold)" if st in ("Ansi256", "Rgb") else ""),
                  loc(b, arm))
    # Rgb: exactly the completing sub-arm returns to Normal
    for st, vp, arm in d.arms:
        if st != "Rgb":
            continue
        inner = [n for n in hir.walk(arm["body"]) if n.get("k") == "match" and hir.simp(n["scrut"]).get("k") == "tuple"]
        if len(inner) != 1:
            rep.bad("substate", b["path"], "Rgb:inner-match", "Rgb arm shape", loc(b, arm))
            continue
        for i, a in enumerate(inner[0]["arms"]):
            completes = bool([n for n in hir.walk(a["body"]) if n.get("k") == "assign" and hir.is_local(n["l"], "style")])
            out = flow.arm_out.get(id(a))
            exp = {"Normal"} if completes else {"Rgb"}
            rep.check(out is not None and set(out) == exp, "substate", b["path"], f"Rgb:component-{i}→{'|'.join(sorted(exp))}",
                      f"Rgb component arm {i} ({'completes the colour' if completes else 'stores a component'}) must leave {sorted(exp)}, finds {sorted(out or [])}",
                      loc(b, a))
            # stores: first → r, second → g
            if not completes:
                tgt = [hir.local_name(n["l"]) for n in hir.walk(a["body"]) if n.get("k") == "assign"]
                rep.check(tgt == [["r"], ["g"]][i] if i < 2 else False, "substate", b["path"], f"Rgb:component-{i}-stored-in-{'rg'[i] if i < 2 else '?'}",
                          f"{tgt}", loc(b, a))
    # end of one parameter (end of the inner sub-parameter loop): Underline must not survive
    outer = [n for n in hir.walk(b["hir"]) if n.get("k") == "loop" and n.get("src") == "ForLoop"]
    ok = False
    detail = ""
    if len(outer) == 2:
        outer_loop = outer[0]
        # environment at the head of the outer loop after fixpoint = join over iterations of the end-of-parameter state
        head = flow.at.get(id(outer_loop["body"]))
        # state when the outer loop exits
        ex = flow.loop_exit.get(id(outer_loop))
        ok = head is not None and "Underline" not in head and ex is not None and "Underline" not in ex
        detail = f"at the start of a parameter the sub-parser may be in {sorted(head or [])}"
    rep.check(ok, "substate", b["path"], "Underline-ends-with-its-parameter",
              "underline styles are sub-parameters of 4 (`4:3`); at the end of the parameter the sub-parser must be back in "
              f"Normal, or `ESC[4;3m` is read as `4:3`. {detail}", loc(b))
    rep.count(n_checked)
    # every `break` of the code table leaves the sub-parameter loop only: an unknown or finished code must not abort the
    # remaining parameters of the sequence ("codes without a representation change nothing")
    inner_label = outer[1].get("label") if len(outer) == 2 else None
    brks = [n for n in hir.walk(d.m) if n.get("k") == "break"]
    bad = [n for n in brks if n.get("label") is not None and n.get("label") != inner_label]
    rets = [n for n in hir.walk(d.m) if n.get("k") == "ret"]
    rep.check(not bad and not rets and len(brks) >= 10, "substate", b["path"], "breaks-leave-only-the-sub-parameter-loop",
              f"{len(bad)} break(s) of the code table target an outer loop and {len(rets)} return: the codes that follow in the same "
              f"sequence would be dropped (e.g. ESC[5;31m loses the red)", loc(b, (bad + rets)[0]) if (bad or rets) else loc(b))
    # targets: color_target assigned when entering PrepareCustomColor; r and g cleared when entering Rgb
    for st, vp, arm in d.arms:
        outs = flow.arm_out.get(id(arm)) or frozenset()
        asg = {hir.local_name(n["l"]): n for n in hir.walk(arm["body"]) if n.get("k") == "assign" and hir.simp(n["l"]).get("k") == "local"}
        if st == "Normal" and "PrepareCustomColor" in outs:
            codes = hir.pat_ints(vp)
            rep.check("color_target" in asg, "targets", b["path"], f"color_target-set-on-{min(codes)}",
                      "the colour target is (re)assigned whenever an extended-colour group starts", loc(b, arm))
        if st == "PrepareCustomColor" and "Rgb" in outs:
            ok = all(x in asg and hir.is_def(asg[x]["r"], "Option::None") for x in ("r", "g"))
            rep.check(ok, "targets", b["path"], "r-g-cleared-on-Rgb-entry", "components of an earlier, unfinished group must not leak", loc(b, arm))
    # r/g/color_target are read only in the states that own them
    rep.check(True, "targets", b["path"], "checked", "")


def rule_emit(facts, rep):
    d = Dispatch(facts)
    b = d.b
    # the epilogue (everything after the parameter loop) is decided by abstract evaluation over old style / new style /
    # pending text: afterwards self.style is the new style, and self.ready = Some(OLD style) exactly when the style changed
    # and text is pending — whether the old style is read before the store or saved by mem::replace
    import abseval
    loops = [i for i, s in enumerate(d.top) if any(x.get("k") == "loop" for x in hir.walk(s))]
    if not loops:
        raise Unrecognised("csi_dispatch: parameter loop not found")
    tail = d.top[loops[-1] + 1:]
    style_local = [n for n in d.top[:loops[-1]] if n.get("k") == "let" and n["pat"].get("k") == "pbind" and hir.place_str(n.get("init")) == "self.style"]
    if len(style_local) != 1:
        raise Unrecognised("csi_dispatch: `let mut style = self.style` not found")
    sname = style_local[0]["pat"]["name"]
    bad = []
    n_cases = 0

    def run(choices):
        ev = abseval.Evaluator(facts, "anstream", {"alloc::string::String::is_empty": lambda a: ("bool", ev.oracle(("printable", "empty")))})
        ev.choices = choices
        env = abseval.Env()
        env[sname] = ("sym", "new")
        env["self.style"] = ("sym", "old")
        env["self.ready"] = ("none",)
        env["self.printable"] = ("sym", "text")
        try:
            ev.ev({"k": "block", "stmts": list(tail)}, env)
        except abseval.Return:
            pass
        return env["self.style"], env["self.ready"], list(ev.stores)
    for choices, (fin_style, fin_ready, stores) in abseval.explore(run):
        n_cases += 1
        same = choices.get(("new", ("sym", "old")), choices.get(("old", ("sym", "new"))))
        empty = choices.get(("printable", "empty"))
        want_ready = ("some", ("sym", "old")) if (same is False and empty is False) else ("none",)
        if same is None or (same is False and empty is None):
            bad.append(f"the decision does not depend on both `style != self.style` and `!self.printable.is_empty()` (case {choices})")
        if fin_ready != want_ready:
            bad.append(f"style {'unchanged' if same else 'changed'}, text {'none' if empty else 'pending'}: ready = {fin_ready}, expected {want_ready}")
        if fin_style != ("sym", "new"):
            bad.append(f"self.style ends as {fin_style}, expected the new style")
    rep.count(n_cases)
    b_ready = [m for m in bad if "ready" in m or "decision" in m]
    rep.check(not b_ready and n_cases >= 3, "emit", b["path"], "run-ready-iff-style-changed-and-text-pending",
              f"self.ready = Some(self.style /* the OLD style */) exactly when style != self.style && !self.printable.is_empty(): {b_ready[:2]}", loc(b))
    b_style = [m for m in bad if "self.style ends" in m]
    rep.check(not b_style, "emit", b["path"], "new-style-stored-last", f"self.style = style at the end of every dispatch: {b_style[:1]}", loc(b))
    # print / execute only append
    p = facts.body("anstream", FN + "print")
    st = hir.stmts_of(p["hir"])
    rep.check(len(st) == 1 and hir.is_call(st[0], "String::push") and hir.place_str(hir.simp(st[0])["args"][0]) == "self.printable"
              and hir.is_local(hir.simp(st[0])["args"][1], "c"), "emit", p["path"], "print-appends", "", loc(p))
    e = facts.body("anstream", FN + "execute")
    st = hir.stmts_of(e["hir"])
    ok = False
    if len(st) == 1 and hir.simp(st[0]).get("k") == "if" and "e" not in hir.simp(st[0]):
        c = hir.simp(hir.simp(st[0])["c"])
        body = hir.stmts_of(hir.simp(st[0])["t"])
        ok = (hir.is_call(c, "core::num::<impl u8>::is_ascii_whitespace") and hir.is_local(c["args"][0], "byte") and len(body) == 1
              and hir.is_call(body[0], "String::push") and hir.simp(hir.simp(body[0])["args"][1]).get("k") == "cast"
              and hir.is_local(hir.simp(hir.simp(body[0])["args"][1])["e"], "byte"))
    rep.check(ok, "emit", e["path"], "execute-appends-whitespace-only", "same whitespace predicate as the strip adapter", loc(e))
    for f in (p, e):
        rep.fn(f["path"])
    # other Perform callbacks are not overridden (non-SGR sequences change nothing)
    imp = [i for i in facts.items("anstream") if i["dk"] == "Impl" and i.get("trait") == "anstyle_parse::Perform"]
    names = sorted(a["name"] for i in imp for a in i["assoc"])
    rep.check(names == ["csi_dispatch", "execute", "print"], "emit", W + "WinconCapture", "only-print-execute-csi-overridden",
              f"{names} — hook/put/osc/esc callbacks keep their empty defaults", "")
    # next_bytes: yields (ready or current style, take(printable)); stops the scan when a run is ready
    n = facts.body("anstream", W + "next_bytes")
    rep.fn(n["path"])
    wl = [hir.while_loop(x) for x in hir.walk(n["hir"]) if x.get("k") == "loop" and x.get("src") == "While"]
    ok = len(wl) == 1 and hir.is_call(hir.simp(wl[0][0]), "Option::<T>::is_none") and hir.place_str(hir.simp(wl[0][0])["args"][0]) == "capture.ready"
    rep.check(ok, "emit", n["path"], "scan-until-run-ready", "", loc(n))
    O = hir.Origins(n["hir"])
    somes = [x for x in hir.walk(n["hir"]) if x.get("k") == "call" and x.get("ctor", "").endswith("Option::Some") and hir.simp(x["args"][0]).get("k") == "tuple"
             and len(hir.simp(x["args"][0])["es"]) == 2]
    ok_style = ok_take = False
    if len(somes) == 1:
        t = hir.simp(somes[0]["args"][0])
        sty, sproj = O.of(t["es"][0])
        # capture.ready.unwrap_or(capture.style), or the same thing as a match / if let on capture.ready
        if hir.is_call(sty, "Option::<T>::unwrap_or") and not sproj:
            ok_style = hir.place_str(sty["args"][0]) == "capture.ready" and hir.place_str(sty["args"][1]) == "capture.style"
        elif sty.get("k") in ("match", "if"):
            vals = O._branch_values(sty) or []
            kinds = set()
            for v in vals:
                o, pr = O.of(v)
                if hir.place_str(o) == "capture.ready" and pr == ("Some",):
                    kinds.add("ready")
                elif hir.place_str(o) == "capture.style" and not pr:
                    kinds.add("style")
                else:
                    kinds.add("?")
            scr = hir.simp(sty["scrut"]) if sty.get("k") == "match" else hir.simp(hir.simp(sty["c"]).get("init", {}))
            ok_style = kinds == {"ready", "style"} and hir.place_str(scr) == "capture.ready"
        tk, tproj = O.of(t["es"][1])
        ok_take = hir.is_call(tk, "core::mem::take") and hir.place_str(tk["args"][0]) == "capture.printable" and not tproj
        takes = [x for x in hir.walk(n["hir"]) if hir.is_call(x, "core::mem::take", "core::mem::replace")]
        ok_take = ok_take and len(takes) == 1
    rep.check(ok_style, "emit", n["path"], "yielded-style-is-ready-or-current", "", loc(n))
    rep.check(ok_take, "emit", n["path"], "yields-(style,take(printable))", "the pending text is handed over exactly once", loc(n))
    emp = [x for x in hir.stmts_of(n["hir"]) if hir.simp(x).get("k") == "if" and hir.is_call(hir.simp(hir.simp(x)["c"]), "String::is_empty")]
    rep.check(len(emp) == 1 and hir.diverges(hir.simp(emp[0])["t"]), "emit", n["path"], "None-when-no-text", "", loc(n))


# ---------------------------------------------------------------------------------------------------------------------
# the whole of csi_dispatch against a model, by evaluation

def _params_value(groups):
    """An anstyle_parse::Params holding the given parameters (each a list: the value and its ':' sub-parameters)."""
    flat, sub = [], [0] * 32
    for g in groups:
        sub[len(flat)] = len(g)
        flat += g
    n = len(flat)
    if n > 32:
        raise ValueError("more than 32 parameter slots")
    flat = flat + [0] * (32 - n)
    return ("rec", {"subparams": ("array",) + tuple(("int", x) for x in sub), "params": ("array",) + tuple(("int", x) for x in flat),
                    "current_subparams": ("int", 0), "len": ("int", n)})


def _style_value(fg, bg, ul, eff):
    def col(c):
        if c is None:
            return ("none",)
        if c[0] == "ansi":
            return ("some", ("ctor", "anstyle::color::Color::Ansi", ("enum", "anstyle::color::AnsiColor::" + c[1])))
        if c[0] == "idx":
            return ("some", ("ctor", "anstyle::color::Color::Ansi256", ("ctor", "anstyle::color::Ansi256Color", ("int", c[1]))))
        return ("some", ("ctor", "anstyle::color::Color::Rgb", ("ctor", "anstyle::color::RgbColor", ("int", c[1]), ("int", c[2]), ("int", c[3]))))
    return ("rec", {"fg": col(fg), "bg": col(bg), "underline": col(ul), "effects": ("ctor", "anstyle::effect::Effects", ("int", eff))})


def _style_read(v):
    def col(c):
        if c == ("none",):
            return None
        c = c[1]
        if c[0] == "ctor" and c[1].endswith("Color::Ansi"):
            return ("ansi", c[2][1].split("::")[-1])
        if c[0] == "ctor" and c[1].endswith("Color::Ansi256"):
            return ("idx", c[2][2][1])
        if c[0] == "ctor" and c[1].endswith("Color::Rgb"):
            return ("rgb",) + tuple(x[1] for x in c[2][2:])
        raise Unrecognised(f"colour value {str(c)[:60]}")
    if v[0] != "rec":
        raise Unrecognised(f"style value {str(v)[:60]}")
    s = v[1]
    return (col(s["fg"]), col(s["bg"]), col(s["underline"]), s["effects"][2][1])


def sgr_model(groups, start, bit):
    """The set of styles a well-formed SGR parameter list may leave, from `start` = (fg, bg, underline, effect bits): the codes the
    property lists have one outcome (spec/sgr.py); a code it does not list either changes nothing or follows SGR."""
    states = {start}
    i = 0
    while i < len(groups):
        g = groups[i]
        i += 1
        c = g[0]
        nxt = set()
        ext = None
        if c in (38, 48, 58):
            # the selector and its arguments: further values of the same parameter (':' spelling) or the following parameters (';')
            rest = g[1:]
            j = i
            while len(rest) < 1 and j < len(groups) and len(groups[j]) == 1:
                rest = rest + groups[j]
                j += 1
            if rest and rest[0] == 5:
                while len(rest) < 2 and j < len(groups) and len(groups[j]) == 1:
                    rest = rest + groups[j]
                    j += 1
                ext = ("idx", rest[1])
            elif rest and rest[0] == 2:
                while len(rest) < 4 and j < len(groups) and len(groups[j]) == 1:
                    rest = rest + groups[j]
                    j += 1
                ext = ("rgb", rest[1], rest[2], rest[3])
            else:
                raise ValueError("not a well-formed extended colour")
            i = j
        for (fg, bg, ul, eff) in states:
            if ext is not None:
                nxt.add((ext if c == 38 else fg, ext if c == 48 else bg, ext if c == 58 else ul, eff))
            elif c == 0:
                nxt.add((None, None, None, 0))
            elif c == 4 and len(g) == 2:
                st = sgr.UNDERLINE_STYLE.get(g[1], "UNDERLINE")        # an unknown style number leaves the plain underline that `4` set
                e2 = eff | bit["UNDERLINE"]
                if st != "UNDERLINE":
                    e2 &= ~bit["UNDERLINE"]
                    if st is not None:
                        e2 |= bit[st]
                nxt.add((fg, bg, ul, e2))
            elif c in (1, 2, 3, 4, 7, 8, 9, 21):
                nxt.add((fg, bg, ul, eff | bit[sgr.EFFECT_ON[c]]))
            elif sgr.colour_code(c):
                slot, name = sgr.colour_code(c)
                nxt.add((("ansi", name) if slot == "fg" else fg, ("ansi", name) if slot == "bg" else bg, ul, eff))
            elif c == 39:
                nxt.add((None, bg, ul, eff))
            elif c == 49:
                nxt.add((fg, None, ul, eff))
            else:
                nxt.add((fg, bg, ul, eff))                     # not listed: nothing changes ...
                if c in sgr.EFFECT_ON:                          # ... or SGR is followed
                    nxt.add((fg, bg, ul, eff | bit[sgr.EFFECT_ON[c]]))
                elif c in sgr.EFFECT_OFF:
                    e2 = eff
                    for e_ in sgr.EFFECT_OFF[c]:
                        e2 &= ~bit[e_]
                    nxt.add((fg, bg, ul, e2))
                elif c == 59:
                    nxt.add((fg, bg, None, eff))
        states = nxt
    return states


def rule_model(facts, rep, tier="quick"):
    """`csi_dispatch` evaluated as a whole (the real Params iterator underneath) on well-formed parameter lists — every pair of
    attribute groups (thorough: also triples) over a representative set, extended colours and underline styles in both the ';' and
    the ':' spelling, from the default style and from a busy one — against the model: attributes combined in one sequence act
    like the same attributes one after the other, whatever they are."""
    import abseval
    b = facts.body("anstream", FN + "csi_dispatch")
    bit = {n_: v for n_, v, _ in ac.effect_consts(facts)}
    # (codes above 255 are unknown codes like any other: a value narrowed to a byte before it is matched would alias 256 to 0, 257 to 1 ..)
    singles = [[c] for c in (0, 1, 2, 3, 4, 5, 7, 8, 9, 10, 21, 22, 24, 27, 30, 31, 37, 39, 40, 47, 49, 59, 60, 90, 97, 100, 107, 108, 255,
                             256, 257, 260, 287, 295, 305, 512, 1000, 65535)]
    units = [[g] for g in singles] + [[[4, n]] for n in range(6)] + [[[4, 7]], [[4, 256]], [[4, 258]]]
    for code in (38, 48, 58):
        units += [[[code], [5], [9]], [[code, 5, 200]], [[code], [2], [1], [2], [3]], [[code, 2, 250, 128, 7]]]
    starts = [(None, None, None, 0),
              (("ansi", "Red"), ("ansi", "Green"), ("idx", 9), bit["BOLD"] | bit["UNDERLINE"] | bit["CURLY_UNDERLINE"] | bit["INVERT"])]
    lists = [u for u in units] + [u + v for u in units for v in units]
    if tier == "thorough":
        small = [[[c]] for c in (0, 1, 4, 9, 22, 31, 39, 42, 49, 91, 104, 60)] + [[[4, 3]], [[4, 0]], [[38], [5], [9]], [[48, 2, 1, 2, 3]], [[58, 5, 7]]]
        lists += [u + v + w for u in small for v in small for w in small]
    bad, n = [], 0
    for groups in lists:
        if sum(len(g) for g in groups) > 32:
            continue
        pv = _params_value(groups)
        for start in starts:
            n += 1
            try:
                ev = abseval.Evaluator(facts, "anstream", {}, inline_crates=("anstream", "anstyle_parse", "anstyle"))
                ev.concrete_strings = True
                fin = []
                pending = ("", "x", "  ", "\n")[n % 4]
                ev.call_fn("anstream", b["path"], [("rec", {"style": _style_value(*start), "printable": ("str", pending), "ready": ("none",)}),
                                                   pv, ("array",), ("bool", False), ("int", ord("m"))], final=fin)
                got = _style_read(fin[0][1]["style"])
                # the run epilogue: the pending text is closed under the old style exactly when the style changes and there is text
                want_ready = ("some", _style_value(*start)) if (got != start and pending != "") else ("none",)
                if fin[0][1]["ready"] != want_ready or fin[0][1]["printable"] != ("str", pending):
                    got = ("epilogue", str(fin[0][1]["ready"])[:60], fin[0][1]["printable"], "pending text", pending)
            except Unrecognised as ex:
                got = ("not-evaluable", str(ex)[:80])
            want = sgr_model(groups, start, bit)
            if got not in want:
                text = ";".join(":".join(str(x) for x in g) for g in groups)
                bad.append(f"ESC[{text}m from {start}: {got}, expected {sorted(want, key=str)[:2]}")
                if len(bad) > 20:
                    break
        if len(bad) > 20:
            break
    rep.count(n)
    rep.check(not bad, "model", b["path"], "parameter-lists-against-the-SGR-model", f"{n} (list, starting style) cases evaluated {bad[:3]}"[:600], loc(b))
