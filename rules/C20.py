"""C20 — parser feature configurations differ only by their documented limits."""
import copy
import json
import re

import hir
import hirpp
from core import AnchorMissing, Unrecognised, loc
from rules import common_parse as cp
from spec import vt500

META = {
    "explanation": (
        "Configuration diff: anstyle-parse is type-checked in its four feature sets {default(utf8), none, core, core+utf8} and "
        "the normalised HIR of every body and every item fact is compared across them. Allowed differences only: item level — "
        "the type of Parser::osc_raw (Vec<u8> vs ArrayVec<u8, MAX_OSC_RAW>), the MAX_OSC_RAW const, the DefaultCharAccumulator "
        "alias target, presence of Utf8Parser / VtUtf8Receiver and their impls; body level — inside perform_action, one guard "
        "`if self.osc_raw.is_full() { return }` at the head of the OscPut arm, and the receiver type of osc_raw.{clear,len,push} / "
        "the osc_raw[a..b] index. Everything else must be identical, so callbacks are identical. Then (a) in the core builds "
        "every ArrayVec::push lies on the !is_full() path and the guard returns before any state is touched (truncated, never "
        "overflowed; what follows is unaffected); (b) the character accumulator is reachable only from process_utf8, which is "
        "reachable only in state Utf8 or on action BeginUtf8, and the transition table — identical in all four builds — has "
        "neither for any byte < 0x80 in any state, so 7-bit inputs cannot observe the utf8 feature."),
    "exhaustive": True,
}

MANIFEST = {
    "level": ("Complete static argument for the property as stated: identical bodies give identical callbacks, and the only "
              "non-identical statements are the documented OSC-buffer guard and receiver types; the 7-bit clause is a query on "
              "the constant table. The four configurations are real builds type-checked by the compiler, not textual cfg "
              "reasoning."),
    "note": ("Trusted: rustc front end/const eval for each feature set; arrayvec's push/is_full/len/clear have Vec-like meaning "
             "below capacity. Outside the stated domain (observation): without `utf8`, a byte >= 0xc2 in Ground reaches "
             "unreachable!() by design."),
    "technique": "static analysis: cross-configuration diff of normalised HIR and item facts with an explicit allowlist, guard-dominance rule for the fixed buffer, table query for 7-bit inputs",
}

QUICK_CONFIGS = ["parse-none", "parse-core", "parse-core-utf8"]
CONFIGS = ["default", "parse-none", "parse-core", "parse-core-utf8"]
HAS_UTF8 = {"default": True, "parse-none": False, "parse-core": False, "parse-core-utf8": True}
HAS_CORE = {"default": False, "parse-none": False, "parse-core": True, "parse-core-utf8": True}

UTF8_ONLY = re.compile(r"(anstyle_parse::Utf8Parser|anstyle_parse::VtUtf8Receiver)")


OSC_CALLEE = [
    (re.compile(r"^<alloc::vec::Vec<T(, A)?> as (.+)>::(\w+)$"), r"<OSC_RAW as \2>::\3"),
    (re.compile(r"^<arrayvec::arrayvec::ArrayVec<T, CAP> as (.+)>::(\w+)$"), r"<OSC_RAW as \1>::\2"),
    (re.compile(r"^alloc::vec::partial_eq::<impl core::cmp::PartialEq<alloc::vec::Vec<U, A2>> for alloc::vec::Vec<T, A1>>::(\w+)$"), r"<OSC_RAW as core::cmp::PartialEq>::\1"),
    (re.compile(r"^alloc::vec::Vec::<T, A>::(clear|len|push)$"), r"OSC_RAW::\1"),
    (re.compile(r"^arrayvec::arrayvec::ArrayVec::<T, CAP>::(clear|len|push|is_full)$"), r"OSC_RAW::\1"),
]


def norm_ty(s):
    if not isinstance(s, str):
        return s
    s = s.replace("alloc::vec::Vec<u8>", "OSC_RAW").replace("arrayvec::arrayvec::ArrayVec<u8, 1024>", "OSC_RAW")
    s = s.replace("arrayvec::arrayvec::ArrayVec<u8, MAX_OSC_RAW>", "OSC_RAW")
    s = s.replace("anstyle_parse::Parser<anstyle_parse::Utf8Parser>", "anstyle_parse::Parser<DEFAULT_ACC>")
    s = s.replace("anstyle_parse::Parser<anstyle_parse::AsciiParser>", "anstyle_parse::Parser<DEFAULT_ACC>")
    return s


def norm_str(s):
    return norm_ty(s)


def norm_callee(s):
    for rx, rep_ in OSC_CALLEE:
        if rx.search(s):
            return rx.sub(rep_, s)
    return s


def touches_osc_raw(node):
    """Does this call / operator / field initialiser act on the `osc_raw` field?"""
    for key in ("args",):
        for a in node.get(key, []) or []:
            ps = hir.place_str(a)
            if ps and ps.endswith("osc_raw"):
                return True
    for key in ("l", "r", "e"):
        if isinstance(node.get(key), dict):
            ps = hir.place_str(node[key])
            if ps and ps.endswith("osc_raw"):
                return True
    return False


def norm_tree(x, osc_field=False):
    """Drop positions; unify the two buffer types — the callee only where the receiver is the osc_raw field."""
    if isinstance(x, dict):
        osc = osc_field or (x.get("k") in ("call", "bin", "index", "assignop") and touches_osc_raw(x))
        out = {}
        for k, v in x.items():
            if k in ("ln", "mac", "file", "copy_of"):
                continue
            if k in ("callee", "resolved") and isinstance(v, str) and osc:
                out[k] = norm_callee(v)
            elif k == "base_ty" and osc and v in ("&alloc::vec::Vec<u8>", "&[u8]", "&arrayvec::arrayvec::ArrayVec<u8, 1024>"):
                out[k] = "&OSC_RAW_SLICE"
            elif k == "fields" and isinstance(v, list):
                out[k] = [norm_tree(f, osc_field=(isinstance(f, dict) and f.get("name") == "osc_raw")) if isinstance(f, dict) else f for f in v]
            elif k == "e" and osc_field and isinstance(v, dict):
                out[k] = norm_tree(v, osc_field=True)
            else:
                out[k] = norm_tree(v)
        return out
    if isinstance(x, list):
        return [norm_tree(v) for v in x]
    return norm_ty(x)


def renumber(x, m):
    """Local ids shift when a statement is added; renumber them in order of first appearance."""
    if isinstance(x, dict):
        out = {}
        for k, v in x.items():
            if k == "id" and isinstance(v, int) and x.get("k") in ("local", "pbind"):
                out[k] = m.setdefault(v, len(m))
            else:
                out[k] = renumber(v, m)
        return out
    if isinstance(x, list):
        return [renumber(v, m) for v in x]
    return x


def canon(x):
    return json.dumps(renumber(norm_tree(x), {}), sort_keys=False)


def run(ctx):
    rep = ctx.report
    missing = [c for c in CONFIGS if c not in ctx.configs]
    if missing:
        raise AnchorMissing(f"configurations not extracted: {missing}")
    rep.guarded("features", "anstyle_parse", lambda: rule_features(ctx, rep))
    rep.guarded("diff-bodies", "anstyle_parse", lambda: rule_diff_bodies(ctx, rep))
    rep.guarded("diff-items", "anstyle_parse", lambda: rule_diff_items(ctx, rep))
    rep.guarded("arrayvec-guard", "anstyle_parse::Parser::<C>::perform_action", lambda: rule_guard(ctx, rep))
    rep.guarded("seven-bit", "STATE_CHANGES", lambda: rule_seven_bit(ctx, rep))
    for r, n in (("features", 4), ("diff-bodies", 70), ("diff-items", 100), ("arrayvec-guard", 4), ("seven-bit", 4)):
        rep.floor(r, n)


def rule_features(ctx, rep):
    want = {"default": {"default", "utf8"}, "parse-none": set(), "parse-core": {"core"}, "parse-core-utf8": {"core", "utf8"}}
    for c in CONFIGS:
        got = set(ctx.configs[c].crate("anstyle_parse")["cfg_features"])
        rep.check(got == want[c], "features", "anstyle_parse", c, f"configuration {c} was built with features {sorted(got)}", "")


def bodies_of(facts):
    out = {}
    for b in facts.bodies("anstyle_parse"):
        if b["kind"] == "Closure":
            continue
        out.setdefault(b["path"], []).append(b)
    return out


def strip_core_guard(b, rep):
    """perform_action in a core build: remove the documented guard at the head of the OscPut arm (after checking its shape)."""
    b = copy.deepcopy(b)
    m = None
    for n in hir.walk(b["hir"]):
        if n.get("k") == "match" and hir.is_local(n["scrut"], "action"):
            m = n
            break
    if m is None:
        raise Unrecognised("perform_action: match on action")
    for a in m["arms"]:
        if hir.pat_path(a["pat"]) == cp.ACTION + "::OscPut":
            body = a["body"]
            st = body.get("stmts", [])
            if not st:
                raise Unrecognised("OscPut arm: guard statement expected first in the core build")
            g = hir.simp(st[0])
            inner = [g] if g.get("k") == "if" else hir.stmts_of(g)      # the guard, bare or in the block a `#[cfg]` attribute needs
            ok = False
            if len(inner) == 1 and hir.simp(inner[0]).get("k") == "if" and "e" not in hir.simp(inner[0]):
                c = hir.simp(hir.simp(inner[0])["c"])
                t = hir.stmts_of(hir.simp(inner[0])["t"])
                ok = (c.get("k") == "call" and (hir.callee(c) or "") == "arrayvec::arrayvec::ArrayVec::<T, CAP>::is_full"
                      and hir.place_str(c["args"][0]) == "self.osc_raw" and len(t) == 1 and hir.simp(t[0]).get("k") == "ret" and "e" not in hir.simp(t[0]))
            rep.check(ok, "arrayvec-guard", b["path"], "guard-shape",
                      "the only extra statement of the core build is `if self.osc_raw.is_full() { return; }` at the head of the OscPut arm", loc(b, g))
            body["stmts"] = st[1:]
            return b
    raise Unrecognised("OscPut arm not found")


def rule_diff_bodies(ctx, rep):
    per = {c: bodies_of(ctx.configs[c]) for c in CONFIGS}
    allp = sorted(set().union(*[set(p) for p in per.values()]))
    for path in allp:
        present = {c: path in per[c] for c in CONFIGS}
        utf8_only = bool(UTF8_ONLY.search(path))
        core_only = path == "anstyle_parse::MAX_OSC_RAW"
        if "{constant#" in path:
            continue   # anonymous array-length / const-generic arguments; their effect is in the types compared below
        if utf8_only:
            ok = all(present[c] == HAS_UTF8[c] for c in CONFIGS)
            rep.check(ok, "diff-bodies", path, "present-iff-utf8", f"{present}", "")
            continue
        if core_only:
            ok = all(present[c] == HAS_CORE[c] for c in CONFIGS)
            rep.check(ok, "diff-bodies", path, "present-iff-core", f"{present}", "")
            continue
        if not all(present.values()):
            rep.bad("diff-bodies", path, "exists-in-every-configuration",
                    f"`{path}` exists only in {[c for c in CONFIGS if present[c]]}: an undocumented configuration difference", "")
            continue
        variants = {}
        for c in CONFIGS:
            bs = per[c][path]
            if len(bs) != 1:
                raise Unrecognised(f"{path}: {len(bs)} bodies in {c}")
            b = bs[0]
            if path == "anstyle_parse::Parser::<C>::perform_action" and HAS_CORE[c]:
                b = strip_core_guard(b, rep)
            variants[c] = canon({"hir": b.get("hir"), "params": b.get("params"), "sig": b.get("sig"), "unsafe_fn": b.get("unsafe_fn")})
        same = len(set(variants.values())) == 1
        detail = ""
        if not same:
            ref = variants["default"]
            diff = [c for c in CONFIGS if variants[c] != ref]
            detail = (f"body differs from the default build in {diff} beyond the allowed differences (osc_raw receiver types and the "
                      f"is_full guard of the OscPut arm): a feature-conditional statement changes behaviour")
        b0 = per["default"][path][0]
        rep.fn(path)
        rep.check(same, "diff-bodies", path, "identical-across-configurations", detail, loc(b0))
        rep.count()
    # MIR-level: number of blocks may differ only where HIR was allowed to differ — not needed once HIR is identical


def item_key(it):
    return (it["path"], it["dk"])


def rule_diff_items(ctx, rep):
    per = {}
    for c in CONFIGS:
        d = {}
        for it in ctx.configs[c].items("anstyle_parse"):
            d.setdefault(item_key(it), []).append(it)
        per[c] = d
    allk = sorted(set().union(*[set(p) for p in per.values()]))
    for key in allk:
        path, dk = key
        present = {c: key in per[c] for c in CONFIGS}
        if UTF8_ONLY.search(path) or UTF8_ONLY.search(str(per[[c for c in CONFIGS if present[c]][0]][key][0].get("self_ty", ""))):
            ok = all(present[c] == HAS_UTF8[c] for c in CONFIGS)
            rep.check(ok, "diff-items", path, f"{dk}:present-iff-utf8", f"{present}", "")
            continue
        if path in ("anstyle_parse::MAX_OSC_RAW",):
            ok = all(present[c] == HAS_CORE[c] for c in CONFIGS)
            rep.check(ok, "diff-items", path, f"{dk}:present-iff-core", f"{present}", "")
            if present["parse-core"]:
                rep.check(per["parse-core"][key][0].get("value") == 1024, "diff-items", path, "=1024", "documented fixed OSC buffer size", "")
            continue
        if path.startswith("anstyle_parse::alloc") or path == "anstyle_parse::{extern crate}" or dk in ("Use", "ExternCrate"):
            continue
        if dk == "Impl":
            # impls are keyed by printed path; their count per key must agree (uses of `extern crate alloc` aside)
            pass
        if not all(present.values()):
            if dk in ("Mod", "Macro(Bang)", "Use"):
                continue
            rep.bad("diff-items", path, f"{dk}:exists-in-every-configuration", f"{present}", "")
            continue
        variants = {}
        for c in CONFIGS:
            its = per[c][key]
            x = [norm_tree({k: v for k, v in it.items() if k not in ("ln", "file", "mac", "repr")}) for it in its]
            if path == "anstyle_parse::Parser" and dk == "Struct":
                # the one documented field-type difference
                for it in x:
                    for v in it.get("variants", []):
                        for f in v["fields"]:
                            if f["name"] == "osc_raw":
                                f["ty"] = "OSC_RAW"
            if path == "anstyle_parse::DefaultCharAccumulator":
                x = "alias"
            variants[c] = json.dumps(x, sort_keys=True)
        same = len(set(variants.values())) == 1
        rep.check(same, "diff-items", path, f"{dk}:identical-across-configurations",
                  "" if same else f"item facts differ between configurations: {[c for c in CONFIGS if variants[c] != variants['default']]}", "")
        rep.count()
    # the documented field types
    for c in CONFIGS:
        st = ctx.configs[c].item("anstyle_parse", "anstyle_parse::Parser", "Struct")
        ty = {f["name"]: f["ty"] for f in st["variants"][0]["fields"]}["osc_raw"]
        want = ("arrayvec::arrayvec::ArrayVec<u8, 1024>", "arrayvec::arrayvec::ArrayVec<u8, MAX_OSC_RAW>") if HAS_CORE[c] else ("alloc::vec::Vec<u8>",)
        rep.check(ty in want, "diff-items", "anstyle_parse::Parser.osc_raw", f"type@{c}", f"{ty}", "")


def rule_guard(ctx, rep):
    for c in CONFIGS:
        if not HAS_CORE[c]:
            continue
        facts = ctx.configs[c]
        # the OSC arms of this configuration by evaluation (C02's rule), with the fixed buffer not full and full: a full buffer drops
        # payload bytes and nothing else — the terminator still closes the last parameter and dispatches
        from rules import C02
        r2 = rep.scoped(c)
        r2.guarded("osc-arms", "anstyle_parse::Parser::<C>::perform_action", lambda facts=facts, r2=r2: C02.rule_osc_arms(facts, r2))
        r2.guarded("osc-arms", "anstyle_parse::Parser::<C>::perform_action", lambda facts=facts, r2=r2: C02.rule_osc_arms(facts, r2, full_buffer=True))
        n = 0
        for b in facts.bodies("anstyle_parse"):
            if "hir" not in b:
                continue
            sites = hir.visit_with_conds(b["hir"], lambda x: x.get("k") == "call" and (hir.callee(x) or "") == "arrayvec::arrayvec::ArrayVec::<T, CAP>::push")
            for node, frames in sites:
                n += 1
                guarded = False
                for f in frames:
                    if f.get("kind") == "if" and not f["val"]:
                        e = hir.simp(f["expr"])
                        if e.get("k") == "call" and (hir.callee(e) or "").endswith("ArrayVec::<T, CAP>::is_full") and hir.same_place(e["args"][0], node["args"][0]):
                            guarded = True
                rep.check(guarded and b["path"].endswith("perform_action"), "arrayvec-guard", b["path"], f"push-under-!is_full@{c}",
                          "ArrayVec::push panics when full: it must be reached only on the !is_full() path (truncated, never overflowed)", loc(b, node))
        rep.check(n == 1, "arrayvec-guard", "anstyle_parse", f"one-push-site@{c}", f"{n} ArrayVec::push sites", "")
        # other ArrayVec methods used: only clear/len/is_full/push and slicing
        used = set()
        for b in facts.bodies("anstyle_parse"):
            if "hir" in b and not b.get("expn"):
                for x in hir.walk(b["hir"]):
                    if x.get("k") == "call" and "arrayvec::" in (hir.callee(x) or ""):
                        used.add(hir.callee(x).split("::")[-1])
        # (constructors of the empty vector, read-only accessors and shrinking methods can neither overflow nor panic)
        harmless = {"clear", "len", "is_full", "push", "deref", "index", "default", "new", "new_const", "is_empty", "capacity", "remaining_capacity",
                    "as_slice", "as_ref", "iter", "truncate", "clone", "eq", "ne", "fmt", "last", "first", "pop"}
        rep.check(used <= harmless, "arrayvec-guard", "anstyle_parse", f"arrayvec-api@{c}", f"{sorted(used - harmless) or sorted(used)}", "")


def rule_seven_bit(ctx, rep):
    tables = {}
    for c in CONFIGS:
        it, rows = cp.table(ctx.configs[c])
        tables[c] = rows
    rep.check(all(tables[c] == tables["default"] for c in CONFIGS), "seven-bit", "STATE_CHANGES", "same-table-in-all-configurations", "", "")
    rows = tables["default"]
    bad = []
    for si in range(16):
        for byte in range(0x80):
            cell = rows[si][byte]
            if vt500.STATES[cell & 15] == "Utf8" or vt500.ACTIONS[cell >> 4] == "BeginUtf8":
                bad.append((vt500.STATES[si], hex(byte)))
            rep.count()
    rep.check(not bad, "seven-bit", "STATE_CHANGES", "no-Utf8-or-BeginUtf8-below-0x80", f"{bad[:4]}", "")
    for c in CONFIGS:
        facts = ctx.configs[c]
        callers = set()
        for b in facts.bodies("anstyle_parse"):
            if "hir" not in b or b.get("expn"):
                continue
            for x in hir.walk(b["hir"]):
                if x.get("k") == "call" and hir.callee_decl(x) == "anstyle_parse::CharAccumulator::add" and not b["path"].startswith("<"):
                    callers.add(b["path"].split("::")[-1])
        rep.check(callers == {"process_utf8"}, "seven-bit", "anstyle_parse::CharAccumulator::add", f"only-from-process_utf8@{c}", f"{sorted(callers)}", "")
    # process_utf8's two callers and their conditions are decided in C02 (utf8 rule); re-state the reachability here
    facts = ctx.configs["default"]
    adv = facts.body("anstyle_parse", "anstyle_parse::Parser::<C>::advance")
    from rules import C02
    try:
        cases = C02.advance_by_value(facts)
        ok = bool(cases) and all(any(c_[0] == "process_utf8" for c_ in calls) == (st == "Utf8") for (st, _byte), (calls, _stores) in cases.items())
    except Unrecognised:
        ok = False
    rep.check(ok, "seven-bit", adv["path"], "process_utf8-only-in-state-Utf8", "advance() evaluated on every (state, byte): process_utf8 is called in state Utf8 and in no other", loc(adv))
    pa = facts.body("anstyle_parse", "anstyle_parse::Parser::<C>::perform_action")
    sites = hir.visit_with_conds(pa["hir"], lambda x: hir.is_call(x, "anstyle_parse::Parser::<C>::process_utf8"))
    ok = len(sites) == 1 and any(f.get("kind") == "arm" and hir.pat_path(f["pat"]) == cp.ACTION + "::BeginUtf8" for f in sites[0][1])
    rep.check(ok, "seven-bit", pa["path"], "process_utf8-only-on-BeginUtf8", "", loc(pa))
