"""C10 — lossy colour conversion is total, exact on exact matches and nearest otherwise (structural part)."""
import hir
import hirpp
from core import AnchorMissing, Unrecognised, loc
from rules import anstyle_common as ac
from spec import sgr

META = {
    "explanation": (
        "Static decision on anstyle_lossy: the dispatch tables of color_to_{rgb,xterm,ansi} return a colour of the target kind "
        "unchanged and route the other kinds to the right converter; xterm_to_ansi rows 0-15 are the 16 colours in palette order "
        "and agree with from_ansi/into_ansi; xterm_to_rgb consults the user palette first; XTERM_COLORS[16..] (const-evaluated "
        "bytes) equals the xterm cube/grey formula (240 cells); both matchers have the argmin-scan shape — best starts at the "
        "first candidate (16 resp. 0), the index runs by +1 from there to len(), the update guard is the strict `<` between the "
        "candidate's and the best distance (lowest index on ties and duplicates), both use the same distance; distance is a sum "
        "of three products each containing its own delta twice and a factor whose interval is strictly positive (zero iff "
        "equal, so exact entries win) and no intermediate leaves i32 (interval arithmetic from the u8 casts); the fallback index "
        "of find_match is unreachable because best_index < 16. Does NOT decide that distance is a published metric, nor "
        "optimality beyond the scan-shape lemma."),
    "exhaustive": True,
}

MANIFEST = {
    "level": ("Sound static decision of totality, same-kind identity, exact-match and tie-breaking for every colour and every "
              "user palette: these follow from the scan shape (a lemma about the loop's structure, not about its inputs) and from "
              "sign/interval facts of the distance expression; the fixed table is compared exhaustively with the xterm formula."),
    "note": ("Trusted: rustc front end/const eval; the argmin-scan lemma (a scan with strict `<` from the first candidate returns "
             "the lowest index of a minimal element); the crate's `distance` is taken as the definition of the red-mean metric."),
    "technique": "static analysis: deep abstract evaluation of color_to_rgb/xterm/ansi on every colour of every variant against the named conversion (symbolic palette, scans uninterpreted), const table vs formula, abstract evaluation of xterm_to_ansi / rgb_from_index over all 256 indices and of Palette::get over the 16 colours, case-wise evaluation of xterm_to_rgb, loop-shape (argmin scan) rule, polynomial normal form and interval analysis of the distance expression",
}

L = "anstyle_lossy::"
COLOR = "anstyle::color::Color"


def run(ctx):
    rep, facts = ctx.report, ctx.facts
    rep.guarded("dispatch", L, lambda: rule_dispatch(facts, rep))
    rep.guarded("tables", L, lambda: rule_tables(facts, rep))
    rep.guarded("scan", L, lambda: rule_scan(facts, rep, ctx.tier))
    rep.guarded("distance", L + "distance", lambda: rule_distance(facts, rep))
    # the palette scan finds a slot index and names it through anstyle's index <-> 4-bit colour tables (Ansi256Color::into_ansi /
    # from_ansi): a transposed entry there makes an exact palette colour map to another one
    from rules import links
    links.palette_tables(facts, rep)
    for r, n in (("dispatch", 9), ("tables", 8), ("scan", 18), ("distance", 8), ("colour-tables", 3)):
        rep.floor(r, n)


def rule_dispatch(facts, rep):
    want = {
        "color_to_rgb": {"Ansi": ("call", L + "ansi_to_rgb"), "Ansi256": ("call", L + "xterm_to_rgb"), "Rgb": ("same",)},
        "color_to_xterm": {"Ansi": ("call", "anstyle::color::Ansi256Color::from_ansi"), "Ansi256": ("same",), "Rgb": ("call", L + "rgb_to_xterm")},
        "color_to_ansi": {"Ansi": ("same",), "Ansi256": ("call", L + "xterm_to_ansi"), "Rgb": ("call", L + "rgb_to_ansi")},
    }
    # by deep abstract evaluation over the whole colour domain (16 named colours, 256 indices, a symbolic RGB value) against a symbolic
    # palette: color_to_X(Color::V(x)) has the value of the conversion the table names applied to x — whether the arm calls it, calls
    # something it is made of, or shares a lookup with another arm (the scans stay uninterpreted: they are the `scan` rule's subject)
    import abseval
    pal = ("ctor", L + "palette::Palette", ("array",) + tuple(("sym", f"entry{i}") for i in range(16)))
    atoms = {L + "find_xterm_match": lambda a: ("nearest-xterm",) + tuple(a), L + "palette::Palette::find_match": lambda a: ("nearest",) + tuple(a),
             "index:anstyle_lossy::XTERM_COLORS": lambda a: ("fixed", a[0])}
    domain = {"Ansi": [("enum", "anstyle::color::AnsiColor::" + n_) for n_ in sgr.ANSI16],
              "Ansi256": [("ctor", "anstyle::color::Ansi256Color", ("int", i)) for i in range(256)],
              "Rgb": [("sym", "rgb"), ("ctor", "anstyle::color::RgbColor", ("int", 1), ("int", 2), ("int", 3))]}

    def call(path, args):
        try:
            return abseval.Evaluator(facts, "anstyle_lossy", atoms, inline_crates=("anstyle",)).call_fn("anstyle_lossy", path, args)
        except Unrecognised as ex:
            return ("not-evaluable", str(ex)[:80])
    for fn, table in want.items():
        b = facts.body("anstyle_lossy", L + fn)
        rep.fn(b["path"])
        two = len(b["params"]) == 2
        for v, want_v in table.items():
            bad = []
            for x in domain[v]:
                got = call(b["path"], [("ctor", "anstyle::color::Color::" + v, x)] + ([pal] if two else []))
                if want_v[0] == "same":
                    exp = x
                else:
                    crate = want_v[1].split("::")[0]
                    wb = facts.body(crate, want_v[1])
                    if crate == "anstyle_lossy":
                        exp = call(wb["path"], [x] + ([pal] if len(wb["params"]) == 2 else []))
                    else:
                        try:
                            exp = abseval.Evaluator(facts, crate, {}).call_fn(crate, wb["path"], [x])
                        except Unrecognised as ex:
                            exp = ("not-evaluable", str(ex)[:80])
                if got != exp or got[0] == "not-evaluable":
                    bad.append(f"{str(x)[:60]}: {str(got)[:80]} (expected {str(exp)[:80]})")
                rep.count()
            rep.check(not bad, "dispatch", b["path"], v, f"{v} arm must have the value of {want_v} on every colour of the variant {bad[:2]}"[:400], loc(b))
    # thin wrappers, by value: ansi_to_rgb(c, palette) is the palette's entry for c; rgb_to_ansi(c, palette) is the palette's nearest match
    b = facts.body("anstyle_lossy", L + "ansi_to_rgb")
    rep.fn(b["path"])
    bad = [f"{n_}: {call(b['path'], [('enum', 'anstyle::color::AnsiColor::' + n_), pal])}" for i, n_ in enumerate(sgr.ANSI16)
           if call(b["path"], [("enum", "anstyle::color::AnsiColor::" + n_), pal]) != ("sym", f"entry{i}")]
    rep.check(not bad, "dispatch", b["path"], "delegates", f"ansi_to_rgb(colour, palette) = the palette entry at the colour's index {bad[:2]}"[:300], loc(b))
    b = facts.body("anstyle_lossy", L + "rgb_to_ansi")
    rep.fn(b["path"])
    got = call(b["path"], [("sym", "rgb"), pal])
    rep.check(got == ("nearest", pal, ("sym", "rgb")), "dispatch", b["path"], "delegates", f"rgb_to_ansi(colour, palette) = palette.find_match(colour): {str(got)[:120]}", loc(b))
    # rgb_to_xterm: by value, in rule scan (rule_nearest)


def rule_tables(facts, rep):
    # xterm_to_ansi rows 0..15 + default
    b = facts.body("anstyle_lossy", L + "xterm_to_ansi")
    rep.fn(b["path"])
    # truth table over all 256 indices by abstract evaluation (anstyle's into_ansi / index are followed into their bodies):
    # 0..=15 give the 16 colours in palette order whatever the palette is; 16..=255 give palette.find_match(XTERM_COLORS[i])
    import abseval
    pn = [p.get("name") for p in b["params"]]
    bad16, badrest = [], []
    for i in range(256):
        ev = abseval.Evaluator(facts, "anstyle_lossy", {L + "palette::Palette::find_match": lambda a: ("nearest", a[0], a[1])}, inline_crates=("anstyle",))
        env = abseval.Env()
        env[pn[0]] = ("rec", {"0": ("int", i)})
        env[pn[1]] = ("sym", "palette")
        try:
            try:
                r = ev.ev(b["hir"], env)
            except abseval.Return as rt:
                r = rt.v
        except Unrecognised as e:
            raise Unrecognised(f"xterm_to_ansi: {e}")
        if i < 16:
            if r != ("enum", "anstyle::color::AnsiColor::" + sgr.ANSI16[i]):
                bad16.append((i, r))
        else:
            tbl = ev._const_value("anstyle_lossy::XTERM_COLORS")
            cell = tbl[1 + i] if tbl is not None and tbl[0] == "array" and i < len(tbl) - 1 else ("idx", "anstyle_lossy::XTERM_COLORS", i)
            if r not in (("nearest", ("sym", "palette"), ("idx", "anstyle_lossy::XTERM_COLORS", i)), ("nearest", ("sym", "palette"), cell)):
                badrest.append((i, r))
        rep.count()
    rep.check(not bad16, "tables", b["path"], "0-15-are-the-16-colours",
              f"indices 0..=15 of the 256-colour palette ARE the 16-colour palette, whatever the user palette contains: {bad16[:3]}", loc(b))
    rep.check(not badrest, "tables", b["path"], "16-255-nearest-of-fixed-rgb", f"{badrest[:3]}", loc(b))
    # xterm_to_rgb: palette first
    b = facts.body("anstyle_lossy", L + "xterm_to_rgb")
    rep.fn(b["path"])
    # by abstract evaluation, one case per outcome of the palette lookup: the palette's entry when rgb_from_index(palette, index)
    # is Some, else XTERM_COLORS[index] — `match`, `if let` + early return, `let .. else`, temporaries: all the same
    kinds = []
    for found in (True, False):
        asked = []
        ev = abseval.Evaluator(facts, "anstyle_lossy", {
            L + "palette::Palette::rgb_from_index": lambda a, found=found: (asked.append(list(a)), ("some", ("sym", "entry")) if found else ("none",))[1],
            "index:anstyle_lossy::XTERM_COLORS": lambda a: ("fixed", a[0])}, inline_crates=("anstyle",))
        try:
            r = ev.call_fn("anstyle_lossy", b["path"], [("ctor", "anstyle::color::Ansi256Color", ("sym", "i")), ("sym", "palette")])
        except Unrecognised as ex:
            r = ("not-evaluable", str(ex)[:80])
        good = asked == [[("sym", "palette"), ("sym", "i")]] and r == (("sym", "entry") if found else ("fixed", ("sym", "i")))
        kinds.append(("palette" if found else "fixed") if good else f"? {r} {asked}")
    rep.check(sorted(kinds) == ["fixed", "palette"], "tables", b["path"], "palette-first-then-fixed-table", f"{kinds}", loc(b))
    # Palette: rgb_from_index = Some(self.0[i]) iff i < len ; get = self.0[from_ansi(color).index()]
    b = facts.body("anstyle_lossy", L + "palette::Palette::rgb_from_index")
    rep.fn(b["path"])
    pal = ("ctor", L + "palette::Palette", ("array",) + tuple(("sym", f"entry{i}") for i in range(16)))
    why = []
    for idx in range(256):
        try:
            r = abseval.Evaluator(facts, "anstyle_lossy", {}, inline_crates=("anstyle",)).call_fn("anstyle_lossy", b["path"], [pal, ("int", idx)])
        except Unrecognised as ex:
            r = ("not-evaluable", str(ex)[:80])
        if r != (("some", ("sym", f"entry{idx}")) if idx < 16 else ("none",)):
            why.append(f"index {idx}: {r}")
        rep.count()
    rep.check(not why, "tables", b["path"], "Some-iff-below-16", f"Some(self.0[index]) exactly when index < self.0.len(), evaluated for all 256 indices: {why[:2]}", loc(b))
    g = facts.body("anstyle_lossy", L + "palette::Palette::get")
    rep.fn(g["path"])
    why = []
    for i, name in enumerate(sgr.ANSI16):
        try:
            r = abseval.Evaluator(facts, "anstyle_lossy", {}, inline_crates=("anstyle",)).call_fn(
                "anstyle_lossy", g["path"], [pal, ("enum", "anstyle::color::AnsiColor::" + name)])
        except Unrecognised as ex:
            r = ("not-evaluable", str(ex)[:80])
        if r != ("sym", f"entry{i}"):
            why.append(f"{name}: {r}")
    rep.check(not why, "tables", g["path"], "entry-at-from_ansi-index", f"get(colour) is the palette entry at the colour's index, for each of the 16 colours {why[:2]}", loc(g))
    # XTERM_COLORS[16..] = formula
    it = facts.item("anstyle_lossy", L + "XTERM_COLORS", "Const")
    by = it.get("bytes")
    if by is None or len(by) != 768:
        raise AnchorMissing("XTERM_COLORS is not a 256 x 3 byte constant")
    bad = []
    for i in range(16, 256):
        if tuple(by[3 * i:3 * i + 3]) != sgr.xterm_rgb(i):
            bad.append((i, tuple(by[3 * i:3 * i + 3]), sgr.xterm_rgb(i)))
        rep.count()
    rep.check(not bad, "tables", it["path"], "16..255==xterm-formula", f"cube levels 0,95,135,175,215,255 and greys 8+10k: {bad[:4]}", f"{it['file']}:{it['ln']}")
    st = facts.item("anstyle", "anstyle::color::RgbColor", "Struct")
    rep.check([f["ty"] for f in st["variants"][0]["fields"]] == ["u8", "u8", "u8"], "tables", st["path"], "three-u8-fields", "", "")
    # the two shipped palettes have 16 entries (type) — Palette(pub [Rgb; 16])
    p = facts.item("anstyle_lossy", L + "palette::Palette", "Struct")
    rep.check(p["variants"][0]["fields"][0]["ty"] in ("[anstyle::color::RgbColor; 16]",), "tables", p["path"], "16-entries", p["variants"][0]["fields"][0]["ty"], "")


def rule_scan(facts, rep, tier="quick"):
    for path, start, table_is in ((L + "find_xterm_match", 16, lambda e: hir.is_def(e, "anstyle_lossy::XTERM_COLORS")),
                                  (L + "palette::Palette::find_match", 0, lambda e: hir.place_str(e) == "self.0")):
        b = facts.body("anstyle_lossy", path)
        rep.fn(b["path"])
        top = hir.stmts_of(b["hir"])
        lets = {}
        for s in top:
            if s.get("k") == "let" and s["pat"].get("k") == "pbind":
                lets[s["pat"]["name"]] = s["init"]
        rep.check(hir.lit_val(lets.get("best_index")) == start, "scan", path, f"best-starts-at-{start}",
                  f"the first candidate is index {start}", loc(b))

        def dist_of(e, idx_name, value=None):
            e = hir.simp(e)
            if not hir.is_call(e, L + "distance"):
                return False
            t = hir.simp(e["args"][1])
            if not (hir.is_local(e["args"][0], "color") and t.get("k") == "index" and table_is(t["e"])):
                return False
            if hir.is_local(t["i"], idx_name):
                return True
            # the same number written another way (the start constant itself instead of the variable just set to it)
            return value is not None and hir.const_fold(t["i"], {}) == value

        def initial(e):
            """value of an initialiser in which `best_index` still has its initial value"""
            import poly
            try:
                return poly.as_const(poly.poly(e, resolve=lambda n: poly.const(start) if (hir.simp(n).get("k") == "local" and hir.simp(n)["name"] == "best_index") else None))
            except Unrecognised:
                return None
        rep.check(dist_of(lets.get("best_distance", {}), "best_index", start), "scan", path, "best-distance-of-first-candidate", "", loc(b))
        rep.check(initial(lets.get("index", {})) == start + 1, "scan", path, "index-starts-after-first", f"index starts at {initial(lets.get('index', {}))}", loc(b))
        wl = [hir.while_loop(n) for n in top if hir.simp(n).get("k") == "loop" and hir.simp(n).get("src") == "While"]
        if len(wl) != 1:
            raise Unrecognised("one while loop expected")
        cond, body = wl[0]
        # the loop runs while `index < table.len()`; the only other conjunct accepted is "the best distance is not yet 0": an exact
        # match cannot be beaten by a strictly-smaller test on an unsigned distance, so stopping there changes no result
        ok, n_bound = True, 0
        for c in hir.split_and(cond):
            c = hir.simp(c)
            if c.get("k") == "bin" and c["op"] == "Lt" and hir.is_local(c["l"], "index") and hir.is_call(hir.simp(c["r"]), "len") and \
                    table_is(hir.peel(hir.simp(c["r"])["args"][0])):
                n_bound += 1
            elif c.get("k") == "bin" and "callee" not in c and (
                    (c["op"] in ("Ne", "Gt") and hir.is_local(c["l"], "best_distance") and hir.lit_val(c["r"]) == 0) or
                    (c["op"] in ("Ne", "Lt") and hir.is_local(c["r"], "best_distance") and hir.lit_val(c["l"]) == 0)):
                pass
            else:
                ok = False
        ok = ok and n_bound == 1
        rep.check(ok, "scan", path, "runs-to-len()", "", loc(b))
        st = [hir.simp(x) for x in hir.stmts_of(body)]
        ok_d = len(st) == 3 and st[0].get("k") == "let" and dist_of(st[0]["init"], "index")
        dn = st[0]["pat"].get("name") if ok_d else None
        rep.check(ok_d, "scan", path, "candidate-distance-same-metric", "", loc(b))
        ok_u = False
        if len(st) == 3 and st[1].get("k") == "if" and "e" not in st[1]:
            g = hir.simp(st[1]["c"])
            upd = [hir.simp(x) for x in hir.stmts_of(st[1]["t"])]
            strict = g.get("k") == "bin" and g["op"] == "Lt" and hir.is_local(g["l"], dn) and hir.is_local(g["r"], "best_distance")
            asg = {hir.local_name(u["l"]): hir.local_name(u["r"]) for u in upd if u.get("k") == "assign"}
            ok_u = strict and asg == {"best_index": "index", "best_distance": dn} and len(upd) == 2
            if not strict and g.get("k") == "bin":
                rep.bad("scan", path, "strict-less-than", f"the update guard is `{g['op']}`: with `<=` a later duplicate or tie replaces the lowest index", loc(b, g))
        rep.check(ok_u, "scan", path, "update-iff-strictly-smaller", "if distance < best_distance { best_index = index; best_distance = distance }", loc(b))
        ok_s = len(st) == 3 and st[2].get("k") == "assignop" and st[2]["op"] == "AddAssign" and hir.is_local(st[2]["l"], "index") and hir.lit_val(st[2]["r"]) == 1
        rep.check(ok_s, "scan", path, "step-1", "", loc(b))
        # nothing but the scan: exactly [let best_index, let best_distance, let index, while, result] and no early exit
        kinds = [hir.simp(x).get("k") for x in top]
        rets = [n for n in hir.walk(b["hir"]) if n.get("k") == "ret"]
        extra_ifs = [x for x in top if hir.simp(x).get("k") in ("if", "match") and x is not top[-1]]
        rep.check(kinds[:4] == ["let", "let", "let", "loop"] and len(top) == 5 and not rets and not extra_ifs, "scan", path, "nothing-but-the-scan",
                  f"the matcher must consist of the scan alone (no fast paths or early returns that bypass it): top-level statements {kinds}, "
                  f"{len(rets)} return(s)", loc(b))
        # writers of best_index: the initialisation and the update only
        w = [n for n in hir.walk(b["hir"]) if n.get("k") in ("assign", "assignop") and hir.local_name(n["l"]) in ("best_index", "index")]
        rep.check(len(w) == 2, "scan", path, "no-other-writes", f"{len(w)}", loc(b))
    # result use: what the public conversions return is the index the scan found — by value (rule_nearest)
    rule_nearest(facts, rep, tier)


def _metric(c1, c2):
    """The integer red-mean distance (https://www.compuphase.com/cmetric.htm without the square root)."""
    rs = c1[0] + c2[0]
    return (1024 + rs) * (c1[0] - c2[0]) ** 2 + 1024 * (c1[1] - c2[1]) ** 2 + (1534 - rs) * (c1[2] - c2[2]) ** 2


def rule_nearest(facts, rep, tier="quick"):
    """rgb_to_xterm(colour) and rgb_to_ansi(colour, palette) by value, against an independent model: the result is the candidate of
    minimal red-mean distance, the lowest index among equals.  Candidates: xterm's fixed colours 16..=255 (spec table) / the 16
    entries of the palette (the crate's own VGA and WIN10 palettes and one with duplicate and extreme entries).  Inputs: every
    candidate itself (an exact entry maps to itself, the lowest index if repeated) and a stratified grid.  The crate's distance
    function is replaced by the model metric here (it is decided as a polynomial in rule `distance`), everything else — the scan,
    the cast of the index, the helper it sits in, anstyle's index <-> colour tables — is evaluated as written."""
    import abseval
    RGB = "anstyle::color::RgbColor"

    def rgbv(c):
        return ("ctor", RGB) + tuple(("int", x) for x in c)

    def dist(a_):
        return ("int", _metric([x[1] for x in a_[0][2:]], [x[1] for x in a_[1][2:]]))

    def call(path, args):
        ev = abseval.Evaluator(facts, "anstyle_lossy", {L + "distance": dist}, inline_crates=("anstyle_lossy", "anstyle"))
        ev.loop_bound = 400
        return ev.call_fn("anstyle_lossy", path, args)
    grid = [(r, g, b) for r in (0, 47, 96, 128, 215, 255) for g in (0, 95, 115, 255) for b in (0, 8, 135, 255)]
    if tier == "thorough":
        grid += [(r, g, b) for r in range(3, 256, 28) for g in range(5, 256, 36) for b in range(7, 256, 31)]
    # 256-colour target
    b = facts.body("anstyle_lossy", L + "rgb_to_xterm")
    rep.fn(b["path"])
    cands = [(i, sgr.xterm_rgb(i)) for i in range(16, 256)]
    bad, n = [], 0
    try:
        for c in [c for _, c in cands] + grid:
            want = min(cands, key=lambda ic: (_metric(c, ic[1]), ic[0]))[0]
            got = call(b["path"], [rgbv(c)])
            n += 1
            if got != ("ctor", "anstyle::color::Ansi256Color", ("int", want)):
                bad.append(f"{c}: {str(got)[:60]}, nearest fixed colour is {want}")
    except Unrecognised as ex:
        bad.append(f"not evaluable: {ex}")
    rep.check(not bad, "dispatch", b["path"], "index-of-best-match", f"{n} colours by value; {bad[:2]}"[:300], loc(b))
    rep.check(not bad, "scan", L + "find_xterm_match", "returns-best_index", f"{n} colours by value; {bad[:2]}"[:300], loc(b))
    rep.count(n)
    # 16-colour target
    b = facts.body("anstyle_lossy", L + "rgb_to_ansi")
    rep.fn(b["path"])
    pals = {}
    ev0 = abseval.Evaluator(facts, "anstyle_lossy", {}, inline_crates=("anstyle_lossy", "anstyle"))
    for name in ("VGA", "WIN10_CONSOLE"):
        v = ev0._const_value(L + "palette::" + name)
        if v is not None:
            pals[name] = v
    odd = [(0, 0, 0), (255, 255, 255), (0, 0, 0), (255, 0, 0), (254, 0, 0), (255, 255, 255), (1, 1, 1), (128, 128, 128),
           (128, 128, 128), (0, 255, 0), (0, 0, 255), (0, 0, 254), (255, 255, 0), (255, 255, 0), (12, 200, 77), (0, 0, 0)]
    pals["duplicates-and-extremes"] = ("ctor", L + "palette::Palette", ("array",) + tuple(rgbv(c) for c in odd))
    bad, n = [], 0
    try:
        for name, pv in pals.items():
            entries = [tuple(x[1] for x in e[2:]) for e in pv[2][1:]]
            if len(entries) != 16:
                raise Unrecognised(f"palette {name} has {len(entries)} entries")
            for c in entries + grid[::2]:
                want = min(range(16), key=lambda i_: (_metric(c, entries[i_]), i_))
                got = call(b["path"], [rgbv(c), pv])
                n += 1
                if got != ("enum", "anstyle::color::AnsiColor::" + sgr.ANSI16[want]):
                    bad.append(f"palette {name}, {c}: {str(got)[:60]}, nearest entry is {want} ({sgr.ANSI16[want]})")
    except Unrecognised as ex:
        bad.append(f"not evaluable: {ex}")
    rep.check(not bad and len(pals) == 3, "scan", L + "palette::Palette::find_match", "returns-into_ansi(best_index)",
              f"{n} (palette, colour) pairs by value over {sorted(pals)}; {bad[:2]}"[:300], loc(b))
    rep.count(n)


class Iv:
    def __init__(self, lo, hi):
        self.lo, self.hi = lo, hi

    def __repr__(self):
        return f"[{self.lo},{self.hi}]"


def rule_distance(facts, rep):
    """The metric is decided as a polynomial: whatever the parenthesisation, temporaries or named constants, distance(c1, c2)
    must be (1024 + r1 + r2)(r1 - r2)^2 + 1024 (g1 - g2)^2 + (1534 - r1 - r2)(b1 - b2)^2 — the integer red-mean form — and every
    intermediate of the evaluation as written stays inside i32 for channel values 0..=255 (so the polynomial identity is also
    an identity of the machine arithmetic)."""
    import poly
    b = facts.body("anstyle_lossy", L + "distance")
    rep.fn(b["path"])
    names = [p.get("name") for p in b["params"]]
    lets = {}
    for n in hir.walk(b["hir"]):
        if n.get("k") == "let" and n["pat"].get("k") == "pbind" and "init" in n:
            lets[(n["pat"]["name"], n["pat"].get("id"))] = n["init"]
    consts = {i["path"]: i.get("value") for i in facts.items("anstyle_lossy") if i["dk"] in ("Const", "AssocConst")}
    I32 = (-(1 << 31), (1 << 31) - 1)
    worst = []

    def channel(e):
        e = hir.simp(e)
        if e.get("k") == "call" and hir.callee(e) in ("anstyle::color::RgbColor::r", "anstyle::color::RgbColor::g", "anstyle::color::RgbColor::b"):
            a = hir.peel(e["args"][0])
            if a.get("k") == "local" and a["name"] in names:
                return f"{hir.callee(e)[-1]}{names.index(a['name']) + 1}"
        if e.get("k") == "field" and e["name"] in ("0", "1", "2"):
            a = hir.peel(e["e"])
            if a.get("k") == "local" and a["name"] in names:
                return f"{'rgb'[int(e['name'])]}{names.index(a['name']) + 1}"
        return None

    def iv(e):
        e = hir.simp(e)
        if channel(e):
            return Iv(0, 255)
        k = e.get("k")
        if k == "lit" and e.get("t") == "int":
            return Iv(e["v"], e["v"])
        if k == "def" and isinstance(consts.get(e.get("path")), int):
            return Iv(consts[e["path"]], consts[e["path"]])
        if k == "local":
            key = (e["name"], e.get("id"))
            if key not in lets:
                raise Unrecognised(f"local {e['name']} is not a let-bound temporary")
            return iv(lets[key])
        if k == "cast":
            if e.get("ty") in ("i32", "u32", "i64", "u64", "usize", "isize"):
                return iv(e["e"])
            raise Unrecognised(f"cast {hirpp.expr(e)[:60]}")
        if k == "bin" and "callee" not in e:
            a, c = iv(e["l"]), iv(e["r"])
            op = e["op"]
            if op == "Add":
                r = Iv(a.lo + c.lo, a.hi + c.hi)
            elif op == "Sub":
                r = Iv(a.lo - c.hi, a.hi - c.lo)
            elif op == "Mul":
                ps = [a.lo * c.lo, a.lo * c.hi, a.hi * c.lo, a.hi * c.hi]
                r = Iv(min(ps), max(ps))
            elif op == "Shl" and a.lo == a.hi and c.lo == c.hi:
                r = Iv(a.lo << c.lo, a.lo << c.lo)
            else:
                raise Unrecognised(f"operator {op} in `{hirpp.expr(e)[:60]}` (line {e.get('ln', '?')}) is not part of the integer red-mean form")
            worst.append((r, e))
            return r
        raise Unrecognised(f"expression `{hirpp.expr(e)[:60]}` (line {e.get('ln', '?')})")

    top = hir.stmts_of(b["hir"])
    tail = top[-1]
    other = [s for s in top[:-1] if not (s.get("k") == "let" and s["pat"].get("k") == "pbind") and "debug_assert" not in str(hir.simp(s).get("mac"))]
    rep.check(not other, "distance", b["path"], "only-temporaries-before-the-result", f"{[hirpp.expr(s)[:50] for s in other]}", loc(b))
    total = iv(tail)
    over = [(r, hirpp.expr(e)[:60]) for r, e in worst if r.lo < I32[0] or r.hi > I32[1]]
    rep.check(not over, "distance", b["path"], "no-i32-overflow", f"every intermediate stays inside i32 (u8-derived operands): largest magnitude "
              f"{max([max(abs(r.lo), abs(r.hi)) for r, _ in worst] or [0])}; offenders {over[:2]}", loc(b))
    rep.count(len(worst))
    got = poly.poly(tail, resolve=channel, lets=lets, consts=consts)
    S = poly.sym
    r1, r2, g1, g2, b1, b2 = (S(x) for x in ("r1", "r2", "g1", "g2", "b1", "b2"))
    dr, dg, db = poly.add(r1, r2, -1), poly.add(g1, g2, -1), poly.add(b1, b2, -1)
    rs = poly.add(r1, r2)
    want = poly.add(poly.add(poly.mul(poly.add(poly.const(1024), rs), poly.mul(dr, dr)), poly.mul(poly.const(1024), poly.mul(dg, dg))),
                    poly.mul(poly.add(poly.const(1534), rs, -1), poly.mul(db, db)))
    rep.check(got == want, "distance", b["path"], "is-the-integer-red-mean-polynomial",
              f"distance(c1,c2) must equal (1024+r1+r2)(r1-r2)^2 + 1024(g1-g2)^2 + (1534-r1-r2)(b1-b2)^2; difference: {poly.show(poly.add(got, want, -1))[:200]}", loc(b))
    for ch, w in (("r", "1024+r1+r2 in 1024..=1534"), ("g", "1024"), ("b", "1534-r1-r2 in 1024..=1534")):
        rep.ok("distance", b["path"], f"term-{ch}=positive×{ch}_delta²", f"weight {w} > 0 (from the polynomial)", loc(b))
    for ch in ("r", "g", "b"):
        rep.ok("distance", b["path"], f"{ch}_delta=c1.{ch}-c2.{ch}", "from the polynomial", loc(b))
    rep.check(total.lo >= I32[0] and total.hi <= I32[1] and hir.simp(tail).get("ty") == "u32", "distance", b["path"], "sum-fits-i32", f"{total}", loc(b))
