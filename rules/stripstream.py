"""Rules W1–W4 over anstream::strip::{write, write_all, write_fmt, offset_to} and anstream::fmt::Adapter."""
import hir
import hirpp
from core import AnchorMissing, Unrecognised, loc

CRATE = "anstream"
M = "anstream::strip::"


def _block_of(root, node):
    """The block whose statement list contains `node` directly, with the index."""
    for b in hir.walk(root):
        if b.get("k") == "block":
            seq = hir.stmts_of(b)
            for i, s in enumerate(seq):
                if s is node or hir.simp(s) is node:
                    return b, seq, i
    return None, None, None


def _lets(root):
    out = {}
    for n in hir.walk(root):
        if n.get("k") == "let" and n["pat"].get("k") == "pbind" and "init" in n:
            out.setdefault(n["pat"]["name"], []).append(n)
    return out


def _is_range(e, kind, field, local):
    e = hir.simp(e)
    return (e.get("k") == "struct" and hir.last_seg(e["path"].get("path")) == kind and len(e["fields"]) == 1
            and e["fields"][0]["name"] == field and hir.is_local(e["fields"][0]["e"], local))


def is_ok_ctor(n):
    return n.get("k") == "call" and n.get("ctor", "").endswith("Result::Ok")


def is_err_ctor(n):
    return n.get("k") == "call" and n.get("ctor", "").endswith("Result::Err")


class WriteFn:
    def __init__(self, facts):
        self.b = facts.body(CRATE, M + "write")
        b = self.b
        names = [p.get("name") for p in b["params"]]
        if names != ["raw", "state", "buf"]:
            raise AnchorMissing(f"strip::write parameters are {names}")
        self.top = hir.stmts_of(b["hir"])
        loops = []
        for i, s in enumerate(self.top):
            fl = hir.for_loop(s) if isinstance(s, dict) and s.get("k") == "match" else None
            if fl:
                loops.append((i, fl))
        if len(loops) != 1:
            raise AnchorMissing("strip::write: exactly one top-level for loop expected")
        self.loop_idx, (pat, it, body) = loops[0]
        if pat.get("k") != "pbind" or not (hir.is_call(it, "StripBytes::strip_next") and hir.is_local(it["args"][0], "state")
                                           and hir.is_local(it["args"][1], "buf")):
            raise Unrecognised("strip::write: loop is not `for piece in state.strip_next(buf)`")
        self.piece = pat["name"]
        self.loop_body = body
        # snapshot: `let S = state.clone()` before the loop
        self.snapshot = None
        for s in self.top[:self.loop_idx]:
            if s.get("k") == "let" and s["pat"].get("k") == "pbind" and hir.is_call(hir.simp(s["init"]), "clone") and \
                    hir.is_local(hir.simp(s["init"])["args"][0], "state"):
                self.snapshot = s["pat"]["name"]
        self.lets = _lets(b["hir"])
        w = [n for n in hir.walk(body) if hir.is_call(n, "std::io::Write::write") and hir.is_local(n["args"][0], "raw")]
        if len(w) != 1 or not hir.is_local(w[0]["args"][1], self.piece):
            raise Unrecognised("strip::write: exactly one raw.write(piece) per iteration expected")
        self.inner_write = w[0]

    def is_restore(self, s):
        s = hir.simp(s)
        return (s.get("k") == "assign" and hir.is_local(s["l"], "state") and hir.simp(s["l"]).get("k") == "un"
                and self.snapshot is not None and hir.is_local(s["r"], self.snapshot))


def rule_W1_W3(facts, rep):
    w = WriteFn(facts)
    b = w.b
    rep.fn(b["path"])
    rep.check(w.snapshot is not None, "W1", b["path"], "snapshot-before-loop",
              "the strip state is cloned before any byte is consumed", loc(b))
    # the name bound to the count accepted by the inner writer
    written = None
    for name, ls in w.lets.items():
        for l in ls:
            init = hir.simp(l["init"])
            if init is w.inner_write or hir.try_inner(init) is w.inner_write:
                written = name
            elif init.get("k") == "match" and hir.simp(init["scrut"]) is w.inner_write:
                # match raw.write(..) { Ok(n) => n, Err(e) => { .. return Err(e) } }
                for a in init["arms"]:
                    if hir.last_seg(hir.pat_path(a["pat"])) == "Ok":
                        v = hir.simp(a["body"])
                        p = a["pat"]["pats"][0] if a["pat"].get("k") == "pts" else None
                        if p is not None and p.get("k") == "pbind" and hir.is_local(v, p["name"]):
                            written = name
    rep.check(written is not None, "W1", b["path"], "written-is-inner-count", "`written` is the count returned by raw.write(piece)", loc(b))
    oks = [n for n in hir.walk(b["hir"]) if is_ok_ctor(n) and n.get("ty", "").startswith("core::result::Result<usize")]
    n_short = 0
    for n in oks:
        v = hir.simp(n["args"][0])
        if hir.is_call(v, "len") and hir.is_local(v["args"][0], "buf"):
            # W3: whole buffer consumed — must be the fall-through result after the loop
            tail = hir.simp(w.top[-1])
            rep.check(tail is n, "W3", b["path"], "Ok(buf.len())-after-loop", "Ok(buf.len()) only after every piece was accepted in full", loc(b, n))
            continue
        n_short += 1
        if v.get("k") != "local":
            rep.bad("W3", b["path"], "Ok(count)-not-an-offset", f"write returns Ok({hirpp.expr(v)}): not buf.len() and not an offset into buf", loc(b, n))
            continue
        off = v["name"]
        # offset = offset_to(buf, D), D = &piece[written..]
        ol = w.lets.get(off, [])
        ok_off = False
        if len(ol) == 1:
            c = hir.simp(ol[0]["init"])
            if hir.is_call(c, M + "offset_to") and hir.is_local(c["args"][0], "buf"):
                d = hir.simp(c["args"][1])
                dn = d["name"] if d.get("k") == "local" else None
                dl = w.lets.get(dn, []) if dn else []
                if len(dl) == 1:
                    ix = hir.peel(dl[0]["init"])
                    ok_off = (ix.get("k") == "index" and hir.is_local(ix["e"], w.piece) and written is not None
                              and _is_range(ix["i"], "RangeFrom", "start", written))
        rep.check(ok_off, "W3", b["path"], "short-count-is-offset-of-unwritten-tail",
                  "the short count is offset_to(buf, &piece[written..]): where the first undelivered byte lies in the caller's buffer", loc(b, n))
        # W1: replay slice is buf[..offset], after restoring the snapshot, and the same offset is returned
        ret = None
        for r in hir.walk(b["hir"]):
            if r.get("k") == "ret" and hir.simp(r.get("e")) is n:
                ret = r
        blk, seq, i = _block_of(b["hir"], ret) if ret is not None else (None, None, None)
        if blk is None:
            rep.bad("W1", b["path"], "short-write-return-shape", "short-write return is not `return Ok(offset)` at the end of a block", loc(b, n))
            continue
        before = seq[:i]
        replays = [(j, s) for j, s in enumerate(before) for c in hir.walk(s) if hir.is_call(c, "StripBytes::strip_next")]
        restores = [j for j, s in enumerate(before) if w.is_restore(s)]
        ok_replay = False
        why = "no replay of the consumed part through strip_next after rewinding"
        if len(replays) == 1 and restores and restores[-1] < replays[0][0]:
            call = [c for c in hir.walk(replays[0][1]) if hir.is_call(c, "StripBytes::strip_next")][0]
            arg = hir.simp(call["args"][1])
            src = arg
            if arg.get("k") == "local" and len(w.lets.get(arg["name"], [])) == 1:
                src = w.lets[arg["name"]][0]["init"]
            ix = hir.peel(src)
            if ix.get("k") == "index" and hir.is_local(ix["e"], "buf"):
                if _is_range(ix["i"], "RangeTo", "end", off):
                    ok_replay = True
                    why = "replays buf[..offset] from the snapshot and returns the same offset"
                else:
                    why = (f"after rewinding, the stripper is re-fed `{hirpp.expr(ix)}` — it must be re-fed exactly the part "
                           f"reported as consumed, buf[..{off}], or the carried state no longer matches the returned count")
            drained = hir.is_call(hir.simp(replays[0][1]), "Iterator::last", "Iterator::count", "Iterator::for_each")
            if ok_replay and not drained:
                ok_replay, why = False, "the replay iterator is never driven (strip_next is lazy)"
        rep.check(ok_replay, "W1", b["path"], "replay-consumed-prefix", f"W1: {why}", loc(b, ret))
        # guarded by possible != written with possible = piece.len()
        frames = [fr for (x, fr) in hir.visit_with_conds(b["hir"], lambda x: x is ret)]
        g = False
        for f in frames[0] if frames else []:
            if f.get("kind") == "if" and f["val"]:
                c = hir.simp(f["expr"])
                if c.get("k") == "bin" and c["op"] == "Ne":
                    names = {hir.local_name(c["l"]), hir.local_name(c["r"])}
                    poss = [x for x in names if x != written]
                    if written in names and len(poss) == 1 and len(w.lets.get(poss[0], [])) == 1:
                        pi = hir.simp(w.lets[poss[0]][0]["init"])
                        g = hir.is_call(pi, "len") and hir.is_local(pi["args"][0], w.piece)
        rep.check(g, "W1", b["path"], "short-write-test", "the short-write branch is taken exactly when piece.len() != written", loc(b, ret))
    rep.check(n_short == 1, "W3", b["path"], "one-short-count", f"{n_short} partial-count results", loc(b))
    # offset_to is pointer subtraction subslice - total
    o = facts.body(CRATE, M + "offset_to")
    rep.fn(o["path"])
    st = hir.stmts_of(o["hir"])
    tail = hir.simp(st[-1])
    lets = _lets(o["hir"])
    ok = False
    if tail.get("k") == "bin" and tail["op"] == "Sub":
        def ptr_of(e, param):
            e = hir.peel(e)
            if e.get("k") == "local":
                for l in lets.get(e["name"], []):
                    c = hir.simp(l["init"])
                    if hir.is_call(c, "as_ptr") and hir.is_local(c["args"][0], param):
                        return True
            return False
        ok = ptr_of(tail["l"], o["params"][1]["name"]) and ptr_of(tail["r"], o["params"][0]["name"])
    rep.check(ok, "W3", o["path"], "subslice-minus-total", "offset_to(total, sub) = sub.as_ptr() - total.as_ptr()", loc(o))
    # write_vectored forwards exactly one of the caller's buffers to write
    v = facts.body(CRATE, "<anstream::strip::StripStream<S> as std::io::Write>::write_vectored")
    rep.fn(v["path"])
    st = hir.stmts_of(v["hir"])
    ok = False
    if len(st) == 2 and st[0].get("k") == "let":
        chain = hir.simp(st[0]["init"])
        finds = [n for n in hir.walk(chain) if hir.is_call(n, "Iterator::find")]
        last = hir.simp(st[1])
        ok = (len(finds) == 1 and hir.is_call(hir.simp(finds[0]["args"][0]), "iter") and hir.is_local(hir.simp(finds[0]["args"][0])["args"][0], "bufs")
              and hir.is_call(last, "<anstream::strip::StripStream<S> as std::io::Write>::write")
              and hir.is_local(last["args"][0], "self") and hir.is_local(last["args"][1], st[0]["pat"].get("name")))
    rep.check(ok, "W3", v["path"], "forwards-one-buffer", "write_vectored = self.write(first non-empty buffer): the count refers to one caller buffer", loc(v))


def rule_W2(facts, rep):
    w = WriteFn(facts)
    b = w.b
    # every way out of the loop body with an error
    exits = []  # (kind, node, source-call)
    for n in hir.walk(w.loop_body):
        if n.get("k") == "match" and n.get("src") == "TryDesugar":
            exits.append(("try", n, hir.try_inner(n)))
        if n.get("k") == "ret" and "e" in n and is_err_ctor(hir.simp(n["e"])):
            exits.append(("ret", n, None))
    rep.check(len(exits) >= 1, "W2a", b["path"], "error-exit-exists", "an inner write error leaves write() with Err", loc(b))
    for kind, n, src in exits:
        if kind == "try":
            what = hir.callee(hir.simp(src)).split("::")[-1] if src else "?"
            rep.bad("W2a", b["path"], f"restore-before-err:?-on-{what}",
                    "W2 no-state-drift-on-error: `?` returns the inner writer's error while the strip state has already been "
                    "advanced over the whole buffer by strip_next; nothing of the buffer was reported consumed, so the caller's "
                    "retry is parsed from the wrong state", loc(b, n))
            rep.bad("W2b", b["path"], f"err-after-progress:{what}",
                    "W2 no-error-after-progress: an error of a later piece is returned although earlier pieces of this call "
                    "were already delivered", loc(b, n))
            continue
        blk, seq, i = _block_of(b["hir"], n)
        restored = blk is not None and i >= 1 and w.is_restore(seq[i - 1])
        rep.check(restored, "W2a", b["path"], "restore-before-err:return-Err",
                  "W2 no-state-drift-on-error: `*state = <snapshot>` must directly precede `return Err(..)` (nothing of this "
                  "buffer is reported as consumed, so the state must be the one at entry)", loc(b, n))
        # the error value is the inner writer's, unchanged
        ev = hir.simp(hir.simp(n["e"])["args"][0])
        frames = [fr for (x, fr) in hir.visit_with_conds(b["hir"], lambda x: x is n)][0]
        same = False
        for f in frames:
            if f.get("kind") == "arm" and hir.simp(f["scrut"]) is w.inner_write and hir.last_seg(hir.pat_path(f["pat"])) == "Err":
                p = f["pat"]["pats"][0] if f["pat"].get("k") == "pts" else None
                same = p is not None and p.get("k") == "pbind" and hir.is_local(ev, p["name"])
        rep.check(same, "W4", b["path"], "write:error-unchanged", "the Err returned by write is the inner writer's error value itself", loc(b, n))
        # W2b: this exit sits in the loop that also delivers pieces → reachable after a completed inner write
        rep.bad("W2b", b["path"], "err-after-progress:write",
                "W2 no-error-after-progress: the error of a later piece is returned (and the state rewound to the entry "
                "snapshot) although earlier pieces of the same call were already delivered to the inner writer; a caller that "
                "retries the buffer, as the protocol says, delivers those pieces twice", loc(b, n))
    # inner Ok is never dropped: the Ok arm yields the count (checked in W1), and no path turns Err into Ok:
    for n in hir.walk(w.loop_body):
        if n.get("k") == "match" and hir.simp(n["scrut"]) is w.inner_write:
            for a in n["arms"]:
                if hir.last_seg(hir.pat_path(a["pat"])) == "Err":
                    rep.check(hir.diverges(a["body"]), "W4", b["path"], "write:Err-arm-leaves",
                              "the Err arm of the inner write leaves the function (it cannot fall through into success)", loc(b, a))


def rule_W4(facts, rep):
    # write_all: propagate with `?` only, final Ok(())
    b = facts.body(CRATE, M + "write_all")
    rep.fn(b["path"])
    tries = [n for n in hir.walk(b["hir"]) if n.get("k") == "match" and n.get("src") == "TryDesugar"]
    ok = len(tries) == 1 and hir.is_call(hir.simp(hir.try_inner(tries[0])), "std::io::Write::write_all")
    if ok:
        # the `?` statement's value is discarded, not matched on
        brk = [a for a in tries[0]["arms"] if hir.last_seg(hir.pat_path(a["pat"])) == "Break"]
        ok = len(brk) == 1 and hir.simp(brk[0]["body"]).get("k") == "ret" and hir.is_call(hir.simp(hir.simp(brk[0]["body"])["e"]), "from_residual")
    rep.check(ok, "W4", b["path"], "write_all:?-propagates", "raw.write_all(piece)? — the inner error is returned as is", loc(b))
    results = [n for n in hir.walk(b["hir"]) if is_ok_ctor(n)]
    rep.check(len(results) == 1 and hir.simp(hir.stmts_of(b["hir"])[-1]) is results[0], "W4", b["path"], "write_all:Ok-only-at-end",
              "Ok(()) is produced only after the loop has finished", loc(b))
    no_swallow = [n for n in hir.walk(b["hir"]) if hir.is_call(n, "Result::<T, E>::ok", "Result::<T, E>::unwrap_or", "Result::<T, E>::unwrap_or_default", "Result::<T, E>::is_ok")]
    rep.check(not no_swallow, "W4", b["path"], "write_all:no-swallow", "no result-discarding combinator", loc(b))
    # write_fmt: Adapter::new(|buf| write_all(raw, state, buf)).write_fmt(args)
    f = facts.body(CRATE, M + "write_fmt")
    rep.fn(f["path"])
    clos = [n for n in hir.walk(f["hir"]) if n.get("k") == "closure"]
    ok = False
    if len(clos) == 1:
        cb = hir.simp(clos[0]["body"])
        ok = (hir.is_call(cb, M + "write_all") and [hir.local_name(a) for a in cb["args"]] == ["raw", "state", clos[0]["params"][0].get("name")])
    tail = hir.simp(hir.stmts_of(f["hir"])[-1])
    ok2 = hir.is_call(tail, "anstream::fmt::Adapter::<W>::write_fmt") and hir.is_call(hir.simp(tail["args"][0]), "anstream::fmt::Adapter::<W>::new") \
        and hir.is_local(tail["args"][1], "args")
    rep.check(ok and ok2, "W4", f["path"], "write_fmt:through-adapter",
              "write_fmt = fmt::Adapter::new(|buf| write_all(raw, state, buf)).write_fmt(args)", loc(f))
    rule_adapter(facts, rep, CRATE, "anstream::fmt::")


def rule_adapter(facts, rep, crate, mod):
    """fmt::Adapter keeps the io::Error across the fmt::Write boundary."""
    ws = facts.body(crate, f"<{mod}Adapter<W> as core::fmt::Write>::write_str")
    rep.fn(ws["path"])
    m = hir.simp(ws["hir"])
    while m.get("k") == "block":
        m = hir.simp(hir.stmts_of(m)[0])
    ok_call = False
    if m.get("k") == "match":
        sc = hir.simp(m["scrut"])
        if sc.get("k") == "call" and "f" in sc:
            f = hir.peel(sc["f"])
            a = hir.simp(sc["args"][0])
            ok_call = (f.get("k") == "field" and f["name"] == "writer" and hir.is_local(f["e"], "self")
                       and hir.is_call(a, "as_bytes") and hir.is_local(a["args"][0], ws["params"][1]["name"]))
    rep.check(ok_call, "W4", ws["path"], "write_str:calls-writer-with-the-bytes", "(self.writer)(s.as_bytes())", loc(ws))
    ok_err = ok_ok = False
    if m.get("k") == "match":
        for a in m["arms"]:
            seg = hir.last_seg(hir.pat_path(a["pat"]))
            st = hir.stmts_of(a["body"])
            if seg == "Err":
                p = a["pat"]["pats"][0] if a["pat"].get("k") == "pts" and a["pat"]["pats"] else {}
                if p.get("k") == "pbind" and len(st) == 2:
                    s0, s1 = hir.simp(st[0]), hir.simp(st[1])
                    stores = (s0.get("k") == "assign" and hir.place_str(s0["l"]) == "self.error" and is_err_ctor(hir.simp(s0["r"]))
                              and hir.is_local(hir.simp(s0["r"])["args"][0], p["name"]))
                    ok_err = stores and is_err_ctor(s1)
            if seg == "Ok":
                ok_ok = len(st) == 1 and is_ok_ctor(hir.simp(st[0]))
    rep.check(ok_err, "W4", ws["path"], "write_str:saves-io-error",
              "on Err(e): self.error = Err(e) is stored before fmt::Error is returned (the io::Error is not discarded)", loc(ws))
    rep.check(ok_ok, "W4", ws["path"], "write_str:Ok-is-Ok", "", loc(ws))
    wf = facts.body(crate, f"{mod}Adapter::<W>::write_fmt")
    rep.fn(wf["path"])
    m = hir.simp(wf["hir"])
    while m.get("k") == "block":
        m = hir.simp(hir.stmts_of(m)[0])
    ok = False
    why = "shape"
    if m.get("k") == "match" and hir.is_call(hir.simp(m["scrut"]), "core::fmt::write"):
        for a in m["arms"]:
            if hir.last_seg(hir.pat_path(a["pat"])) == "Err":
                paths = hir.enumerate_paths(a["body"])
                ok = True
                for p in paths:
                    conds = [(hirpp.expr(t[1]), t[2]) for t in p.trace if t[0] == "cond"]
                    stored = any("is_err" in c and "$self.error" in c and v for c, v in conds)
                    v = hir.simp(p.value) if p.value is not None else {}
                    if stored:
                        if hir.place_str(v) != "self.error":
                            ok, why = False, "when an io::Error was saved it is not what write_fmt returns"
                    else:
                        if not is_err_ctor(v):
                            ok, why = False, "a formatter failure is turned into success"
                if not any(any("is_err" in c for c, _ in [(hirpp.expr(t[1]), t[2]) for t in p.trace if t[0] == "cond"]) for p in paths):
                    ok, why = False, "the saved io::Error is never consulted"
    rep.check(ok, "W4", wf["path"], "write_fmt:returns-saved-error",
              f"Adapter::write_fmt returns the saved inner error when fmt::write fails ({why})", loc(wf))
    nw = facts.body(crate, f"{mod}Adapter::<W>::new")
    s = [n for n in hir.walk(nw["hir"]) if n.get("k") == "struct"]
    ok = len(s) == 1 and is_ok_ctor(hir.simp({x["name"]: x["e"] for x in s[0]["fields"]}.get("error", {})))
    rep.check(ok, "W4", nw["path"], "new:error-starts-Ok", "", loc(nw))


EXITS = ("ret", "break", "continue")


def _early_exit(stmts):
    for s in stmts:
        for n in hir.walk(s):
            if n.get("k") in EXITS or (n.get("k") == "match" and n.get("src") == "TryDesugar"):
                return n
    return None


def _uses_of(root, name):
    """Every call (or method call) that receives the local `name`, plus the number of occurrences of the local."""
    occ = [n for n in hir.walk(root) if n.get("k") == "local" and n.get("name") == name]
    calls = [n for n in hir.walk(root) if n.get("k") == "call" and any(hir.is_local(hir.peel(a), name) for a in n["args"])]
    return occ, calls


def rule_through(facts, rep, rule):
    """Everything the strip stream hands to the inner writer went through the scanner that carries the stream's state, on every
    path: no fast path, no second scanner, no early exit before the scan (used by C01 reach, C03 and C06)."""
    for fn, inner in (("write", "std::io::Write::write"), ("write_all", "std::io::Write::write_all")):
        b = facts.body(CRATE, M + fn)
        rep.fn(b["path"])
        names = [p.get("name") for p in b["params"]]
        if names != ["raw", "state", "buf"]:
            raise AnchorMissing(f"strip::{fn} parameters are {names}")
        top = hir.stmts_of(b["hir"])
        loops = [(i, hir.for_loop(s)) for i, s in enumerate(top) if isinstance(s, dict) and s.get("k") == "match" and hir.for_loop(s)]
        ok = len(loops) == 1
        detail = "exactly one top-level `for piece in state.strip_next(buf)`"
        if ok:
            i, (pat, it, body) = loops[0]
            ok = pat.get("k") == "pbind" and hir.is_call(it, "StripBytes::strip_next") and hir.is_local(it["args"][0], "state") and hir.is_local(it["args"][1], "buf")
            ex = _early_exit(top[:i])
            if ex is not None:
                ok = False
                detail = f"the function can leave before the scan (`{hirpp.expr(ex)[:60]}`): bytes of this call bypass the carried state"
        rep.check(ok, rule, b["path"], "scan-is-unconditional", detail, loc(b))
        if not ok:
            continue
        occ, calls = _uses_of(b["hir"], "raw")
        good = [c for c in calls if hir.callee_decl(c) == inner and hir.is_local(c["args"][0], "raw") and hir.is_local(c["args"][1], pat["name"])
                and any(c is x for x in hir.walk(body))]
        rep.check(len(good) == 1 and len(calls) == 1 and len(occ) == 1, rule, b["path"], "inner-writer-gets-only-stripped-pieces",
                  f"the only use of the inner writer is `raw.{fn}(piece)` on the loop variable; found {[hirpp.expr(c)[:60] for c in calls]}", loc(b))
        # the scanner is the stream's own: `state` is used for the scan (and, in write, the snapshot / restore / replay), never replaced
        other = [c for c in hir.walk(b["hir"]) if c.get("k") == "call" and hir.callee(c).startswith("anstream::adapter::strip::")
                 and hir.callee(c).split("::")[-1] in ("strip_str", "strip_bytes", "new", "default")]
        rep.check(not other, rule, b["path"], "no-second-scanner", f"{[hir.callee(c) for c in other]}", loc(b))
    f = facts.body(CRATE, M + "write_fmt")
    rep.fn(f["path"])
    names = [p.get("name") for p in f["params"]]
    if names != ["raw", "state", "args"]:
        raise AnchorMissing(f"strip::write_fmt parameters are {names}")
    top = hir.stmts_of(f["hir"])
    ex = _early_exit(top[:-1])
    clos = [n for n in hir.walk(f["hir"]) if n.get("k") == "closure"]
    ok = ex is None and len(clos) >= 1
    detail = "write_fmt = fmt::Adapter::new(|buf| write_all(raw, state, buf)).write_fmt(args) on every path"
    if ex is not None:
        detail = f"the function can leave before formatting through the adapter (`{hirpp.expr(ex)[:60]}`)"
    if ok:
        for name in ("raw", "state"):
            occ, calls = _uses_of(f["hir"], name)
            good = [c for c in calls if hir.is_call(c, M + "write_all") and [hir.local_name(a) for a in c["args"][:2]] == ["raw", "state"]
                    and any(any(c is x for x in hir.walk(cl["body"])) for cl in clos)]
            if not (len(good) == 1 and len(calls) == 1 and len(occ) == 1):
                ok = False
                detail = f"`{name}` is used outside `write_all(raw, state, buf)`: {[hirpp.expr(c)[:60] for c in calls]}"
        tail = hir.simp(top[-1])
        ok = ok and hir.is_call(tail, "anstream::fmt::Adapter::<W>::write_fmt") and hir.is_local(tail["args"][1], "args")
        occ, calls = _uses_of(f["hir"], "args")
        ok = ok and len(occ) == 1
    rep.check(ok, rule, f["path"], "write_fmt:all-text-through-write_all", detail, loc(f))
