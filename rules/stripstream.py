"""Rules W1–W4 over anstream::strip::{write, write_all, write_fmt, offset_to} and anstream::fmt::Adapter."""
import hir
import hirpp
from core import AnchorMissing, Unrecognised, loc

CRATE = "anstream"
M = "anstream::strip::"


def _block_of(root, node):
    """The block whose statement list contains `node` directly, with the index."""
    for b in hir.walk(root):
        if b.get("k") == "block":
            seq = hir.stmts_of(b)
            for i, s in enumerate(seq):
                if s is node or hir.simp(s) is node:
                    return b, seq, i
    return None, None, None


def _lets(root):
    out = {}
    for n in hir.walk(root):
        if n.get("k") == "let" and n["pat"].get("k") == "pbind" and "init" in n:
            out.setdefault(n["pat"]["name"], []).append(n)
    return out


def _is_range(e, kind, field, local):
    e = hir.simp(e)
    return (e.get("k") == "struct" and hir.last_seg(e["path"].get("path")) == kind and len(e["fields"]) == 1
            and e["fields"][0]["name"] == field and hir.is_local(e["fields"][0]["e"], local))


def is_ok_ctor(n):
    return n.get("k") == "call" and n.get("ctor", "").endswith("Result::Ok")


def is_err_ctor(n):
    return n.get("k") == "call" and n.get("ctor", "").endswith("Result::Err")


def _split_guarded_ok(root):
    """`match W { Ok(n) if G => A, Ok(m) => B, Err(e) => C }` as a statement, C leaving the function  ->
    `let n = match W { Ok(n) => n, Err(e) => C }; if G { A } else { let m = n; B }` — the form the short-write rules read."""
    import copy
    import norm

    def fn(n):
        if n.get("k") != "block":
            return n
        out, changed = [], False
        tail_unit = "expr" in n and isinstance(n["expr"], dict) and str(hir.simp(n["expr"]).get("ty", "")) == "()"
        for st in list(n.get("stmts", [])) + ([n["expr"]] if tail_unit else []):
            m = hir.simp(st) if isinstance(st, dict) else st
            if isinstance(m, dict) and m.get("k") == "match" and m.get("src") not in ("TryDesugar", "ForLoopDesugar") and len(m.get("arms", [])) == 3:
                a0, a1, a2 = m["arms"]

                def ok_bind(a):
                    p_ = a["pat"]
                    subs = p_.get("pats") if p_.get("k") == "pts" else [f_["p"] for f_ in p_.get("fields", [])] if p_.get("k") == "pstruct" else []
                    if hir.last_seg(hir.pat_path(p_) or "") == "Ok" and len(subs) == 1 and subs[0].get("k") == "pbind":
                        return subs[0]
                    return None
                b0, b1 = ok_bind(a0), ok_bind(a1)
                if b0 is not None and b1 is not None and "guard" in a0 and "guard" not in a1 and "guard" not in a2 \
                        and hir.last_seg(hir.pat_path(a2["pat"]) or "") == "Err" and hir.diverges(a2["body"]):
                    ln = m.get("ln")
                    val = {"k": "local", "name": b0["name"], "id": b0.get("id"), "ln": ln, "ty": b0.get("ty")}
                    inner = dict(m, arms=[dict(a0, body=val, **{}), a2], ty=b0.get("ty"))
                    inner["arms"][0] = {k_: v for k_, v in inner["arms"][0].items() if k_ != "guard"}
                    out.append({"k": "let", "pat": copy.deepcopy(b0), "init": inner, "ln": ln, "norm": "guarded-ok"})
                    rebind = {"k": "let", "pat": copy.deepcopy(b1), "init": copy.deepcopy(val), "ln": ln, "norm": "guarded-ok"}
                    body1 = a1["body"]
                    if isinstance(body1, dict) and body1.get("k") == "block" and not body1.get("label"):
                        else_ = dict(body1, stmts=[rebind] + list(body1.get("stmts", [])))
                    else:
                        else_ = {"k": "block", "stmts": [rebind], "expr": body1, "ty": m.get("ty"), "ln": ln}
                    out.append({"k": "if", "c": a0["guard"], "t": a0["body"], "e": else_, "ln": ln, "ty": m.get("ty"), "norm": "guarded-ok"})
                    changed = True
                    continue
            out.append(st)
        if not changed:
            return n
        res = dict(n, stmts=out)
        if tail_unit:
            res.pop("expr", None)
        return res
    return norm.map_tree(root, fn)


def load_fn(facts, name):
    """The body of strip::write / write_all, without a leading empty-input guard `if buf.is_empty() { return Ok(0) | Ok(()) }`: with
    no input the scan yields nothing and the function's own tail returns Ok(buf.len()) = Ok(0) / Ok(()), so the guard decides
    nothing (its exact form is required; anything else stays in place for the rules to judge)."""
    b = facts.body(CRATE, M + name)
    h2 = _split_guarded_ok(b["hir"])
    if h2 is not b["hir"]:
        import norm
        b = dict(b, hir=norm.alias(h2, b.get("params", [])))
    h = hir.simp(b["hir"])
    if not (isinstance(h, dict) and h.get("k") == "block" and h.get("stmts")):
        return b
    s0 = hir.simp(h["stmts"][0])
    if not (s0.get("k") == "if" and "e" not in s0):
        return b
    c = hir.simp(s0["c"])
    empty = (hir.is_call(c, "is_empty") and hir.is_local(hir.peel(c["args"][0]), "buf")) or \
        (c.get("k") == "bin" and c.get("op") == "Eq" and hir.is_call(hir.simp(c["l"]), "len") and hir.is_local(hir.peel(hir.simp(c["l"])["args"][0]), "buf")
         and hir.lit_val(c["r"]) == 0)
    st = [hir.simp(x) for x in hir.stmts_of(s0["t"])]
    if not (empty and len(st) == 1 and st[0].get("k") == "ret" and "e" in st[0]):
        return b
    v = hir.simp(st[0]["e"])
    if not (v.get("k") == "call" and str(v.get("ctor", "")).endswith("Result::Ok") and len(v["args"]) == 1):
        return b
    a = hir.simp(v["args"][0])
    want_unit = name != "write"
    ok = (a.get("k") == "tuple" and not a.get("es")) if want_unit else (hir.lit_val(a) == 0 or (hir.is_call(a, "len") and hir.is_local(hir.peel(a["args"][0]), "buf")))
    if not ok:
        return b
    return dict(b, hir=dict(h, stmts=list(h["stmts"][1:])), empty_guard=True)


class WriteFn:
    def __init__(self, facts):
        self.b = load_fn(facts, "write")
        b = self.b
        names = [p.get("name") for p in b["params"]]
        if names != ["raw", "state", "buf"]:
            raise AnchorMissing(f"strip::write parameters are {names}")
        self.top = hir.stmts_of(b["hir"])
        loops = []
        for i, s in enumerate(self.top):
            fl = hir.for_loop(s) if isinstance(s, dict) and s.get("k") == "match" else None
            if fl:
                loops.append((i, fl))
        if len(loops) != 1:
            raise AnchorMissing("strip::write: exactly one top-level for loop expected")
        self.loop_idx, (pat, it, body) = loops[0]
        if pat.get("k") != "pbind" or not (hir.is_call(it, "StripBytes::strip_next") and hir.is_local(it["args"][0], "state")
                                           and hir.is_local(it["args"][1], "buf")):
            raise Unrecognised("strip::write: loop is not `for piece in state.strip_next(buf)`")
        self.piece = pat["name"]
        self.loop_body = body
        # snapshot: `let S = state.clone()` before the loop
        self.snapshot = None
        for s in self.top[:self.loop_idx]:
            if s.get("k") == "let" and s["pat"].get("k") == "pbind" and hir.is_call(hir.simp(s["init"]), "clone") and \
                    hir.is_local(hir.simp(s["init"])["args"][0], "state"):
                self.snapshot = s["pat"]["name"]
        self.lets = _lets(b["hir"])
        w = [n for n in hir.walk(body) if hir.is_call(n, "std::io::Write::write") and hir.is_local(n["args"][0], "raw")]
        if len(w) != 1 or not hir.is_local(w[0]["args"][1], self.piece):
            raise Unrecognised("strip::write: exactly one raw.write(piece) per iteration expected")
        self.inner_write = w[0]

    def is_restore(self, s):
        s = hir.simp(s)
        return (s.get("k") == "assign" and hir.is_local(s["l"], "state") and hir.simp(s["l"]).get("k") == "un"
                and self.snapshot is not None and hir.is_local(s["r"], self.snapshot))


def _snapshot_is_a_copy(facts, rep):
    """The snapshot restored on a short write / an error is `state.clone()`: for the stripper's state type and every type of this
    workspace it is made of, Clone is the derived (field-wise) one, or a hand-written one that by evaluation returns its argument —
    a clone that resets part of the state (the half-fed UTF-8 decoder, say) makes the replay start from a different state than the
    one the call started in."""
    import abseval
    LOCAL = ("anstream::", "anstyle_parse::")
    todo, seen = ["anstream::adapter::strip::StripBytes"], set()
    while todo:
        ty = todo.pop()
        if ty in seen:
            continue
        seen.add(ty)
        crate = ty.split("::")[0]
        its = [i for i in facts.items(crate) if i["dk"] in ("Struct", "Enum") and i["path"] == ty]
        if len(its) != 1:
            rep.bad("W1", ty, "clone-is-a-copy", "type of the strip state not found")
            continue
        for v in its[0].get("variants", []):
            for f in v.get("fields", []):
                ft = str(f.get("ty", "")).split("<")[0]
                if ft.startswith(LOCAL):
                    todo.append(ft)
        impls = [i for i in facts.items(crate) if i["dk"] == "Impl" and i.get("trait") == "core::clone::Clone" and str(i.get("self_ty", "")).split("<")[0] == ty]
        ok, why = len(impls) == 1 and bool(impls[0].get("derived")), "derived"
        if len(impls) == 1 and not ok:
            path = [a["path"] for a in impls[0]["assoc"] if a["name"] == "clone"]
            try:
                fields = [f["name"] for v in its[0].get("variants", [])[:1] for f in v.get("fields", [])]
                x = ("rec", {n_: ("sym", n_) for n_ in fields})
                r = abseval.Evaluator(facts, crate, {"*": lambda cal, a_, e_: a_[0] if cal.endswith("Clone::clone") and len(a_) == 1 else None}).call_fn(crate, path[0], [x])
                ok, why = r == x, f"hand-written: clone(x) evaluates to {str(r)[:100]}"
            except (Unrecognised, IndexError) as ex:
                ok, why = False, f"hand-written and not evaluable: {ex}"
        rep.check(ok, "W1", ty, "clone-is-a-copy", why, "")


def rule_W1_W3(facts, rep):
    w = WriteFn(facts)
    b = w.b
    rep.fn(b["path"])
    rep.check(w.snapshot is not None, "W1", b["path"], "snapshot-before-loop",
              "the strip state is cloned before any byte is consumed", loc(b))
    _snapshot_is_a_copy(facts, rep)
    # the name bound to the count accepted by the inner writer
    written = None
    for name, ls in w.lets.items():
        for l in ls:
            init = hir.simp(l["init"])
            if init is w.inner_write or hir.try_inner(init) is w.inner_write:
                written = name
            elif init.get("k") == "match" and hir.simp(init["scrut"]) is w.inner_write:
                # match raw.write(..) { Ok(n) => n, Err(e) => { .. return Err(e) } }
                for a in init["arms"]:
                    if hir.last_seg(hir.pat_path(a["pat"])) == "Ok":
                        v = hir.simp(a["body"])
                        p = a["pat"]["pats"][0] if a["pat"].get("k") == "pts" else None
                        if p is not None and p.get("k") == "pbind" and hir.is_local(v, p["name"]):
                            written = name
    rep.check(written is not None, "W1", b["path"], "written-is-inner-count", "`written` is the count returned by raw.write(piece)", loc(b))
    oks = [n for n in hir.walk(b["hir"]) if is_ok_ctor(n) and n.get("ty", "").startswith("core::result::Result<usize")]
    n_short = 0
    for n in oks:
        v = hir.simp(n["args"][0])
        if hir.is_call(v, "len") and hir.is_local(v["args"][0], "buf"):
            # W3: whole buffer consumed — must be the fall-through result after the loop
            tail = hir.simp(w.top[-1])
            rep.check(tail is n, "W3", b["path"], "Ok(buf.len())-after-loop", "Ok(buf.len()) only after every piece was accepted in full", loc(b, n))
            continue
        n_short += 1
        R = hir.Resolver(b["hir"])
        c = R.res(v)
        # offset = offset_to(buf, D), D = &piece[written..]   (each of them bound to a local or written in place)
        ok_off = False
        inline_sub = False

        def pointee(e):
            """`X.as_ptr() [as usize]`, possibly through locals -> X"""
            e = hir.peel(R.res(hir.peel(e)))
            while e.get("k") == "cast":
                e = hir.peel(R.res(hir.peel(e["e"])))
            if hir.is_call(e, "as_ptr") and len(e["args"]) == 1:
                return hir.peel(R.res(hir.peel(e["args"][0])))
            return None
        if hir.is_call(c, M + "offset_to") and hir.is_local(c["args"][0], "buf"):
            ix = hir.peel(R.res(hir.peel(c["args"][1])))
            ok_off = (ix.get("k") == "index" and hir.is_local(ix["e"], w.piece) and written is not None
                      and _is_range(ix["i"], "RangeFrom", "start", written))
        elif c.get("k") == "bin" and c.get("op") == "Sub" and "callee" not in c and pointee(c["l"]) is not None and pointee(c["r"]) is not None:
            # the helper written in place: piece[written..].as_ptr() as usize - buf.as_ptr() as usize
            ix, base = pointee(c["l"]), pointee(c["r"])
            ok_off = (ix.get("k") == "index" and hir.is_local(ix["e"], w.piece) and written is not None
                      and _is_range(ix["i"], "RangeFrom", "start", written) and hir.is_local(base, "buf"))
            inline_sub = True
        elif v.get("k") != "local" and not hir.is_call(c, M + "offset_to"):
            rep.bad("W3", b["path"], "Ok(count)-not-an-offset", f"write returns Ok({hirpp.expr(v)}): not buf.len() and not an offset into buf", loc(b, n))
            continue
        off = v
        rep.check(ok_off, "W3", b["path"], "short-count-is-offset-of-unwritten-tail",
                  "the short count is offset_to(buf, &piece[written..]): where the first undelivered byte lies in the caller's buffer", loc(b, n))
        # W1: replay slice is buf[..offset], after restoring the snapshot, and the same offset is returned
        ret = None
        for r in hir.walk(b["hir"]):
            if r.get("k") == "ret" and hir.simp(r.get("e")) is n:
                ret = r
        blk, seq, i = _block_of(b["hir"], ret) if ret is not None else (None, None, None)
        if blk is None:
            rep.bad("W1", b["path"], "short-write-return-shape", "short-write return is not `return Ok(offset)` at the end of a block", loc(b, n))
            continue
        before = seq[:i]
        replays = [(j, s) for j, s in enumerate(before) for c in hir.walk(s) if hir.is_call(c, "StripBytes::strip_next")]
        restores = [j for j, s in enumerate(before) if w.is_restore(s)]
        ok_replay = False
        why = "no replay of the consumed part through strip_next after rewinding"
        on_copy = False
        if len(replays) == 1 and not restores:
            # the same rewind done on a copy: `let mut s = <snapshot>; s.strip_next(consumed).last(); *state = s;`
            call0 = [c for c in hir.walk(replays[0][1]) if hir.is_call(c, "StripBytes::strip_next")][0]
            recv = hir.peel(call0["args"][0])
            if recv.get("k") == "local" and not hir.is_local(recv, "state") or (recv.get("k") == "local" and recv.get("id") != b["params"][1].get("id")):
                binds = [x for x in hir.walk(b["hir"]) if x.get("k") == "let" and x["pat"].get("k") == "pbind" and x["pat"].get("id") == recv.get("id")]
                from_snapshot = len(binds) == 1 and w.snapshot is not None and hir.is_local(hir.simp(binds[0].get("init")), w.snapshot)
                stores_back = [j for j, st_ in enumerate(before) if j > replays[0][0] and hir.simp(st_).get("k") == "assign" and hir.is_local(hir.simp(st_)["l"], "state")
                               and hir.simp(hir.simp(st_)["l"]).get("k") == "un" and hir.simp(hir.simp(st_)["r"]).get("k") == "local"
                               and hir.simp(hir.simp(st_)["r"]).get("id") == recv.get("id")]
                on_copy = from_snapshot and len(stores_back) == 1
        if len(replays) == 1 and ((restores and restores[-1] < replays[0][0]) or on_copy):
            call = [c for c in hir.walk(replays[0][1]) if hir.is_call(c, "StripBytes::strip_next")][0]
            ix = hir.peel(R.res(hir.peel(call["args"][1])))
            if ix.get("k") == "index" and hir.is_local(ix["e"], "buf"):
                r_ = hir.simp(ix["i"])
                endx = r_["fields"][0]["e"] if (r_.get("k") == "struct" and hir.last_seg(r_["path"].get("path")) == "RangeTo" and len(r_["fields"]) == 1) else None
                if endx is not None and R.same(endx, off):
                    ok_replay = True
                    why = "replays buf[..offset] from the snapshot and returns the same offset"
                else:
                    why = (f"after rewinding, the stripper is re-fed `{hirpp.expr(ix)}` — it must be re-fed exactly the part "
                           f"reported as consumed, buf[..{hirpp.expr(off)}], or the carried state no longer matches the returned count")
            drained = hir.is_call(hir.simp(replays[0][1]), "Iterator::last", "Iterator::count", "Iterator::for_each")
            if ok_replay and not drained:
                ok_replay, why = False, "the replay iterator is never driven (strip_next is lazy)"
        rep.check(ok_replay, "W1", b["path"], "replay-consumed-prefix", f"W1: {why}", loc(b, ret))
        # guarded by possible != written with possible = piece.len()
        frames = [fr for (x, fr) in hir.visit_with_conds(b["hir"], lambda x: x is ret)]
        g = False
        for f in frames[0] if frames else []:
            if f.get("kind") == "if":
                c = hir.simp(f["expr"])
                if c.get("k") == "bin" and ((c["op"] == "Ne" and f["val"]) or (c["op"] == "Eq" and not f["val"])):
                    sides = [hir.simp(c["l"]), hir.simp(c["r"])]
                    wr = [x for x in sides if hir.local_name(x) == written]
                    ot = [x for x in sides if hir.local_name(x) != written]
                    if len(wr) == 1 and len(ot) == 1:
                        pi = R.res(ot[0])
                        g = hir.is_call(pi, "len") and hir.is_local(pi["args"][0], w.piece)
        rep.check(g, "W1", b["path"], "short-write-test", "the short-write branch is taken exactly when piece.len() != written", loc(b, ret))
    rep.check(n_short == 1, "W3", b["path"], "one-short-count", f"{n_short} partial-count results", loc(b))
    # offset_to is pointer subtraction subslice - total
    if not facts.crate(CRATE)["_bodies"].get(M + "offset_to") and n_short == 1 and inline_sub:
        rep.ok("W3", b["path"], "subslice-minus-total", "the offset is computed in place: unwritten.as_ptr() - buf.as_ptr()")
        _vectored(facts, rep)
        return
    o = facts.body(CRATE, M + "offset_to")
    rep.fn(o["path"])
    st = hir.stmts_of(o["hir"])
    tail = hir.simp(st[-1])
    lets = _lets(o["hir"])
    ok = False
    if tail.get("k") == "bin" and tail["op"] == "Sub":
        def ptr_of(e, param):
            e = hir.peel(e)
            if e.get("k") == "local":
                for l in lets.get(e["name"], []):
                    c = hir.simp(l["init"])
                    if hir.is_call(c, "as_ptr") and hir.is_local(c["args"][0], param):
                        return True
            return False
        ok = ptr_of(tail["l"], o["params"][1]["name"]) and ptr_of(tail["r"], o["params"][0]["name"])
    rep.check(ok, "W3", o["path"], "subslice-minus-total", "offset_to(total, sub) = sub.as_ptr() - total.as_ptr()", loc(o))
    _vectored(facts, rep)


def _vectored(facts, rep):
    # write_vectored forwards exactly one of the caller's buffers to write
    v = facts.body(CRATE, "<anstream::strip::StripStream<S> as std::io::Write>::write_vectored")
    rep.fn(v["path"])
    ok, why = _forwards_one_buffer(v)
    rep.check(ok, "W3", v["path"], "forwards-one-buffer",
              f"write_vectored = self.write(first non-empty buffer, or an empty slice): the count refers to a prefix of the caller's data; {why}", loc(v))


def _result_nodes(body):
    """Expressions whose value is the function's result: the tail (through blocks / if / match) and `return` operands."""
    out = []

    def tail(e):
        e = hir.simp(e)
        if not isinstance(e, dict):
            return
        k = e.get("k")
        if k == "block":
            if "expr" in e:
                tail(e["expr"])
        elif k == "if":
            tail(e["t"])
            if "e" in e:
                tail(e["e"])
        elif k == "match" and e.get("src") not in ("ForLoopDesugar", "TryDesugar"):
            for a in e["arms"]:
                tail(a["body"])
        else:
            out.append(e)
    tail(body)
    for n in hir.walk(body):
        if n.get("k") == "ret" and "e" in n:
            tail(n["e"])
    return out


def _nonempty_test(c, name):
    c = hir.simp(c)
    if c.get("k") == "un" and c.get("op") == "Not":
        i = hir.simp(c["e"])
        return hir.is_call(i, "is_empty") and hir.is_local(hir.peel(i["args"][0]), name)
    if c.get("k") == "bin" and c["op"] in ("Ne", "Gt"):
        l = hir.simp(c["l"])
        return hir.is_call(l, "len") and hir.is_local(hir.peel(l["args"][0]), name) and hir.lit_val(c["r"]) == 0
    return False


def _forwards_one_buffer(v, method="<anstream::strip::StripStream<S> as std::io::Write>::write", free_fn=M + "write"):
    body = v["hir"]
    R = hir.Resolver(body)
    # the stream's own `write` method, or the module's free `write(raw, state, buf)` it is made of
    writes = [n for n in hir.walk(body) if hir.is_call(n, method) or (n.get("k") == "call" and hir.callee(n) == free_fn)]
    if not writes:
        return False, "no self.write call"
    results = _result_nodes(body)
    buf_arg = {}
    for w_ in writes:
        if not any(w_ is r for r in results):
            return False, f"`{hirpp.expr(w_)[:50]}` is not returned as is (a second write could follow)"
        if hir.callee(w_) == free_fn:
            if len(w_["args"]) != 3 or hir.place_str(hir.peel(w_["args"][1])) != "self.state":
                return False, "the free write function is not given the stream's own state"
            buf_arg[id(w_)] = w_["args"][2]
        elif not hir.is_local(w_["args"][0], "self"):
            return False, "write on something else than self"
        else:
            buf_arg[id(w_)] = w_["args"][1]
    others = [n for n in hir.walk(body) if n.get("k") == "call" and hir.callee_decl(n).startswith("std::io::Write::") and not any(n is w_ for w_ in writes)]
    if others:
        return False, f"other writer calls {[hir.callee(o) for o in others]}"
    loops = [l for l in (hir.for_loop(n) for n in hir.walk(body) if n.get("k") == "match" and n.get("src") == "ForLoopDesugar") if l]
    kinds = []
    for w_ in writes:
        a = hir.peel(R.res(hir.peel(buf_arg[id(w_)])))
        # an empty slice
        arr = [x for x in hir.walk(a) if x.get("k") == "array"]
        if (a.get("k") == "array" and not a["es"]) or (a.get("k") == "index" and arr and not arr[0]["es"]):
            kinds.append("empty")
            continue
        # the loop variable of `for buf in bufs` under `if <buf is not empty>`
        hit = False
        for pat, it, lb in loops:
            src = hir.peel(it)
            if hir.is_call(src, "iter"):
                src = hir.peel(src["args"][0])
            if pat.get("k") == "pbind" and hir.is_local(src, "bufs") and a.get("k") == "local" and a.get("id") == pat.get("id"):
                st = [hir.simp(x) for x in hir.stmts_of(lb)]
                if len(st) == 1 and st[0].get("k") == "if" and "e" not in st[0] and _nonempty_test(st[0]["c"], pat["name"]) and \
                        any(w_ is x for x in hir.walk(st[0]["t"])):
                    hit = True
        if hit:
            kinds.append("first-non-empty")
            continue
        # bufs.iter().find(|b| !b.is_empty()).map(|b| &**b).unwrap_or(<empty>)
        chain = a
        names = []
        finds = []
        while chain.get("k") == "call" and chain.get("args"):
            names.append(hir.callee(chain).split("::")[-1])
            if hir.is_call(chain, "Iterator::find"):
                finds.append(chain)
            chain = hir.peel(chain["args"][0])
        if hir.is_local(chain, "bufs") and len(finds) == 1 and set(names) <= {"unwrap_or", "map_or", "map", "find", "iter", "unwrap_or_default", "copied", "as_deref"}:
            clo = hir.simp(finds[0]["args"][1])
            if clo.get("k") == "closure" and _nonempty_test(clo["body"], clo["params"][0].get("name")):
                kinds.append("first-non-empty")
                continue
        return False, f"argument `{hirpp.expr(a)[:60]}` is neither the first non-empty element of bufs nor an empty slice"
    if "first-non-empty" not in kinds:
        return False, "no path forwards a caller buffer"
    return True, f"{kinds}"


def rule_W2(facts, rep):
    w = WriteFn(facts)
    b = w.b
    # every way out of the loop body with an error
    exits = []  # (kind, node, source-call)
    for n in hir.walk(w.loop_body):
        if n.get("k") == "match" and n.get("src") == "TryDesugar":
            exits.append(("try", n, hir.try_inner(n)))
        if n.get("k") == "ret" and "e" in n and is_err_ctor(hir.simp(n["e"])):
            exits.append(("ret", n, None))
    rep.check(len(exits) >= 1, "W2a", b["path"], "error-exit-exists", "an inner write error leaves write() with Err", loc(b))
    for kind, n, src in exits:
        if kind == "try":
            what = hir.callee(hir.simp(src)).split("::")[-1] if src else "?"
            rep.bad("W2a", b["path"], f"restore-before-err:?-on-{what}",
                    "W2 no-state-drift-on-error: `?` returns the inner writer's error while the strip state has already been "
                    "advanced over the whole buffer by strip_next; nothing of the buffer was reported consumed, so the caller's "
                    "retry is parsed from the wrong state", loc(b, n))
            rep.bad("W2b", b["path"], f"err-after-progress:{what}",
                    "W2 no-error-after-progress: an error of a later piece is returned although earlier pieces of this call "
                    "were already delivered", loc(b, n))
            continue
        blk, seq, i = _block_of(b["hir"], n)
        restored = blk is not None and i >= 1 and w.is_restore(seq[i - 1])
        rep.check(restored, "W2a", b["path"], "restore-before-err:return-Err",
                  "W2 no-state-drift-on-error: `*state = <snapshot>` must directly precede `return Err(..)` (nothing of this "
                  "buffer is reported as consumed, so the state must be the one at entry)", loc(b, n))
        # the error value is the inner writer's, unchanged
        ev = hir.simp(hir.simp(n["e"])["args"][0])
        frames = [fr for (x, fr) in hir.visit_with_conds(b["hir"], lambda x: x is n)][0]
        same = False
        for f in frames:
            if f.get("kind") == "arm" and hir.simp(f["scrut"]) is w.inner_write and hir.last_seg(hir.pat_path(f["pat"])) == "Err":
                p = f["pat"]["pats"][0] if f["pat"].get("k") == "pts" else None
                same = p is not None and p.get("k") == "pbind" and hir.is_local(ev, p["name"])
        rep.check(same, "W4", b["path"], "write:error-unchanged", "the Err returned by write is the inner writer's error value itself", loc(b, n))
        # W2b: this exit sits in the loop that also delivers pieces → reachable after a completed inner write
        rep.bad("W2b", b["path"], "err-after-progress:write",
                "W2 no-error-after-progress: the error of a later piece is returned (and the state rewound to the entry "
                "snapshot) although earlier pieces of the same call were already delivered to the inner writer; a caller that "
                "retries the buffer, as the protocol says, delivers those pieces twice", loc(b, n))
    # inner Ok is never dropped: the Ok arm yields the count (checked in W1), and no path turns Err into Ok:
    for n in hir.walk(w.loop_body):
        if n.get("k") == "match" and hir.simp(n["scrut"]) is w.inner_write:
            for a in n["arms"]:
                if hir.last_seg(hir.pat_path(a["pat"])) == "Err":
                    stays = [x for x in hir.walk(a["body"]) if x.get("k") in ("continue", "break")]
                    rep.check(hir.diverges(a["body"]) and not stays, "W4", b["path"], "write:Err-arm-leaves",
                              "every Err arm of the inner write leaves the function with the error (it cannot fall through into success, nor "
                              "`continue` / `break` to the next piece: the piece was not delivered, the caller must hear of it)", loc(b, a))


def rule_W4(facts, rep):
    # write_all: propagate with `?` only, final Ok(())
    b = load_fn(facts, "write_all")
    rep.fn(b["path"])
    tries = [n for n in hir.walk(b["hir"]) if n.get("k") == "match" and n.get("src") == "TryDesugar"]
    ok = len(tries) == 1 and hir.is_call(hir.simp(hir.try_inner(tries[0])), "std::io::Write::write_all")
    if ok:
        # the `?` statement's value is discarded, not matched on
        brk = [a for a in tries[0]["arms"] if hir.last_seg(hir.pat_path(a["pat"])) == "Break"]
        ok = len(brk) == 1 and hir.simp(brk[0]["body"]).get("k") == "ret" and hir.is_call(hir.simp(hir.simp(brk[0]["body"])["e"]), "from_residual")
    rep.check(ok, "W4", b["path"], "write_all:?-propagates", "raw.write_all(piece)? — the inner error is returned as is", loc(b))
    results = [n for n in hir.walk(b["hir"]) if is_ok_ctor(n)]
    rep.check(len(results) == 1 and hir.simp(hir.stmts_of(b["hir"])[-1]) is results[0], "W4", b["path"], "write_all:Ok-only-at-end",
              "Ok(()) is produced only after the loop has finished", loc(b))
    no_swallow = [n for n in hir.walk(b["hir"]) if hir.is_call(n, "Result::<T, E>::ok", "Result::<T, E>::unwrap_or", "Result::<T, E>::unwrap_or_default", "Result::<T, E>::is_ok")]
    rep.check(not no_swallow, "W4", b["path"], "write_all:no-swallow", "no result-discarding combinator", loc(b))
    # write_fmt: Adapter::new(|buf| write_all(raw, state, buf)).write_fmt(args)
    f = facts.body(CRATE, M + "write_fmt")
    rep.fn(f["path"])
    clos = [n for n in hir.walk(f["hir"]) if n.get("k") == "closure"]
    ok = False
    if len(clos) == 1:
        cb = hir.simp(clos[0]["body"])
        ok = (hir.is_call(cb, M + "write_all") and [hir.local_name(a) for a in cb["args"]] == ["raw", "state", clos[0]["params"][0].get("name")])
    tail = hir.simp(hir.stmts_of(f["hir"])[-1])
    ok2 = hir.is_call(tail, "anstream::fmt::Adapter::<W>::write_fmt") and hir.is_call(hir.simp(tail["args"][0]), "anstream::fmt::Adapter::<W>::new") \
        and hir.is_local(tail["args"][1], "args")
    rep.check(ok and ok2, "W4", f["path"], "write_fmt:through-adapter",
              "write_fmt = fmt::Adapter::new(|buf| write_all(raw, state, buf)).write_fmt(args)", loc(f))
    rule_adapter(facts, rep, CRATE, "anstream::fmt::")


def rule_adapter(facts, rep, crate, mod):
    """fmt::Adapter keeps the io::Error across the fmt::Write boundary — decided case by case with the abstract evaluator, so
    `match`, `map_err`, `is_ok()` + early return and `if let` spellings are all the same function:
      write_str(s): calls (self.writer)(s.as_bytes()) once; Ok -> Ok(()), nothing stored; Err(e) -> self.error = Err(e), Err(fmt::Error)
      write_fmt(args): fmt::write Ok -> Ok(()); Err with a saved error -> that error; Err without -> a new io::Error (never Ok)."""
    import abseval
    # the representation of "no error saved yet" is whatever the constructor stores (Ok(()), None, ...): the three functions are
    # composed, not compared with a fixed encoding
    nw = facts.body(crate, f"{mod}Adapter::<W>::new")
    try:
        v0 = abseval.Evaluator(facts, crate, {}).call_fn(crate, nw["path"], [("sym", "writer")])
        X0 = v0[1]["error"] if v0[0] == "rec" and "error" in v0[1] else None
    except Unrecognised:
        X0 = None
    if X0 is None:
        raise Unrecognised("Adapter::new does not evaluate to a record with an `error` field")
    ws = facts.body(crate, f"<{mod}Adapter<W> as core::fmt::Write>::write_str")
    rep.fn(ws["path"])
    sname = ws["params"][1]["name"]
    res = {}
    shape_err = None
    for case in ("ok", "err"):
        calls = []

        def writer(args, case=case, calls=calls):
            calls.append(args)
            return ("ok", ("unit",)) if case == "ok" else ("err", ("sym", "e"))
        ev = abseval.Evaluator(facts, crate, {"call:self.writer": writer, "core::str::<impl str>::as_bytes": lambda a: ("bytes-of", a[0])})
        env = abseval.Env()
        env[sname] = ("sym", "s")
        env["self.error"] = X0
        try:
            try:
                r = ev.ev(ws["hir"], env)
            except abseval.Return as rt:
                r = rt.v
        except Unrecognised as e:
            shape_err = str(e)
            break
        res[case] = (r, calls, list(ev.stores))
    if shape_err:
        raise Unrecognised(f"Adapter::write_str: {shape_err}")
    ok_call = all(len(c) == 1 and c[0] == [("bytes-of", ("sym", "s"))] for _, c, _ in res.values())
    rep.check(ok_call, "W4", ws["path"], "write_str:calls-writer-with-the-bytes", f"(self.writer)(s.as_bytes()) exactly once: {[c for _, c, _ in res.values()]}", loc(ws))
    r_err, _, st_err = res["err"]
    def mentions(v, needle):
        return v == needle or (isinstance(v, tuple) and any(mentions(x, needle) for x in v[1:]))
    ok_err = r_err[0] == "err" and len(st_err) == 1 and st_err[0][0] == "self.error" and mentions(st_err[0][1], ("sym", "e")) and st_err[0][1] != X0
    SAVED = st_err[0][1] if ok_err else None
    rep.check(ok_err, "W4", ws["path"], "write_str:saves-io-error",
              f"on Err(e): e is stored in self.error and fmt::Error is returned (the io::Error is not discarded); result {r_err}, stores {st_err}", loc(ws))
    r_ok, _, st_ok = res["ok"]
    rep.check(r_ok == ("ok", ("unit",)) and not st_ok, "W4", ws["path"], "write_str:Ok-is-Ok", f"{r_ok} {st_ok}", loc(ws))
    wf = facts.body(crate, f"{mod}Adapter::<W>::write_fmt")
    rep.fn(wf["path"])
    ok, why = True, ""
    n_cases = 0
    for fmt_res in ("ok", "err"):
        for saved in ("ok", "err"):
            if fmt_res == "ok" and saved == "err":
                continue      # write_str returns Err whenever it saves an error, so fmt::write cannot report Ok then
            n_cases += 1
            ev = abseval.Evaluator(facts, crate, {
                "core::fmt::write": ("ok", ("unit",)) if fmt_res == "ok" else ("err", ("enum", "core::fmt::Error")),
                "std::io::error::Error::new": ("sym", "new-io-error"), "std::io::Error::new": ("sym", "new-io-error"),
                "std::io::error::Error::other": ("sym", "new-io-error")})
            env = abseval.Env()
            for p in wf["params"]:
                env[p["name"]] = ("sym", p["name"])
            if saved == "err" and SAVED is None:
                ok, why = False, "write_str saves no error to return"
                continue
            env["self.error"] = X0 if saved == "ok" else SAVED
            try:
                try:
                    r = ev.ev(wf["hir"], env)
                except abseval.Return as rt:
                    r = rt.v
            except Unrecognised as e:
                raise Unrecognised(f"Adapter::write_fmt: {e}")
            want = ("ok", ("unit",)) if fmt_res == "ok" else (("err", ("sym", "e")) if saved == "err" else ("err", ("sym", "new-io-error")))
            if r != want:
                ok = False
                why = (f"fmt::write {fmt_res}, saved error {saved}: returns {r}, expected {want}" +
                       (" — a formatter failure is turned into success" if r[0] == "ok" and fmt_res == "err" else ""))
    rep.check(ok, "W4", wf["path"], "write_fmt:returns-saved-error",
              f"Adapter::write_fmt returns the saved inner error when fmt::write fails ({why or str(n_cases) + ' cases'})", loc(wf))
    # std's provided fmt::Write methods (write_char, write_fmt) go through write_str; an override of one of them in this impl must do
    # the same — one call of write_str, its result returned, the writer and the saved error not touched directly — or the bytes /
    # the error take a path the rules above do not see
    impls = [i for i in facts.items(crate) if i["dk"] == "Impl" and i.get("trait") == "core::fmt::Write" and str(i.get("self_ty", "")).startswith(f"{mod}Adapter")]
    extra_bad = []
    for i in impls:
        for a in i["assoc"]:
            if a["name"] == "write_str":
                continue
            eb = facts.body(crate, a["path"])
            rep.fn(eb["path"])
            direct, via = [], []
            ev = abseval.Evaluator(facts, crate, {"call:self.writer": lambda a_: (direct.append(a_), ("sym", "writer-result"))[1],
                                                  ws["path"]: lambda a_: (via.append(a_), ("sym", "write_str-result"))[1],
                                                  "*": lambda cal, a_, e_: ("app", cal) + tuple(a_)})
            env = abseval.Env()
            for p_ in eb["params"]:
                env[p_["name"]] = ("sym", p_["name"])
            env["self.error"] = X0
            try:
                try:
                    r = ev.ev(eb["hir"], env)
                except abseval.Return as rt:
                    r = rt.v
                if direct or len(via) != 1 or r != ("sym", "write_str-result") or any(k == "self.error" for k, _ in ev.stores):
                    extra_bad.append(f"{a['name']}: {len(direct)} direct writer calls, {len(via)} write_str calls, returns {str(r)[:40]}")
            except (Unrecognised, abseval.NeedChoice) as ex:
                extra_bad.append(f"{a['name']}: not evaluable: {str(ex)[:80]}")
    rep.check(len(impls) == 1 and not extra_bad, "W4", ws["path"], "only-write_str-reaches-the-writer",
              f"{len(impls)} fmt::Write impl(s) for the adapter; overrides that do not go through write_str: {extra_bad}"[:300], loc(ws))
    rep.check(not mentions(X0, ("sym", "writer")) and X0[0] in ("ok", "none", "enum", "unit"), "W4", nw["path"], "new:error-starts-Ok",
              f"a fresh adapter holds no error ({X0}); write_fmt with that value and a failing formatter reports the formatter error (case above)", loc(nw))


EXITS = ("ret", "break", "continue")


def _early_exit(stmts):
    for s in stmts:
        for n in hir.walk(s):
            if n.get("k") in EXITS or (n.get("k") == "match" and n.get("src") == "TryDesugar"):
                return n
    return None


def _uses_of(root, name):
    """Every call (or method call) that receives the local `name`, plus the number of occurrences of the local."""
    occ = [n for n in hir.walk(root) if n.get("k") == "local" and n.get("name") == name]
    calls = [n for n in hir.walk(root) if n.get("k") == "call" and any(hir.is_local(hir.peel(a), name) for a in n["args"])]
    return occ, calls


def rule_through(facts, rep, rule):
    """Everything the strip stream hands to the inner writer went through the scanner that carries the stream's state, on every
    path: no fast path, no second scanner, no early exit before the scan (used by C01 reach, C03 and C06)."""
    for fn, inner in (("write", "std::io::Write::write"), ("write_all", "std::io::Write::write_all")):
        b = load_fn(facts, fn)
        rep.fn(b["path"])
        names = [p.get("name") for p in b["params"]]
        if names != ["raw", "state", "buf"]:
            raise AnchorMissing(f"strip::{fn} parameters are {names}")
        top = hir.stmts_of(b["hir"])
        loops = [(i, hir.for_loop(s)) for i, s in enumerate(top) if isinstance(s, dict) and s.get("k") == "match" and hir.for_loop(s)]
        ok = len(loops) == 1
        detail = "exactly one top-level `for piece in state.strip_next(buf)`"
        if ok:
            i, (pat, it, body) = loops[0]
            ok = pat.get("k") == "pbind" and hir.is_call(it, "StripBytes::strip_next") and hir.is_local(it["args"][0], "state") and hir.is_local(it["args"][1], "buf")
            ex = _early_exit(top[:i])
            if ex is not None:
                ok = False
                detail = f"the function can leave before the scan (`{hirpp.expr(ex)[:60]}`): bytes of this call bypass the carried state"
        if not ok and fn == "write_all":
            # write_all may also hand the bytes to the module's own `write` (which is decided above): every use of the inner
            # writer and of the state is `write(raw, state, <part of buf>)`
            occ_r, calls_r = _uses_of(b["hir"], "raw")
            occ_s, calls_s = _uses_of(b["hir"], "state")
            via = [c for c in calls_r if hir.is_call(c, M + "write") and [hir.local_name(a) for a in c["args"][:2]] == ["raw", "state"]]
            if via and len(via) == len(calls_r) == len(occ_r) and len(calls_s) == len(occ_s) == len(via):
                args_ok = all(hir.is_local(hir.peel(x), "buf") or (hir.peel(x).get("k") == "index" and hir.is_local(hir.peel(x)["e"], "buf")) or
                              hir.peel(x).get("k") == "local" for c in via for x in [c["args"][2]])
                rep.check(args_ok, rule, b["path"], "scan-is-unconditional", "write_all delegates every byte to strip::write(raw, state, ..)", loc(b))
                rep.ok(rule, b["path"], "inner-writer-gets-only-stripped-pieces", "through strip::write")
                rep.ok(rule, b["path"], "no-second-scanner", "through strip::write")
                continue
        rep.check(ok, rule, b["path"], "scan-is-unconditional", detail, loc(b))
        if not ok:
            continue
        occ, calls = _uses_of(b["hir"], "raw")
        good = [c for c in calls if hir.callee_decl(c) == inner and hir.is_local(c["args"][0], "raw") and hir.is_local(c["args"][1], pat["name"])
                and any(c is x for x in hir.walk(body))]
        rep.check(len(good) == 1 and len(calls) == 1 and len(occ) == 1, rule, b["path"], "inner-writer-gets-only-stripped-pieces",
                  f"the only use of the inner writer is `raw.{fn}(piece)` on the loop variable; found {[hirpp.expr(c)[:60] for c in calls]}", loc(b))
        # the scanner is the stream's own: `state` is used for the scan (and, in write, the snapshot / restore / replay), never replaced
        other = [c for c in hir.walk(b["hir"]) if c.get("k") == "call" and hir.callee(c).startswith("anstream::adapter::strip::")
                 and hir.callee(c).split("::")[-1] in ("strip_str", "strip_bytes", "new", "default")]
        rep.check(not other, rule, b["path"], "no-second-scanner", f"{[hir.callee(c) for c in other]}", loc(b))
    f = facts.body(CRATE, M + "write_fmt")
    rep.fn(f["path"])
    names = [p.get("name") for p in f["params"]]
    if names != ["raw", "state", "args"]:
        raise AnchorMissing(f"strip::write_fmt parameters are {names}")
    top = hir.stmts_of(f["hir"])
    ex = _early_exit(top[:-1])
    clos = [n for n in hir.walk(f["hir"]) if n.get("k") == "closure"]
    ok = ex is None and len(clos) >= 1
    detail = "write_fmt = fmt::Adapter::new(|buf| write_all(raw, state, buf)).write_fmt(args) on every path"
    if ex is not None:
        detail = f"the function can leave before formatting through the adapter (`{hirpp.expr(ex)[:60]}`)"
    if ok:
        for name in ("raw", "state"):
            occ, calls = _uses_of(f["hir"], name)
            good = [c for c in calls if hir.is_call(c, M + "write_all") and [hir.local_name(a) for a in c["args"][:2]] == ["raw", "state"]
                    and any(any(c is x for x in hir.walk(cl["body"])) for cl in clos)]
            if not (len(good) == 1 and len(calls) == 1 and len(occ) == 1):
                ok = False
                detail = f"`{name}` is used outside `write_all(raw, state, buf)`: {[hirpp.expr(c)[:60] for c in calls]}"
        tail = hir.simp(top[-1])
        ok = ok and hir.is_call(tail, "anstream::fmt::Adapter::<W>::write_fmt") and hir.is_local(tail["args"][1], "args")
        occ, calls = _uses_of(f["hir"], "args")
        ok = ok and len(occ) == 1
    rep.check(ok, rule, f["path"], "write_fmt:all-text-through-write_all", detail, loc(f))
