"""C09 — colour auto-detection follows the documented precedence for every environment."""
import itertools

import abseval
import hir
import hirpp
from core import AnchorMissing, Unrecognised, loc
from rules import anstyle_common as ac

META = {
    "explanation": (
        "(chain) anstream::auto::choice is evaluated abstractly over its opaque atoms — the global choice (4 values), no_color, "
        "clicolor_force, clicolor (unset / Some(true) / Some(false)), is_terminal, term_supports_color, is_ci: 384 combinations — "
        "and the resulting decision table must equal the documented precedence (explicit global choice wins; NO_COLOR -> Never; "
        "CLICOLOR_FORCE -> Always; CLICOLOR=0 -> Never; tty && (TERM || CLICOLOR || CI) -> Always; else Never); (probes) each "
        "environment probe is evaluated over the finite value classes of its variable (unset, empty, and every literal the "
        "code compares with, plus other values) and must read exactly the published variable with the published polarity; "
        "(tty) the IsTerminal impls: in-memory and dyn writers are constant false, std handles and File delegate to "
        "is_terminal_polyfill, wrappers delegate to the inner value; (flag) colorchoice_clap::Color::as_choice is the identity "
        "table and AtomicChoice::{from_choice,to_choice} are mutually inverse on the 4 values. Structure is behaviour here; the "
        "cfg(windows) variants of the TERM probes are not analysed."),
    "exhaustive": True,
}

MANIFEST = {
    "level": ("Complete static decision on this target: the precedence is a loop-free decision list over opaque boolean probes, "
              "so its truth table over all 384 atom combinations IS its behaviour for every environment; each probe is a "
              "loop-free function of one variable compared with literals, decided over the finite partition those literals "
              "induce."),
    "note": ("Trusted: rustc front end; the abstract evaluator lib/abseval.py; std::env::var_os / Option / OsStr::is_empty "
             "semantics as modelled there; is_terminal_polyfill. Not analysed: cfg(windows) code."),
    "technique": "static analysis: truth-table normalisation of the decision chain over opaque atoms, finite value-class evaluation of the environment probes, impl tables, the ColorChoice codec by evaluation over its whole domain",
}

Q = "anstyle_query::"
CC = "colorchoice::ColorChoice::"


def spec_choice(g, no_color, force, clicolor, tty, term, ci):
    if g != "Auto":
        return g
    if no_color:
        return "Never"
    if force:
        return "Always"
    if clicolor is False:
        return "Never"
    if tty and (term or clicolor is True or ci):
        return "Always"
    return "Never"


def run(ctx):
    rep, facts = ctx.report, ctx.facts
    rep.guarded("chain", "anstream::auto::choice", lambda: rule_chain(facts, rep))
    rep.guarded("probes", Q, lambda: rule_probes(facts, rep))
    rep.guarded("tty", "anstream::stream::IsTerminal", lambda: rule_tty(facts, rep))
    rep.guarded("flag", "colorchoice", lambda: rule_flag(facts, rep))
    for r, n in (("chain", 5), ("probes", 7), ("tty", 13), ("flag", 6)):
        rep.floor(r, n)


def rule_chain(facts, rep):
    b = facts.body("anstream", "anstream::auto::choice")
    rep.fn(b["path"])
    bad = {}
    n = 0
    for g, nc, cf, cl, tty, term, ci in itertools.product(("Auto", "AlwaysAnsi", "Always", "Never"), (False, True), (False, True),
                                                          (None, True, False), (False, True), (False, True), (False, True)):
        atoms = {
            "colorchoice::ColorChoice::global": ("enum", CC + g),
            Q + "no_color": ("bool", nc),
            Q + "clicolor_force": ("bool", cf),
            Q + "clicolor": ("none",) if cl is None else ("some", ("bool", cl)),
            "anstream::stream::IsTerminal::is_terminal": ("bool", tty),
            Q + "term_supports_color": ("bool", term),
            Q + "is_ci": ("bool", ci),
        }
        ev = abseval.Evaluator(facts, "anstream", atoms, env_vars=None, inline_crates=())
        got = ev.call_fn("anstream", b["path"], [("raw",)])
        want = ("enum", CC + spec_choice(g, nc, cf, cl, tty, term, ci))
        n += 1
        if got != want:
            key = "global-choice-wins" if g != "Auto" else ("NO_COLOR" if nc else "CLICOLOR_FORCE" if cf else "CLICOLOR=0" if cl is False else "tty-and-hint")
            bad.setdefault(key, []).append((g, nc, cf, cl, tty, term, ci, got[1].split("::")[-1]))
    rep.count(n)
    for key in ("global-choice-wins", "NO_COLOR", "CLICOLOR_FORCE", "CLICOLOR=0", "tty-and-hint"):
        rep.check(key not in bad, "chain", b["path"], key,
                  f"decision differs from the documented precedence for (global, NO_COLOR, CLICOLOR_FORCE, CLICOLOR, tty, TERM, CI, got): "
                  f"{bad.get(key, [])[:3]}", loc(b))
    # AutoStream::choice is this function on the stream
    c = facts.body("anstream", "anstream::auto::AutoStream::<S>::choice")
    e = ac.single_expr(c["hir"])
    rep.check(hir.is_call(e, "anstream::auto::choice") and hir.is_local(e["args"][0], "raw"), "chain", c["path"], "delegates", "", loc(c))


VALUES = [None, "", "0", "1", "dumb", "xterm", "truecolor", "24bit", "false", "cygwin"]


def rule_probes(facts, rep):
    spec = {
        "clicolor": ("CLICOLOR", lambda v: ("none",) if v is None else ("some", ("bool", v != "0"))),
        "clicolor_force": ("CLICOLOR_FORCE", lambda v: ("bool", v not in (None, ""))),
        "no_color": ("NO_COLOR", lambda v: ("bool", v not in (None, ""))),
        "term_supports_color": ("TERM", lambda v: ("bool", v is not None and v != "dumb")),
        "term_supports_ansi_color": ("TERM", lambda v: ("bool", v is not None and v != "dumb")),
        "truecolor": ("COLORTERM", lambda v: ("bool", v in ("truecolor", "24bit"))),
        "is_ci": ("CI", lambda v: ("bool", v is not None)),
    }
    for fn, (var, f) in spec.items():
        b = facts.body("anstyle_query", Q + fn)
        rep.fn(b["path"])
        bad = []
        reads = set()
        for v in VALUES:
            # every other variable is set to a value that would flip the answer if it were read instead
            env = {name: "decoy" for name in ("CLICOLOR", "CLICOLOR_FORCE", "NO_COLOR", "TERM", "COLORTERM", "CI")}
            env[var] = v
            ev = abseval.Evaluator(facts, "anstyle_query", {}, env_vars=env)
            got = ev.call_fn("anstyle_query", b["path"], [])
            reads |= set(ev.read_vars)
            if got != f(v):
                bad.append((v, got))
            rep.count()
        rep.check(not bad and reads == {var}, "probes", b["path"], f"{var}",
                  f"probe must read exactly {var} with the published polarity; reads {sorted(reads)}; wrong for values {bad[:4]}", loc(b))


def rule_tty(facts, rep):
    impls = [i for i in facts.items("anstream") if i["dk"] == "Impl" and i.get("trait") == "anstream::stream::IsTerminal"]
    want_false = {"(dyn std::io::Write + 'static)", "(dyn std::io::Write + core::marker::Send + 'static)",
                  "(dyn std::io::Write + core::marker::Send + core::marker::Sync + 'static)", "alloc::vec::Vec<u8>", "anstream::buffer::Buffer"}
    want_poly = {"std::io::stdio::Stdout", "std::io::stdio::StdoutLock<'_>", "std::io::stdio::Stderr", "std::io::stdio::StderrLock<'_>", "std::fs::File"}
    want_wrap = {"&T", "&mut T", "alloc::boxed::Box<T>"}
    seen = set()
    for i in impls:
        ty = i["self_ty"]
        seen.add(ty)
        path = [a["path"] for a in i["assoc"] if a["name"] == "is_terminal"][0]
        b = facts.body("anstream", path)
        rep.fn(path)
        e = ac.single_expr(b["hir"])
        if ty in want_false:
            ok, why = hir.lit_val(e) is False, "an in-memory / dyn writer is never a terminal"
        elif ty in want_poly:
            ok = hir.is_call(e, "is_terminal_polyfill::IsTerminal::is_terminal") and hir.is_local(e["args"][0], "self")
            why = "std handles and files ask is_terminal_polyfill"
        elif ty in want_wrap:
            ok = hir.callee_decl(e) == "anstream::stream::IsTerminal::is_terminal" and hir.is_local(hir.peel(e["args"][0]), "self")
            why = "wrappers delegate to the wrapped value"
        else:
            ok, why = False, "unexpected IsTerminal impl"
        rep.check(ok, "tty", path, ty.replace(" ", "_"), why, loc(b))
    rep.check(seen == want_false | want_poly | want_wrap, "tty", "anstream::stream::IsTerminal", "closed-set-of-13-impls", f"{sorted(seen ^ (want_false | want_poly | want_wrap))}", "")
    # StripStream / AutoStream is_terminal ask the wrapped writer (C08 tables cover AutoStream)
    s = facts.body("anstream", "anstream::strip::StripStream::<S>::is_terminal")
    e = ac.single_expr(s["hir"])
    rep.check(hir.callee_decl(e) == "anstream::stream::IsTerminal::is_terminal" and hir.place_str(e["args"][0]) == "self.raw", "tty", s["path"], "asks-raw", "", loc(s))


def rule_flag(facts, rep):
    b = facts.body("colorchoice_clap", "colorchoice_clap::Color::as_choice")
    rep.fn(b["path"])
    m = ac.single_expr(b["hir"])
    got = {}
    for a in m["arms"]:
        got[hir.last_seg(hir.pat_path(a["pat"]))] = hir.def_path(a["body"])
    rep.check(hir.place_str(m["scrut"]) == "self.color" and got == {k: CC + k for k in ("Auto", "Always", "Never")}, "flag", b["path"], "identity-on-3-values", f"{got}", loc(b))
    w = facts.body("colorchoice_clap", "colorchoice_clap::Color::write_global")
    calls = [hir.callee(n) for n in hir.walk(w["hir"]) if n.get("k") == "call"]
    rep.check(calls == ["colorchoice::ColorChoice::write_global", "colorchoice_clap::Color::as_choice"], "flag", w["path"], "writes-as_choice()", f"{calls}", loc(w))
    order = ["Auto", "AlwaysAnsi", "Always", "Never"]
    f = facts.body("colorchoice", "colorchoice::AtomicChoice::from_choice")
    rep.fn(f["path"])
    t = facts.body("colorchoice", "colorchoice::AtomicChoice::to_choice")
    rep.fn(t["path"])
    ft, tt = ac.choice_codec(facts)
    dflt = all(tt.get(i) is None for i in range(16) if i not in ft.values())
    rep.check(sorted(ft) == sorted(order) and len(set(ft.values())) == 4, "flag", f["path"], "injective-on-4-values", f"{ft}", loc(f))
    rep.check(all(tt.get(ft[k]) == k for k in order if k in ft) and dflt, "flag", t["path"], "to_choice∘from_choice=Some", f"{tt}", loc(t))
    g = facts.body("colorchoice", "colorchoice::ColorChoice::global")
    e = ac.single_expr(g["hir"])
    rep.check(hir.is_call(e, "colorchoice::AtomicChoice::get") and hir.is_def(hir.peel(e["args"][0]), "colorchoice::USER"), "flag", g["path"], "reads-USER", "", loc(g))
    wg = facts.body("colorchoice", "colorchoice::ColorChoice::write_global")
    calls = [n for n in hir.walk(wg["hir"]) if hir.is_call(n, "colorchoice::AtomicChoice::set")]
    rep.check(len(calls) == 1 and hir.is_def(hir.peel(calls[0]["args"][0]), "colorchoice::USER") and hir.is_local(calls[0]["args"][1], "self"), "flag", wg["path"], "writes-USER", "", loc(wg))
