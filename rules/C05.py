"""C05 — rendered styles are pure SGR and round-trip through SGR interpretation (structural part)."""
import itertools

import hir
import hirpp
from core import AnchorMissing, Unrecognised, loc
from rules import anstyle_common as ac
from spec import sgr

META = {
    "explanation": (
        "Static decision on the anstyle crate: (effects) METADATA[i] = (name of the constant 1<<i, ESC[ + its SGR code + m) "
        "against the SGR specification; (ansi) the 32 cells of as_fg_str/as_bg_str are 3n/9n and 4n/10n with n the hue index; "
        "(templates) the six builder chains are read as templates ESC[{38,48,58};{5,2}; CODE .. m with component order r,g,b "
        "through resolved getters, the 16-colour underline delegates to the 256-colour palette through from_ansi, and the buffer "
        "capacity covers the longest chain; (digits) write_code's path enumeration: digits are stored in order hundreds, tens, "
        "units, a significant digit is never skipped and the units digit is always stored; (order) fmt_to and write_to emit "
        "effects, fg, bg, underline in that order each under Some with the renderer of its own slot, and agree with each other; "
        "Display dispatches on the alternate flag; the reset is emitted iff the style differs from Style::new(); (no-padding) "
        "every Display::fmt reachable from the render API writes only through Formatter::write_str or another local Display "
        "that does, and every `impl Display` return hides a local type. Does NOT decide the digit arithmetic of write_code "
        "beyond its shape."),
    "exhaustive": True,
}

MANIFEST = {
    "level": ("Sound static decision of the table, template, ordering and formatter-flag clauses of C05 for every style value: "
              "all rendered bytes come from finite tables and fixed builder chains, which are compared with the SGR "
              "specification; flag-independence is a call-graph property of the Display impls (no path to str's padding "
              "Display, Formatter::pad or write_fmt). The width/precision defect repaired in render_reset is exactly a "
              "violation of that call-graph rule."),
    "note": ("Trusted: rustc front end; spec/sgr.py; that Formatter::write_str ignores formatting flags (std). Not decided: that "
             "the decimal digits computed by write_code equal the number given (only the shape of the three digit stores)."),
    "technique": "static analysis: the colour code tables by abstract evaluation over the 16 colours vs the SGR spec, builder-chain template extraction, path enumeration of write_code, end-to-end abstract evaluation of both effect renderers (iterator included) on the empty set, all singles, all pairs and the full set (thorough: all 4096), case-split abstract evaluation of the emit order (8 presence combinations x failing position) and of the reset forms over 16 style classes, Display call-graph + opaque-type rule",
}

C = "anstyle::color::"
S = "anstyle::style::Style::"


def run(ctx):
    rep, facts = ctx.report, ctx.facts
    rep.guarded("effects", "anstyle::effect::METADATA", lambda: rule_effects(facts, rep))
    rep.guarded("ansi", C + "AnsiColor", lambda: rule_ansi(facts, rep))
    rep.guarded("templates", C, lambda: rule_templates(facts, rep))
    rep.guarded("digits", C + "DisplayBuffer::write_code", lambda: rule_digits(facts, rep))
    rep.guarded("colours", C + "Color", lambda: rule_colours(facts, rep, ctx.tier))
    rep.guarded("order", S, lambda: rule_order(facts, rep))
    rep.guarded("no-padding", "anstyle", lambda: rule_no_padding(facts, rep, "anstyle", "C05"))
    rep.guarded("io-path", "anstyle", lambda: rule_io_path(facts, rep))
    rep.guarded("effect-sets", "anstyle::effect::Effects", lambda: rule_effect_sets(facts, rep, ctx.tier))
    for r, n in (("effects", 13), ("ansi", 4), ("templates", 10), ("digits", 4), ("colours", 9), ("order", 16), ("no-padding", 20), ("io-path", 3), ("effect-sets", 2)):
        rep.floor(r, n)


def rule_effects(facts, rep):
    md = facts.body("anstyle", "anstyle::effect::METADATA")
    arr = ac.single_expr(md["hir"])
    consts = {v: n for n, v, _ in ac.effect_consts(facts) if n != "PLAIN"}
    rep.check(arr.get("k") == "array" and len(arr["es"]) == 12, "effects", md["path"], "twelve-entries", "", loc(md))
    for i, el in enumerate(arr.get("es", [])):
        f = {x["name"]: hir.lit_val(x["e"]) for x in hir.simp(el)["fields"]}
        name = consts.get(1 << i)
        want = "\x1b[" + sgr.EFFECT_RENDER.get(name, "?") + "m"
        rep.check(f.get("name") == name and f.get("escape") == want, "effects", md["path"], f"[{i}]={name}",
                  f"METADATA[{i}] must describe {name} (the constant with value 1<<{i}) and render {want!r}; found "
                  f"name={f.get('name')!r} escape={f.get('escape')!r}", loc(md, el))
        rep.count()
    # both renderers index METADATA by the bit index from index_iter and emit `.escape`
    for path, sink in (("<anstyle::effect::EffectsDisplay as core::fmt::Display>::fmt", "write_str"), ("anstyle::effect::Effects::write_to", "write_all")):
        b = facts.body("anstyle", path)
        rep.fn(b["path"])
        loops = [l for l in (hir.for_loop(n) for n in hir.walk(b["hir"]) if n.get("k") == "match" and n.get("src") == "ForLoopDesugar") if l]
        ok = len(loops) == 1 and loops[0][0].get("k") == "pbind" and bool(hir.calls_in(loops[0][1], "anstyle::effect::Effects::index_iter"))
        if ok:
            var = loops[0][0]["name"]
            R = hir.Resolver(b["hir"])
            esc = [n for n in hir.walk(loops[0][2]) if n.get("k") == "field" and n["name"] == "escape" and hir.simp(n["e"]).get("k") == "index"
                   and hir.is_def(hir.simp(n["e"])["e"], "effect::METADATA") and hir.is_local(hir.simp(n["e"])["i"], var)]
            sinks = [n for n in hir.walk(b["hir"]) if n.get("k") == "call" and hir.callee(n).split("::")[-1] in ("write_str", "write_all", "write", "write_fmt", "write_char")]
            ok = len(esc) == 1 and len(sinks) == 1 and hir.callee(sinks[0]).split("::")[-1] == sink
            # the loop body is `sink(METADATA[index].escape)?` (the escape possibly named by a temporary first): unconditional,
            # unbuffered, error propagated
            st = [x for x in hir.stmts_of(loops[0][2]) if not (hir.simp(x).get("k") == "let" and "els" not in hir.simp(x) and hir.simp(x)["pat"].get("k") == "pbind"
                                                               and not any(c.get("k") == "call" and not c.get("ctor") and hir.callee(c).split("::")[-1] != "as_bytes"
                                                                           for c in hir.walk(hir.simp(x).get("init", {}))))]
            one = len(st) == 1 and hir.try_inner(hir.simp(st[0])) is not None and hir.simp(hir.try_inner(hir.simp(st[0]))) is sinks[0] if ok else False
            if one:
                a = hir.peel(R.res(hir.peel(sinks[0]["args"][1])))
                if hir.is_call(a, "as_bytes"):
                    a = hir.peel(R.res(hir.peel(a["args"][0])))
                one = a is esc[0] or hir.simp(a) is esc[0]
            rep.check(bool(one), "effects", b["path"], "each-member's-escape-goes-straight-to-the-sink",
                      f"loop body must be exactly `{sink}(METADATA[index].escape)?` — a conditional or buffered emission can drop a member's code", loc(b))
        rep.check(ok, "effects", b["path"], "emits-METADATA[index].escape-per-member", "", loc(b))
    # RESET
    r = facts.body("anstyle", "anstyle::reset::RESET")
    rep.check(hir.lit_val(ac.single_expr(r["hir"])) == "\x1b[0m", "effects", r["path"], "is-ESC[0m", "", loc(r))
    rd = facts.body("anstyle", "<anstyle::reset::Reset as core::fmt::Display>::fmt")
    ok_, found_ = ac.reset_display_ok(facts)
    rep.check(ok_, "effects", rd["path"], "writes-RESET", f"Display for Reset writes ESC[0m verbatim, once, with no padding: {found_}", loc(rd))


def rule_effect_sets(facts, rep, tier="quick"):
    """What a set of effects renders to, by abstract evaluation of both renderers end to end (`Effects::render` and the Display of
    what it returns; `Effects::write_to`), the iterator included: for the empty set, every single effect, every pair and the full
    set (thorough tier: all 4096 sets) the text handed to the sink is the escape code of each member, in bit order, and nothing
    else — a renderer that filters the set first, skips a member in company of another, or emits a non-member shows here."""
    import abseval
    EFFT = "anstyle::effect::Effects"
    order = sgr.EFFECT_ORDER
    n = len(order)
    if tier == "thorough":
        sets = list(range(1 << n))
    else:
        sets = [0] + [1 << i for i in range(n)] + [(1 << i) | (1 << j) for i in range(n) for j in range(i + 1, n)] + [(1 << n) - 1]
    bad = {"Display": [], "io::Write": []}
    rb = facts.body("anstyle", EFFT + "::render")
    wb = facts.body("anstyle", EFFT + "::write_to")
    rep.fn(rb["path"])
    rep.fn(wb["path"])
    for v in sets:
        got = []
        sink = lambda a_: (got.append(a_[1]), ("ok", ("unit",)))[1]
        ev = abseval.Evaluator(facts, "anstyle", {"std::io::Write::write_all": sink, "core::str::<impl str>::as_bytes": lambda a_: a_[0],
                                                  "core::fmt::Formatter::<'a>::write_str": sink, "core::fmt::Write::write_str": sink})
        want = [("str", "\x1b[" + sgr.EFFECT_RENDER[order[i]] + "m") for i in range(n) if v >> i & 1]
        val = ("ctor", EFFT, ("int", v))
        for label, run_ in (("Display", lambda: _display(ev, facts, ev.call_fn("anstyle", rb["path"], [val]))),
                            ("io::Write", lambda: ev.call_fn("anstyle", wb["path"], [val, ("sym", "w")]))):
            got.clear()
            try:
                r = run_()
                if got != want or r != ("ok", ("unit",)):
                    bad[label].append(f"effects {[order[i] for i in range(n) if v >> i & 1]}: emits {[g[1] if g[0] == 'str' else g for g in got]} result {r}")
            except Unrecognised as ex:
                bad[label].append(f"not evaluable: {ex}")
    rep.count(2 * len(sets))
    for label, body in (("Display", rb), ("io::Write", wb)):
        rep.check(not bad[label], "effect-sets", body["path"], f"{label}:each-member's-code-in-bit-order",
                  f"{len(sets)} effect sets evaluated on the {label} path {bad[label][:2]}"[:500], loc(body))


def _display(ev, facts, shown, sink=("sym", "f")):
    """Display::fmt of the value `render()` returned (a newtype of the crate)."""
    ty = shown[1] if shown[0] == "ctor" and isinstance(shown[1], str) else None
    if shown[0] == "rec":
        tys = [it["path"] for it in facts.items("anstyle") if it["dk"] == "Struct" and it.get("variants")
               and {f_["name"] for f_ in it["variants"][0]["fields"]} == set(shown[1])]
        ty = tys[0] if len(tys) == 1 else None
    if ty is None:
        raise Unrecognised(f"render() returns {str(shown)[:60]}")
    path = f"<{ty} as core::fmt::Display>::fmt"
    if path not in facts.crate("anstyle")["_bodies"]:
        raise Unrecognised(f"no Display impl for {ty}")
    return ev.call_fn("anstyle", path, [shown, sink])


def rule_io_path(facts, rep):
    """The io::Write path hands bytes over with `write_all` only: `Write::write` may accept a prefix and say so in a count that
    nothing here looks at, so a single call of it anywhere in the crate's rendering code can drop the tail of an escape sequence
    (who-may-call rule over the resolved callees of the whole crate; and the buffer handed over is the whole rendered text)."""
    users, alls = [], 0
    for b in facts.bodies("anstyle"):
        if "hir" not in b or b.get("expn") or "::tests::" in b["path"] or "::test::" in b["path"]:
            continue
        for n in hir.walk(b["hir"]):
            if n.get("k") == "call" and hir.callee_decl(n) == "std::io::Write::write":
                users.append(f"{b['path']} (line {n.get('ln')})")
            if n.get("k") == "call" and hir.callee_decl(n) == "std::io::Write::write_all":
                alls += 1
    rep.check(not users, "io-path", "anstyle", "only-write_all", f"partial-write API used on the io::Write path: {users}", "")
    rep.check(alls >= 3, "io-path", "anstyle", "write_all-sites-found", f"{alls} write_all call sites (DisplayBuffer, Effects, reset)", "")
    w = facts.body("anstyle", C + "DisplayBuffer::write_to")
    rep.fn(w["path"])
    import abseval
    got = []
    try:
        ev = abseval.Evaluator(facts, "anstyle", {"std::io::Write::write_all": lambda a_: (got.append(a_[1]), ("ok", ("unit",)))[1],
                                                  C + "DisplayBuffer::as_str": lambda a_: ("text-of", a_[0]),
                                                  "core::str::<impl str>::as_bytes": lambda a_: a_[0],
                                                  "load:self.buffer": lambda a_: ("bytes-of-buffer", a_[0])})
        env = abseval.Env()
        env.update({"self": ("sym", "buf"), "self.len": ("sym", "len"), w["params"][1]["name"]: ("sym", "w")})
        try:
            r = ev.ev(w["hir"], env)
        except abseval.Return as rt:
            r = rt.v
        whole = got in ([("text-of", ("sym", "buf"))], [("bytes-of-buffer", ("rec", {"end": ("sym", "len")}))],
                        [("bytes-of-buffer", ("rec", {"start": ("int", 0), "end": ("sym", "len")}))])
        ok = whole and r == ("ok", ("unit",))
        why = f"writes {got}, returns {r}"
    except Unrecognised as ex:
        ok, why = False, f"not evaluable: {ex}"
    rep.check(ok, "io-path", w["path"], "whole-buffer-with-write_all", f"write_to is write_all of buffer[..len] (as_str), its result returned: {why}"[:300], loc(w))


def rule_ansi(facts, rep):
    for fn, code in (("as_fg_str", sgr.fg_code), ("as_bg_str", sgr.bg_code)):
        b = facts.body("anstyle", C + "AnsiColor::" + fn)
        rep.fn(b["path"])
        # the table by evaluation: the function's value for each of the sixteen colours (a match, a const table indexed by the
        # palette code, ... all evaluate the same)
        import abseval
        ev = abseval.Evaluator(facts, "anstyle", {})
        t = {}
        for n in sgr.ANSI16:
            v = ev.call_fn("anstyle", b["path"], [("enum", ac.ANSI + "::" + n)])
            t[n] = v[1] if v[0] == "str" else v
        bad = {n: t.get(n) for n in sgr.ANSI16 if t.get(n) != "\x1b[" + code(n) + "m"}
        rep.check(not bad and len(t) == 16, "ansi", b["path"], "16-cells",
                  f"every colour must render ESC[{'3n/9n' if fn == 'as_fg_str' else '4n/10n'}m with n its hue index; wrong cells: {bad}", loc(b))
        rep.count(16)
    for fn, src in (("as_fg_buffer", "as_fg_str"), ("as_bg_buffer", "as_bg_str"), ("render_fg", "as_fg_str"), ("render_bg", "as_bg_str")):
        b = facts.body("anstyle", C + "AnsiColor::" + fn)
        rep.fn(b["path"])
        calls = [n for n in hir.walk(b["hir"]) if n.get("k") == "call" and hir.callee(n).startswith(C + "AnsiColor::as_")]
        rep.check(len(calls) == 1 and hir.callee(calls[0]) == C + "AnsiColor::" + src, "ansi", b["path"], f"uses-{src}",
                  "the foreground renderer must use the foreground table (and bg the bg table)", loc(b))
    # underline: no per-colour code; must go through the 256-colour palette with the same index
    b = facts.body("anstyle", C + "AnsiColor::as_underline_buffer")
    rep.fn(b["path"])
    e = ac.single_expr(b["hir"])
    ok = hir.is_call(e, C + "Ansi256Color::as_underline_buffer")
    if ok:
        inner = hir.peel(e["args"][0])
        ok = hir.is_call(inner, f"<{C}Ansi256Color as core::convert::From<{C}AnsiColor>>::from", C + "Ansi256Color::from_ansi") and hir.is_local(inner["args"][0], "self")
    rep.check(ok, "ansi", b["path"], "underline-via-256-palette", "Ansi256Color::from(*self).as_underline_buffer() — same index of the 256-colour palette", loc(b))


def rule_templates(facts, rep):
    g = ac.getters(facts)
    rep.check(g == {C + "Ansi256Color::index": 0, C + "RgbColor::r": 0, C + "RgbColor::g": 1, C + "RgbColor::b": 2}, "templates", C, "getters",
              f"index()->.0, r()->.0, g()->.1, b()->.2: {g}", "")
    cap = facts.item("anstyle", C + "DISPLAY_BUFFER_CAPACITY", "Const")["value"]
    longest = 0
    for ty, mode, comps in (("Ansi256Color", "5", [0]), ("RgbColor", "2", [0, 1, 2])):
        for slot, fn in (("fg", "as_fg_buffer"), ("bg", "as_bg_buffer"), ("underline", "as_underline_buffer")):
            b = facts.body("anstyle", f"{C}{ty}::{fn}")
            rep.fn(b["path"])
            chain = ac.builder_chain(ac.single_expr(b["hir"]), g)
            want = [f"\x1b[{sgr.SLOT_EXT[slot]};{mode};"]
            for i, c in enumerate(comps):
                if i:
                    want.append(";")
                want.append(("code", c))
            want.append("m")
            rep.check(chain == want, "templates", b["path"], f"{slot}:{mode}",
                      f"expected template {want}, found {chain} — slot prefix {sgr.SLOT_EXT[slot]}, mode {mode}, components in order, "
                      f"';' separators, final 'm'", loc(b))
            n = sum(len(x) if isinstance(x, str) else 3 for x in chain)
            longest = max(longest, n)
            rep.count()
    rep.check(longest <= cap, "templates", C + "DISPLAY_BUFFER_CAPACITY", "capacity-covers-longest-chain",
              f"longest chain needs {longest} bytes (3 per code), capacity is {cap}", "")
    # DisplayBuffer::write_str copies the part at offset len and advances len by part.len(); as_str exposes buffer[0..len] — by
    # value, from every fill level the capacity allows (a loop, copy_from_slice, a helper: all evaluate the same)
    import abseval
    w = facts.body("anstyle", C + "DisplayBuffer::write_str")
    a = facts.body("anstyle", C + "DisplayBuffer::as_str")
    rep.fn(w["path"])
    rep.fn(a["path"])
    fill = [("int", 65 + i) for i in range(cap)]
    bad_w, bad_a = [], []
    for k in range(cap + 1):
        ev = abseval.Evaluator(facts, "anstyle", {})
        ev.concrete_strings = True
        buf = ("rec", {"buffer": ("array",) + tuple(fill), "len": ("int", k)})
        try:
            shown = ev.call_fn("anstyle", a["path"], [buf])
            if shown != ("str", "".join(chr(65 + i) for i in range(k))):
                bad_a.append(f"len {k}: as_str gives {shown}")
            for part in ("", "\x1b[", "m", "9;"):
                if k + len(part) > cap:
                    continue
                r = ev.call_fn("anstyle", w["path"], [buf, ("str", part)])
                want = tuple(fill[:k]) + tuple(("int", ord(c)) for c in part) + tuple(fill[k + len(part):])
                if not (r[0] == "rec" and r[1].get("buffer") == ("array",) + want and r[1].get("len") == ("int", k + len(part))):
                    bad_w.append(f"len {k}, part {part!r}: {str(r)[:160]}")
                rep.count()
        except Unrecognised as ex:
            bad_w.append(f"len {k}: not evaluable: {ex}")
    rep.check(not bad_w, "templates", w["path"], "appends-at-len", f"{bad_w[:2]}"[:300], loc(w))
    rep.check(not bad_a, "templates", a["path"], "exposes-[0..len]", f"{bad_a[:2]}"[:300], loc(a))


def _interpret_colour(text):
    """One SGR sequence that sets one colour, read by the ECMA-48 / xterm rules: (slot, colour) or None."""
    import re
    m = re.fullmatch("\x1b\\[([0-9;]*)m", text)
    if not m:
        return None
    ps = [int(x) if x else 0 for x in m.group(1).split(";")]
    if len(ps) == 1:
        c = sgr.colour_code(ps[0])
        return (c[0], ("ansi", sgr.ANSI16.index(c[1]))) if c else None
    slot = {v: k for k, v in sgr.SLOT_EXT.items()}.get(ps[0])
    if slot and ps[1] == 5 and len(ps) == 3 and ps[2] <= 255:
        return (slot, ("ansi256", ps[2]))
    if slot and ps[1] == 2 and len(ps) == 5 and all(x <= 255 for x in ps[2:]):
        return (slot, ("rgb",) + tuple(ps[2:]))
    return None


def rule_colours(facts, rep, tier="quick"):
    """Color::render_fg/bg/underline (Display path) and Color::write_fg/bg/underline_to (io::Write path), by value: each is
    evaluated on every 16-colour and 256-colour value and a boundary-rich sample of RGB values; what it hands to the formatter /
    the writer must be one SGR sequence that, read by the SGR rules, sets that slot to that colour (a 16-colour underline comes
    back as the same index of the 256-colour palette), and both paths must produce the same bytes.  How the text gets there — a
    buffer, a static string written directly, a helper per colour kind — is the code's own business."""
    import abseval
    steps = (0, 1, 9, 10, 11, 99, 100, 101, 199, 200, 249, 250, 255) if tier == "thorough" else (0, 1, 9, 10, 99, 100, 199, 200, 255)
    colours = [(("ansi", i), ("ctor", C + "Color::Ansi", ("enum", ac.ANSI + "::" + n))) for i, n in enumerate(sgr.ANSI16)]
    colours += [(("ansi256", i), ("ctor", C + "Color::Ansi256", ("ctor", C + "Ansi256Color", ("int", i)))) for i in range(256)]
    colours += [(("rgb", r, g, b), ("ctor", C + "Color::Rgb", ("ctor", C + "RgbColor", ("int", r), ("int", g), ("int", b))))
                for r, g, b in itertools.product(steps, repeat=3)]

    def as_text(v):
        if v[0] == "str":
            return v[1]
        if v[0] == "array" and all(x[0] == "int" for x in v[1:]):
            return bytes(x[1] for x in v[1:]).decode("latin-1")
        raise Unrecognised(f"written value {str(v)[:60]}")
    n = 0
    for slot in ("fg", "bg", "underline"):
        rf, wf = facts.body("anstyle", f"{C}Color::render_{slot}"), facts.body("anstyle", f"{C}Color::write_{slot}_to")
        rep.fn(rf["path"])
        rep.fn(wf["path"])
        bad = {"render": [], "write": [], "agree": []}
        for model, val in colours:
            want = (slot, ("ansi256", model[1]) if slot == "underline" and model[0] == "ansi" else model)
            outs = {}
            for kind, body in (("render", rf), ("write", wf)):
                got = []
                sink = lambda a_, got=got: (got.append(a_[1]), ("ok", ("unit",)))[1]
                ev = abseval.Evaluator(facts, "anstyle", {"std::io::Write::write_all": sink, "core::fmt::Formatter::<'a>::write_str": sink,
                                                          "core::fmt::Write::write_str": sink})
                ev.concrete_strings = True
                try:
                    if kind == "render":
                        r = _display(ev, facts, ev.call_fn("anstyle", body["path"], [val]))
                    else:
                        r = ev.call_fn("anstyle", body["path"], [val, ("sym", "w")])
                    text = "".join(as_text(g) for g in got)
                except Unrecognised as ex:
                    bad[kind].append(f"{model}: not evaluable: {ex}")
                    continue
                n += 1
                outs[kind] = text
                if r != ("ok", ("unit",)) or _interpret_colour(text) != want:
                    bad[kind].append(f"{model}: emits {text!r} (returns {str(r)[:40]}), which reads as {_interpret_colour(text)}, not {want}")
            if len(outs) == 2 and outs["render"] != outs["write"]:
                bad["agree"].append(f"{model}: Display {outs['render']!r}, io::Write {outs['write']!r}")
        rep.check(not bad["render"], "colours", rf["path"], f"{slot}:reads-back", f"{len(colours)} colours; {bad['render'][:2]}"[:400], loc(rf))
        rep.check(not bad["write"], "colours", wf["path"], f"{slot}:reads-back", f"{len(colours)} colours; {bad['write'][:2]}"[:400], loc(wf))
        rep.check(not bad["agree"], "colours", wf["path"], f"{slot}:same-bytes-as-Display", f"{bad['agree'][:2]}"[:400], loc(wf))
    rep.count(n)



def rule_digits(facts, rep):
    b = facts.body("anstyle", C + "DisplayBuffer::write_code")
    rep.fn(b["path"])
    lets = {s["pat"]["name"]: s["init"] for s in hir.stmts_of(b["hir"]) if s.get("k") == "let" and s["pat"].get("k") == "pbind"}

    def digit_of(e):
        """(code / 10^k) % 10 → k"""
        e = hir.simp(e)
        if e.get("k") == "bin" and e["op"] == "Rem" and hir.lit_val(e["r"]) == 10:
            l = hir.simp(e["l"])
            if hir.is_local(l, "code") and l.get("k") == "local":
                return 0
            if l.get("k") == "bin" and l["op"] == "Div" and hir.is_local(l["l"], "code"):
                return {10: 1, 100: 2}.get(hir.lit_val(l["r"]))
        return None

    dig = {n: digit_of(v) for n, v in lets.items() if digit_of(v) is not None}

    def dg(e):
        """digit index of an expression: a local bound to (code / 10^k) % 10, or that expression written in place"""
        n = hir.local_name(e)
        if n in dig and hir.simp(e).get("k") == "local":
            return dig[n]
        return digit_of(e)
    seen_digits = {dg(r["r"]) for n in hir.walk(b["hir"]) if n.get("k") == "assign" for r in [hir.simp(n["r"])]
                   if r.get("k") == "bin" and r["op"] == "Add" and hir.lit_val(r["l"]) == 48}
    rep.check(seen_digits == {0, 1, 2}, "digits", b["path"], "three-decimal-digits", f"{sorted(x for x in seen_digits if x is not None)}", loc(b))
    flags = {n for n, v in lets.items() if isinstance(hir.lit_val(v), bool)}
    paths = hir.enumerate_paths(b["hir"])
    n_ok = 0
    for p in paths:
        # constant-propagate boolean locals, collect stores in order
        env = {n: hir.lit_val(lets[n]) for n in flags}
        stored = []
        atoms = {}
        feasible = True
        for t in p.trace:
            if t[0] == "let" and t[1].get("k") == "pbind" and t[1]["name"] in flags:
                env[t[1]["name"]] = hir.lit_val(t[2])
            elif t[0] == "assign":
                n = t[1]
                if hir.simp(n["l"]).get("k") == "local" and hir.simp(n["l"])["name"] in flags:
                    env[hir.simp(n["l"])["name"]] = hir.lit_val(n["r"])
                elif hir.simp(n["l"]).get("k") == "index" and hir.place_str(hir.simp(n["l"])["e"]) == "self.buffer":
                    r = hir.simp(n["r"])
                    d = None
                    if r.get("k") == "bin" and r["op"] == "Add" and hir.lit_val(r["l"]) == 48:
                        d = dg(r["r"])
                    at_len = hir.place_str(hir.simp(n["l"])["i"]) == "self.len"
                    stored.append((d, at_len))
                elif n.get("k") == "assignop" and hir.place_str(n["l"]) == "self.len":
                    if not (n["op"] == "AddAssign" and hir.lit_val(n["r"]) == 1 and stored and stored[-1] is not None):
                        feasible = None
                    stored.append(None)
            elif t[0] == "cond":
                def av(node):
                    node = hir.simp(node)
                    if node.get("k") == "local" and node["name"] in env:
                        return env[node["name"]]
                    if node.get("k") == "bin" and node["op"] == "Ne" and hir.lit_val(node["r"]) == 0 and dg(node["l"]) is not None:
                        key = dg(node["l"])
                        return atoms.get(key, "free")
                    return None
                # decide with free atoms: enumerate
                free = sorted({dg(hir.simp(a)["l"]) for a in hir.bool_atoms(t[1]) if hir.simp(a).get("k") == "bin"
                               and dg(hir.simp(a)["l"]) is not None and dg(hir.simp(a)["l"]) not in atoms})
                sat = []
                for vals in itertools.product((False, True), repeat=len(free)):
                    trial = dict(atoms)
                    trial.update(dict(zip(free, vals)))

                    def av2(node, trial=trial):
                        node = hir.simp(node)
                        if node.get("k") == "local" and node["name"] in env:
                            return env[node["name"]]
                        if node.get("k") == "bin" and node["op"] == "Ne" and hir.lit_val(node["r"]) == 0 and dg(node["l"]) is not None:
                            return trial[dg(node["l"])]
                        return None
                    if hir.bool_eval(t[1], av2) == t[2]:
                        sat.append(trial)
                if not sat:
                    feasible = False
                    break
                if len(sat) == 1:
                    atoms = sat[0]
                # several satisfying assignments: keep atoms undetermined (conservative)
        if feasible is False:
            continue
        seq = [s for s in stored if s is not None]
        digits = [d for d, _ in seq]
        # every store is buffer[len] = b'0' + digit followed by len += 1
        pairs_ok = feasible is not None and all(at for _, at in seq) and len(stored) == 2 * len(seq) and all(stored[2 * i + 1] is None for i in range(len(seq)))
        order_ok = digits == sorted(digits, reverse=True) and len(set(digits)) == len(digits) and None not in digits
        units_ok = bool(digits) and digits[-1] == 0
        # no significant digit skipped: a non-zero digit is stored, and once a higher digit is stored all lower ones are
        contiguous = digits == list(range(digits[0], -1, -1)) if digits and None not in digits else False
        nonzero_ok = all((k in digits) for k, v in atoms.items() if v is True)
        n_ok += 1
        sig = ",".join(f"c{3 - k}{'!=0' if v else '==0'}" for k, v in sorted(atoms.items(), reverse=True)) or "any"
        rep.check(pairs_ok and order_ok and units_ok and contiguous and nonzero_ok, "digits", b["path"], f"path[{sig}]",
                  f"digits stored (2=hundreds,1=tens,0=units): {digits}; required: descending, contiguous down to the units digit, "
                  f"every non-zero digit stored, each as buffer[len] = b'0' + digit; len += 1", loc(b))
    rep.check(hir.is_local(hir.stmts_of(b["hir"])[-1], "self"), "digits", b["path"], "returns-self", "", loc(b))


def seq_of_emits(body, sink_names):
    """Top-level statement sequence → list of (guard_field or None, callee, arg place)."""
    out = []
    for s in hir.stmts_of(body):
        s = hir.simp(s)
        t = hir.try_inner(s)
        guard = None
        bound = None
        if s.get("k") == "if" and "e" not in s:
            c = hir.simp(s["c"])
            if c.get("k") == "letexpr" and hir.last_seg(hir.pat_path(c["pat"])) == "Some":
                guard = hir.place_str(c["init"])
                p = c["pat"]["pats"][0] if c["pat"].get("k") == "pts" else {}
                bound = p.get("name")
                inner = hir.stmts_of(s["t"])
                if len(inner) != 1:
                    raise Unrecognised("guarded emit with more than one statement")
                t = hir.try_inner(inner[0])
                if t is None:
                    raise Unrecognised("guarded emit without `?`")
            else:
                raise Unrecognised("if without `let Some(..)` in a render sequence")
        if t is None:
            if s.get("ctor", "").endswith("Result::Ok"):
                out.append(("end", None, None, None))
                continue
            raise Unrecognised(f"statement in render sequence: {hirpp.expr(s)[:60]}")
        t = hir.simp(t)
        out.append((guard, hir.callee(t), [hirpp.expr(a) for a in t["args"]], bound))
    return out


def rule_order(facts, rep):
    SD = "<anstyle::style::Style as core::fmt::Display>::fmt"
    d = facts.body("anstyle", SD)
    w = facts.body("anstyle", S + "write_to")
    r_ = facts.body("anstyle", S + "render")
    rep.fn(d["path"])
    rep.fn(w["path"])
    rep.fn(r_["path"])
    # by abstract evaluation: for each of the 8 presence combinations of the three colours, and each place where an emit may fail,
    # the emits performed (in order, with their arguments) and the result — `if let .. { x? }`, `match .. { Some => x, None => Ok }?`,
    # a tail expression instead of `?; Ok(())` all evaluate alike; the crate's own helpers between the entry point and the emits
    # (a private fmt_to, the StyleDisplay wrapper) are evaluated through, wherever the statements live
    import abseval
    C_ = "anstyle::color::Color::"
    DISP = "<anstyle::color::DisplayBuffer as core::fmt::Display>::fmt"
    EDISP = "<anstyle::effect::EffectsDisplay as core::fmt::Display>::fmt"
    ALT = "core::fmt::Formatter::<'a>::alternate"
    slots = (("fg", "render_fg", "write_fg_to"), ("bg", "render_bg", "write_bg_to"), ("underline", "render_underline", "write_underline_to"))

    def sequences(invoke, sink, alts):
        """{(presence tuple, index of the failing emit or None, `#` flag): (emits, result)}"""
        out = {}
        for present, alt in itertools.product(itertools.product((False, True), repeat=3), alts):
            def run(choices, present=present, alt=alt):
                emits = []

                def emit(name):
                    def f_(a_):
                        emits.append((name, list(a_)))
                        return ("ok", ("unit",)) if ev.oracle(("emit-ok", len(emits) - 1)) else ("err", ("sym", f"error-{len(emits) - 1}"))
                    return f_
                atoms = {"anstyle::effect::Effects::render": lambda a_: ("rendered-effects", a_[0]), EDISP: emit("effects"),
                         "anstyle::effect::Effects::write_to": emit("effects"), DISP: emit("colour"), ALT: ("bool", alt)}
                for slot, rn, wn in slots:
                    atoms[C_ + rn] = (lambda a_, rn=rn: (rn, a_[0]))
                    atoms[C_ + wn] = emit(wn)
                ev = abseval.Evaluator(facts, "anstyle", atoms)
                ev.choices = choices
                style = ("rec", {"fg": ("some", ("sym", "FG")) if present[0] else ("none",),
                                 "bg": ("some", ("sym", "BG")) if present[1] else ("none",),
                                 "underline": ("some", ("sym", "UL")) if present[2] else ("none",),
                                 "effects": ("sym", "EFF")})
                return emits, invoke(ev, style, ("sym", sink))
            for choices, (emits, r) in abseval.explore(run):
                failing = [k[1] for k, v in choices.items() if k[0] == "emit-ok" and not v]
                out[(present, failing[0] if failing else None, alt)] = (emits, r)
        return out

    def expected(present, sink, display):
        seq = [("effects", [("rendered-effects", ("sym", "EFF")), ("sym", sink)] if display else [("sym", "EFF"), ("sym", sink)])]
        for (slot, rn, wn), on, sym_ in zip(slots, present, ("FG", "BG", "UL")):
            if on:
                seq.append(("colour", [(rn, ("sym", sym_)), ("sym", sink)]) if display else (wn, [("sym", sym_), ("sym", sink)]))
        return seq
    n_cases = {}
    # (`{}` of the style; `{}` and `{:#}` of what render() returns — the flag selects the reset form only on the style itself)
    paths = ((d, "f", True, "Display", (False,), lambda ev, st, sk: ev.call_fn("anstyle", SD, [st, sk])),
             (r_, "f", True, "render()", (False, True), lambda ev, st, sk: _display(ev, facts, ev.call_fn("anstyle", S + "render", [st]), sk)),
             (w, "write", False, "io::Write", (False,), lambda ev, st, sk: ev.call_fn("anstyle", S + "write_to", [st, sk])))
    for body, sink, display, label, alts, invoke in paths:
        bad = {}
        try:
            got = sequences(invoke, sink, alts)
        except Unrecognised as ex:
            got, bad = {}, {"*": f"not evaluable: {ex}"}
        n_cases[label] = len(got)
        for present in itertools.product((False, True), repeat=3):
            want = expected(present, sink, display)
            cases = [(None, want, ("ok", ("unit",)))] + [(i, want[:i + 1], ("err", ("sym", f"error-{i}"))) for i in range(len(want))]
            for (failing, seq, res), alt in itertools.product(cases, alts):
                g = got.get((present, failing, alt))
                if g is None or g[0] != seq or g[1] != res:
                    step = min(len(seq) - 1, next((i for i, (x, y) in enumerate(zip(g[0] if g else [], seq)) if x != y), len(seq) - 1))
                    nm = (["effects"] + [s_[0] for s_, on in zip(slots, present) if on])[step] if seq else "Ok"
                    if failing is None and g is not None and g[0] == seq:
                        nm = "Ok"
                    bad.setdefault(nm, f"colours present {present}, `#` flag {alt}, failing emit {failing}: emits {g[0] if g else None} result {g[1] if g else None}; expected {seq} {res}")
            extra = [k for k in got if k[0] == present and k[1] is not None and k[1] >= len(want)]
            if extra:
                bad.setdefault("Ok", f"colours present {present}: more emits than effects + the present colours")
        names = ["effects", "fg", "bg", "underline", "Ok"]
        for i, nm in enumerate(names):
            rep.check(nm not in bad and "*" not in bad, "order", body["path"], f"{i}:{nm}",
                      f"{label} path: effects first, then fg, bg, underline when present, each error returned at once, Ok(()) at the end "
                      f"({n_cases[label]} evaluated cases) {bad.get(nm, bad.get('*', ''))}"[:400], loc(body))
    rep.count(sum(n_cases.values()))
    rep.check(all(v >= 20 for v in n_cases.values()), "order", S, "fmt_to-and-write_to-agree", f"all paths emit effects, fg, bg, underline and nothing else ({n_cases})", "")
    # Display for Style with `#`: the reset form
    ok = True
    try:
        ev = abseval.Evaluator(facts, "anstyle", {ALT: ("bool", True), S + "render_reset": lambda a_: ("reset-of", a_[0]),
                                                  "<anstyle::color::NullFormatter as core::fmt::Display>::fmt": lambda a_: ("shown",) + tuple(a_),
                                                  "*": lambda cal, a_, e_: ("shown",) + tuple(a_) if cal.endswith("core::fmt::Display>::fmt") else None})
        r = ev.call_fn("anstyle", SD, [("sym", "self"), ("sym", "f")])
        ok = r == ("shown", ("reset-of", ("sym", "self")), ("sym", "f"))
    except Unrecognised:
        ok = False
    rep.check(ok, "order", d["path"], "alternate→reset", "", loc(d))
    # reset: RESET iff the style is not plain — 16 cases (each colour present or not, effects empty or not) by abstract
    # evaluation, so `self != Style::new()`, `!self.is_plain()`, early returns and temporaries are all the same function
    import abseval
    RESET = hir.lit_val(ac.single_expr(facts.body("anstyle", "anstyle::reset::RESET")["hir"]))
    consts = {"anstyle::reset::RESET": RESET}
    for it in facts.items("anstyle"):
        if it["dk"] == "AssocConst" and it["path"].startswith(ac.EFF + "::") and isinstance(it.get("value"), int):
            consts[it["path"]] = ("ctor", "anstyle::effect::Effects", ("int", it["value"]))
    for fn in ("render_reset", "write_reset_to"):
        b = facts.body("anstyle", S + fn)
        rep.fn(b["path"])
        bad = []
        for fgv, bgv, ulv, eff in itertools.product((("none",), ("some", ("sym", "c"))), (("none",), ("some", ("sym", "c"))), (("none",), ("some", ("sym", "c"))), (0, 1)):
            writes = []
            ev = abseval.Evaluator(facts, "anstyle", {"std::io::Write::write_all": lambda a, writes=writes: (writes.append(a[1]), ("sym", "write-result"))[1],
                                                      "core::str::<impl str>::as_bytes": lambda a: a[0]})
            ev.consts = consts
            env = abseval.Env()
            env[b["params"][0]["name"]] = ("rec", {"fg": fgv, "bg": bgv, "underline": ulv, "effects": ("ctor", "anstyle::effect::Effects", ("int", eff))})
            if len(b["params"]) > 1:
                env[b["params"][1]["name"]] = ("sym", "writer")
            try:
                try:
                    r = ev.ev(b["hir"], env)
                except abseval.Return as rt:
                    r = rt.v
            except Unrecognised as ex:
                raise Unrecognised(f"Style::{fn}: {ex}")
            plain = fgv == ("none",) and bgv == ("none",) and ulv == ("none",) and eff == 0
            if fn == "render_reset":
                # what the returned value displays (its representation — tuple struct, named field, constructor — is its own business)
                shown = _displayed(facts, r)
                if shown != ["" if plain else RESET] and not (plain and shown == []):
                    bad.append(f"{'plain' if plain else 'styled'}: displays {shown} ({str(r)[:60]})")
            else:
                want_w = [] if plain else [("str", RESET)]
                want_r = ("ok", ("unit",)) if plain else ("sym", "write-result")
                if writes != want_w or r != want_r:
                    bad.append(f"{'plain' if plain else 'styled'}: writes {writes}, returns {r}")
        rep.check(not bad, "order", b["path"], "RESET-iff-not-plain", f"the reset form is RESET when self != Style::new() and empty otherwise: {bad[:2]}", loc(b))


def _displayed(facts, v):
    """The pieces a value of one of anstyle's local Display types hands to the formatter (Display::fmt evaluated on it)."""
    import abseval
    cands = []
    if v[0] == "ctor" and isinstance(v[1], str):
        cands = [v[1]]
    elif v[0] == "rec":
        for it in facts.items("anstyle"):
            if it["dk"] == "Struct" and it.get("variants") and {f_["name"] for f_ in it["variants"][0]["fields"]} == set(v[1]):
                cands.append(it["path"])
    outs = []
    for ty in cands:
        path = f"<{ty} as core::fmt::Display>::fmt"
        if path not in facts.crate("anstyle")["_bodies"]:
            continue
        got = []
        sink = lambda a_: (got.append(a_[1]), ("ok", ("unit",)))[1]
        ev = abseval.Evaluator(facts, "anstyle", {"core::fmt::Formatter::<'a>::write_str": sink, "core::fmt::Write::write_str": sink})
        try:
            r = ev.call_fn("anstyle", path, [v, ("sym", "f")])
        except Unrecognised:
            continue
        if r == ("ok", ("unit",)) and all(g[0] == "str" for g in got):
            outs.append([g[1] for g in got])
    if len(outs) != 1:
        raise Unrecognised(f"no single local Display type for the value {str(v)[:80]}")
    return outs[0]


def rule_no_padding(facts, rep, crate, prop):
    """Every Display::fmt of the crate writes only through Formatter::write_str / alternate, or delegates to a local
    Display (or a local helper taking the formatter) that does; `impl Display` returns hide local types."""
    impls = [i for i in facts.items(crate) if i["dk"] == "Impl" and i.get("trait") == "core::fmt::Display"]
    local_display = {i["self_ty"] for i in impls}
    fmt_paths = {}
    for i in impls:
        for a in i["assoc"]:
            if a["name"] == "fmt":
                fmt_paths[a["path"]] = i["self_ty"]
    ALLOWED_FORMATTER = {"core::fmt::Formatter::<'a>::write_str", "core::fmt::Formatter::<'a>::alternate"}
    helpers = set()

    def check_body(b, label):
        fparam = [p["name"] for p in b["params"] if p.get("k") == "pbind" and "core::fmt::Formatter" in p.get("ty", "")]
        if len(fparam) != 1:
            raise Unrecognised(f"{b['path']}: formatter parameter not found")
        fp = fparam[0]
        n_uses = 0
        for n in hir.walk(b["hir"]):
            if n.get("k") != "call":
                continue
            uses_f = any(hir.is_local(a, fp) for a in n["args"])
            if not uses_f:
                continue
            n_uses += 1
            cal = hir.callee(n)
            where = loc(b, n)
            if cal in ALLOWED_FORMATTER:
                rep.ok("no-padding", b["path"], f"{label}→{cal.split('::')[-1]}", "flag-independent Formatter method", where)
            elif cal in fmt_paths:
                rep.ok("no-padding", b["path"], f"{label}→Display({fmt_paths[cal].split('::')[-1]})", "delegates to a local Display checked by this rule", where)
            elif cal.startswith(crate + "::") and any("Formatter" in p.get("ty", "") for p in (facts.body(crate, cal)["params"] if cal in facts.crate(crate)["_bodies"] else [])):
                helpers.add(cal)
                rep.ok("no-padding", b["path"], f"{label}→{cal.split('::')[-1]}", "local helper taking the formatter (checked)", where)
            else:
                rep.bad("no-padding", b["path"], f"{label}→{short_callee(cal)}",
                        f"the formatter is handed to `{cal}`, which honours width/fill/alignment/precision (or is not known not to): "
                        f"format!(\"{{:10}}\") / \"{{:.2}}\" would pad or truncate the escape sequence", where)
        return n_uses

    for path, ty in sorted(fmt_paths.items()):
        b = facts.body(crate, path)
        rep.fn(path)
        check_body(b, "fmt")
    done = set()
    while helpers - done:
        h = sorted(helpers - done)[0]
        done.add(h)
        b = facts.body(crate, h)
        rep.fn(h)
        check_body(b, "helper")
    for it in facts.items(crate):
        if it["dk"] == "OpaqueTy":
            hidden = it["hidden"]
            try:
                psig = facts.body(crate, it["parent"]).get("sig", "")
            except AnchorMissing:
                hb = [h for h in facts.crate(crate).get("helper_bodies", []) if h["path"] == it["parent"]]
                psig = hb[0].get("sig", "") if hb else "Display"
            if "Display" not in psig.split("->")[-1]:
                continue          # `impl Iterator` and the like: not a renderer
            rep.check(hidden in local_display, "no-padding", it["parent"], "impl-Display-hides-a-local-type",
                      f"`{it['parent']}` returns `impl Display` hiding `{hidden}`: only the crate's own Display types ignore "
                      f"formatter flags (a `&str` would be padded/truncated by width and precision)", f"{it['file']}:{it['ln']}")


def short_callee(c):
    return c.replace("core::fmt::", "").replace(" ", "_")[:60]
