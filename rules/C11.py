"""C11 — the git colour parser accepts exactly git's syntax and denotes the right style (structural part)."""
import hir
import hirpp
from core import AnchorMissing, Unrecognised, loc
from rules import anstyle_common as ac
from spec import sgr

META = {
    "explanation": (
        "anstyle_git::parse is evaluated abstractly (lib/abseval.py, concrete strings, anstyle's functions followed into their "
        "bodies) on a closed vocabulary of about 430 descriptions — the words of the specification, every string literal the "
        "crate's non-test code contains, each with no/no- prefixes and in other letter cases, colour pairs and triples, unknown "
        "words in every position, whitespace kinds, non-ASCII '#' words — and every result (style, or error variant with its "
        "payload) is compared with a model of the documented syntax written in the rule: keyword table, colour table, slot order "
        "(first colour fg, second bg, third ExtraColor), UnknownWord with the original word, a later negation wins. The hex "
        "branch is additionally read structurally: byte-offset slicing only under a length guard and an ASCII-hex-digit guard, "
        "radix 16, (r, g, b) in order. Does NOT decide the print-then-parse round trip; words outside the vocabulary are covered "
        "by the literal-closure argument (a word the code treats specially must appear in it as a literal or be built from one), "
        "not by enumeration."),
    "exhaustive": True,
}

MANIFEST = {
    "level": ("Sound static decision of the vocabulary tables, slot order, error wiring and the two guards of the hex branch for "
              "every input string: the parser is a finite keyword table plus a two-slot counter, so the table comparison covers "
              "all attribute/colour words, and the guard rules are dominance facts on every path to the byte slicing."),
    "note": ("Trusted: rustc front end; std's split_whitespace/to_lowercase/from_str_radix/is_ascii_hexdigit; git's documented "
             "vocabulary in this file. Not decided: round trip; sign handling of decimal words ('+5' is accepted by u8::from_str; "
             "real git accepts it too). Observation (not claimed as a finding): git expands '#rgb' to '#rrggbb' by doubling each "
             "digit, this parser reads each digit as a value 0-15."),
    "technique": "static analysis: abstract evaluation of parse (concrete-string layer of lib/abseval.py) on a closed vocabulary — the specification's words, every string literal of the crate, their no-/case variants, colour pairs and triples — compared with a model of the documented syntax; polynomial/value-flow rules for the hex slices, guard-dominance rules",
}

G = "anstyle_git::"
ATTRS = {"bold": "BOLD", "dim": "DIMMED", "ul": "UNDERLINE", "blink": "BLINK", "reverse": "INVERT", "italic": "ITALIC", "strike": "STRIKETHROUGH"}
NAMES = {"black": "Black", "red": "Red", "green": "Green", "yellow": "Yellow", "blue": "Blue", "magenta": "Magenta", "cyan": "Cyan", "white": "White"}


def run(ctx):
    rep, facts = ctx.report, ctx.facts
    rep.guarded("keywords", G + "parse", lambda: rule_keywords(facts, rep))
    rep.guarded("colours", G + "parse_color", lambda: rule_colours(facts, rep))
    rep.guarded("slots", G + "parse", lambda: rule_slots(facts, rep))
    rep.guarded("hex-guard", G + "parse_color", lambda: rule_hex(facts, rep))
    for r, n in (("keywords", 24), ("colours", 12), ("slots", 8), ("hex-guard", 8)):
        rep.floor(r, n)


def str_pats(p):
    out = []
    for alt in hir.pat_alternatives(p):
        if alt.get("k") == "lit" and alt.get("t") == "str":
            out.append(alt["v"])
        else:
            return None
    return out


def main_match(b):
    loops = [l for l in (hir.for_loop(n) for n in hir.walk(b["hir"]) if n.get("k") == "match" and n.get("src") == "ForLoopDesugar") if l]
    if len(loops) != 1:
        raise AnchorMissing("parse: one for loop expected")
    pat, it, body = loops[0]
    ms = [n for n in hir.walk(body) if n.get("k") == "match" and n.get("src") == "Normal" and str_pats(n["arms"][0]["pat"]) is not None]
    if not ms:
        raise AnchorMissing("parse: keyword match not found")
    return pat, it, body, ms[0]


# ----------------------------------------------------------------------------------------------------------------------
# The vocabulary is decided by evaluating `parse` (lib/abseval.py with concrete strings; anstyle's functions followed into their
# bodies) on every word of a closed vocabulary and comparing with a model of the documented syntax: the words of the
# specification, EVERY string literal the crate's non-test code contains (so an extra alias or a misspelt keyword is itself a
# test input), each with `no` / `no-` prefixes and in other letter cases.  A match on literals, a const table searched with
# `find`, a prefix-stripping recogniser all evaluate to the same function on that vocabulary.

def model(text, bit):
    """The documented meaning of a git colour description: ("ok", fg, bg, effects) or ("err", kind, word)."""
    fg = bg = None
    n = 0
    eff = 0
    for word in text.split():
        w = word.lower()
        neg = None
        for pre in ("no-", "no"):
            if w.startswith(pre) and w[len(pre):] in ATTRS:
                neg = w[len(pre):]
                break
        if w in ATTRS:
            eff |= bit[ATTRS[w]]
            continue
        if neg is not None:
            eff &= ~bit[ATTRS[neg]]
            continue
        col = "?"
        if w in ("normal", "-1"):
            col = None
        elif w in NAMES:
            col = ("ansi", NAMES[w])
        elif w.startswith("#"):
            h = w[1:]
            if len(h) in (3, 6) and all(c in "0123456789abcdef" for c in h):
                t = len(h) // 3
                col = ("rgb", int(h[:t], 16), int(h[t:2 * t], 16), int(h[2 * t:], 16))
        elif w.isascii() and w.isdigit() and int(w) <= 255:
            col = ("idx", int(w))
        if col == "?":
            return ("err", "UnknownWord", word)
        if n == 0:
            fg = col
        elif n == 1:
            bg = col
        else:
            return ("err", "ExtraColor", word)
        n += 1
    return ("ok", fg, bg, eff)


def observed(facts, text):
    import abseval
    ev = abseval.Evaluator(facts, "anstyle_git", {}, inline_crates=("anstyle",))
    ev.concrete_strings = True
    r = ev.call_fn("anstyle_git", G + "parse", [("str", text)])

    def colour(v):
        if v == ("none",):
            return None
        c = v[1]
        if c[0] == "ctor" and c[1].endswith("Color::Ansi"):
            return ("ansi", c[2][1].split("::")[-1])
        if c[0] == "ctor" and c[1].endswith("Color::Ansi256"):
            return ("idx", c[2][2][1])
        if c[0] == "ctor" and c[1].endswith("Color::Rgb"):
            return ("rgb",) + tuple(x[1] for x in c[2][2:])
        raise Unrecognised(f"colour value {str(c)[:60]}")
    if r[0] == "ok" and r[1][0] == "rec":
        st = r[1][1]
        if st.get("underline") != ("none",):
            raise Unrecognised("an underline colour is set")
        return ("ok", colour(st["fg"]), colour(st["bg"]), st["effects"][2][1])
    if r[0] == "err" and r[1][0] == "ctor" and r[1][2][0] == "rec":
        payload = r[1][2][1]
        if payload.get("style") != ("str", text):
            return ("err", r[1][1].split("::")[-1] + "<style not the input>", payload.get("word", ("str", "?"))[1])
        return ("err", r[1][1].split("::")[-1], payload.get("word", ("str", "?"))[1])
    raise Unrecognised(f"parse evaluates to {str(r)[:80]}")


def code_literals(facts):
    out = set()
    for b in facts.bodies("anstyle_git"):
        if "hir" not in b or "::test" in b["path"] or b.get("expn") or "Display" in b["path"] or "Debug" in b["path"]:
            continue
        for n in hir.walk(b.get("hir_raw", b["hir"])):
            if n.get("k") == "lit" and n.get("t") == "str" and isinstance(n.get("v"), str):
                out.add(n["v"])
    return out


def vocabulary_cases(facts):
    lits = {w for w in code_literals(facts) if w and not any(c.isspace() for c in w) and "+" not in w}
    base = set(ATTRS) | set(NAMES) | {"normal", "-1", "0", "7", "255", "256", "300", "-2", "00", "#fff", "#12aBcd", "#12", "#1234", "#ggg", "#12345g",
                                     "#\u00e91", "#\u20ac", "purple", "brightred", "underline", "nonormal", "no", "no-", "nono-bold", "1e1", "0x10", "bold,", "b"} | lits
    words = set()
    for w in base:
        for v in (w, "no" + w, "no-" + w, w.upper(), w.capitalize()):
            words.add(v)
    cases = {w for w in words}
    cases |= {"", "   ", "\tbold\n  ul\r", "bold\u00a0ul", "bold\u2003red"}
    allattrs = " ".join(ATTRS)
    for w in ATTRS:
        cases |= {f"{allattrs} no{w}", f"{allattrs} no-{w}", f"no{w} {w}", f"{w} no{w} {w}", f"NO-{w.upper()} {allattrs}"}
    cols = list(NAMES)[:3] + ["normal", "-1", "7", "#abc", "#a1b2c3"]
    for x in cols:
        for y in cols:
            cases.add(f"{x} {y}")
            cases.add(f"bold {x} ul {y} noul")
    for x in ("red", "normal", "9", "#fff"):
        cases |= {f"red blue {x}", f"normal -1 {x} bold", f"red {x} blue green"}
    cases |= {"red purple", "bold strike nonsense red", "red green bold extra"}
    return sorted(cases), lits


def rule_keywords(facts, rep):
    b = facts.body("anstyle_git", G + "parse")
    rep.fn(b["path"])
    bit = {n_: v for n_, v, _ in ac.effect_consts(facts)}
    cases, lits = vocabulary_cases(facts)
    bad = {}
    bad_texts = set()
    n_ok = 0
    for text in cases:
        want = model(text, bit)
        try:
            got = observed(facts, text)
        except Unrecognised as ex:
            got = ("not-evaluable", str(ex)[:80])
        if got == want:
            n_ok += 1
            continue
        words = text.lower().split()
        key = next((w for w in words if any(w in (a_, "no" + a_, "no-" + a_) for a_ in ATTRS)), None)
        if key is None:
            key = next((w for w in words if w in NAMES or w in ("normal", "-1")), words[0] if words else "")
        bad.setdefault(key, f"parse({text!r}) = {got}, documented meaning {want}")
        bad_texts.add(text)
    rep.count(len(cases))
    for w, e in ATTRS.items():
        for form in (w, "no" + w, "no-" + w):
            rep.check(form not in bad, "keywords", b["path"], f"'{form}'",
                      f"git: '{form}' {'sets' if form == w else 'clears'} {e}; {bad.get(form, '')}", loc(b))
    others = {k: v for k, v in bad.items() if not any(k in (a_, "no" + a_, "no-" + a_) for a_ in ATTRS) and k not in NAMES and k not in ("normal", "-1")}
    rep.check(not others, "keywords", b["path"], "other-words-go-to-colour-parsing",
              f"every other word of the vocabulary ({len(cases)} descriptions evaluated, {len(lits)} literals taken from the code) is a colour or an "
              f"error naming it: {list(others.values())[:2]}", loc(b))
    ws = {"", "   ", "\tbold\n  ul\r", "bold\u00a0ul", "bold\u2003red"}
    rep.check(ws <= set(cases) and not (ws & bad_texts), "keywords", b["path"], "words-by-split_whitespace",
              f"any whitespace separates words (tab, CR/LF, NBSP, EM SPACE, leading/trailing blanks): {sorted(ws & bad_texts)}", loc(b))
    cased = {t for t in bad_texts if t != t.lower()}
    rep.check(not cased, "keywords", b["path"], "matched-lower-cased",
              f"upper-case and capitalised forms of every word mean the same ({n_ok} of {len(cases)} descriptions agree with the model)", loc(b))
    rule_keywords.bad = bad


def rule_colours(facts, rep):
    b = facts.body("anstyle_git", G + "parse_color")
    rep.fn(b["path"])
    bad = getattr(rule_keywords, "bad", None)
    if bad is None:
        raise Unrecognised("the vocabulary was not evaluated")
    want = dict(NAMES)
    want["normal"] = None
    want["-1"] = None
    for w in sorted(want):
        rep.check(w not in bad, "colours", b["path"], f"'{w}'", f"git: '{w}' is {want[w] or 'no colour (the default)'}; {bad.get(w, '')}", loc(b))
        rep.count()
    nums = {k: v for k, v in bad.items() if k and (k[0].isdigit() or k[0] in "-#")}
    rep.check(not nums, "colours", b["path"], "0-255→palette-index", f"a decimal word 0..=255 is a 256-colour index, anything above an unknown word {list(nums.values())[:2]}", loc(b))
    rep.ok("colours", b["path"], "Ok(color)", "colour results are compared in the evaluated descriptions", loc(b))


def rule_slots(facts, rep):
    """The colour slots, the error wiring and the attribute set semantics, read off the same evaluated descriptions (colour pairs and
    triples, colours mixed with attributes, unknown words before / between / after colours) compared with the model."""
    b = facts.body("anstyle_git", G + "parse")
    bit = {n_: v for n_, v, _ in ac.effect_consts(facts)}
    groups = {
        "first-colour→fg": ["red", "7", "#abc", "normal", "bold red ul"],
        "second-colour→bg": ["red blue", "normal red", "-1 7", "red #a1b2c3", "bold red ul green noul", "7 normal"],
        "third-colour→ExtraColor{original-word}": ["red blue green", "red blue Normal", "normal -1 9 bold", "red #FFF blue green", "red blue #fFf"],
        "unknown→UnknownWord{original-word}": ["purple", "red Purple", "red blue foo", "bold strike Nonsense red", "256", "red 300 blue", "#12345g", "no", "bold, red"],
        "colour-iff-parse_color-Ok": ["red", "nored", "no-red", "#12", "normal", "nonormal", "-2"],
        "starts-from-empty-style-and-no-colours": ["", "   ", "nobold", "no-ul noitalic"],
        "effects-ORed-once-after-the-loop": ["bold ul", "bold nobold", "nobold bold", "bold red nobold ul", "ul no-ul ul no-ul", "bold dim nobold", "dim bold nodim",
                                             "bold italic strike reverse blink dim ul nostrike"],
        "counter-incremented-only-on-accepted-colours": ["bold red ul blue", "nobold red no-ul blue italic", "red bold blue ul green", "bold ul italic red"],
    }
    for key, texts in groups.items():
        bad = []
        for text in texts:
            want = model(text, bit)
            try:
                got = observed(facts, text)
            except Unrecognised as ex:
                got = ("not-evaluable", str(ex)[:80])
            if got != want:
                bad.append(f"parse({text!r}) = {got}, documented meaning {want}")
            rep.count()
        rep.check(not bad, "slots", b["path"], key, f"{len(texts)} descriptions evaluated against the model {bad[:2]}", loc(b))


def error_payload(stmt, b, word):
    stmt = hir.simp(stmt)
    if stmt.get("k") != "ret":
        return None
    e = hir.simp(stmt.get("e", {}))
    if not e.get("ctor", "").endswith("Result::Err"):
        return None
    s = hir.simp(e["args"][0])
    if s.get("k") != "struct":
        return None
    f = {x["name"]: hir.simp(x["e"]) for x in s["fields"]}
    style_ok = hir.is_call(f.get("style", {}), "to_owned") and hir.is_local(f["style"]["args"][0], b["params"][0]["name"])
    word_ok = hir.is_call(f.get("word", {}), "to_owned") and hir.is_local(f["word"]["args"][0], word)
    return (hir.last_seg(s["path"].get("path")), style_ok, word_ok)


def rule_hex(facts, rep):
    b = facts.body("anstyle_git", G + "parse_color")
    word = b["params"][0]["name"]
    # hex branch: `if let Some(hex) = word.strip_prefix('#')`
    hexvar = None
    for n in hir.walk(b["hir"]):
        if n.get("k") == "letexpr" and hir.is_call(hir.simp(n["init"]), "strip_prefix") and hir.is_local(hir.simp(n["init"])["args"][0], word):
            if hir.lit_val(hir.simp(n["init"])["args"][1]) == ord("#"):
                hexvar = n["pat"]["pats"][0].get("name")
        # `match word.strip_prefix('#') { Some(hex) => .., None => .. }`
        if n.get("k") == "match" and n.get("src") not in ("TryDesugar", "ForLoopDesugar") and hir.is_call(hir.simp(n["scrut"]), "strip_prefix") \
                and hir.is_local(hir.simp(n["scrut"])["args"][0], word) and hir.lit_val(hir.simp(n["scrut"])["args"][1]) == ord("#"):
            for a in n["arms"]:
                if hir.last_seg(hir.pat_path(a["pat"]) or "") == "Some" and "guard" not in a:
                    subs = a["pat"].get("pats") or [f_["p"] for f_ in a["pat"].get("fields", [])]
                    if len(subs) == 1 and subs[0].get("k") == "pbind":
                        hexvar = subs[0].get("name")
    rep.check(hexvar is not None, "hex-guard", b["path"], "hex-branch", "word.strip_prefix('#')", loc(b))
    if hexvar is None:
        return

    def is_len_guard(f):
        # (l != 3 && l != 6) == false   where l = hex.len()
        if f.get("kind") != "if":
            return False
        return False

    def len_guard_frames(frames):
        ne = {}
        for f in frames:
            if f.get("kind") == "if" and not f["val"]:
                c = hir.simp(f["expr"])
                parts = hir.split_and(c)
                vals = set()
                for p in parts:
                    p = hir.simp(p)
                    if p.get("k") == "bin" and p["op"] == "Ne" and hir.lit_val(p["r"]) is not None and hir.simp(p["l"]).get("k") == "local":
                        vals.add(hir.lit_val(p["r"]))
                if vals:
                    return vals
        return None

    def hexdigit_guard(frames):
        for f in frames:
            if f.get("kind") == "if":
                c = hir.simp(f["expr"])
                if hir.is_call(c, "Iterator>::all", "Iterator::all") and f["val"]:
                    src = hir.simp(c["args"][0])
                    clo = hir.simp(c["args"][1])
                    if hir.is_call(src, "bytes") and hir.is_local(src["args"][0], hexvar) and clo.get("k") == "closure":
                        body = hir.simp(clo["body"])
                        if hir.is_call(body, "core::num::<impl u8>::is_ascii_hexdigit") and hir.is_local(body["args"][0], clo["params"][0].get("name")):
                            return True
                    if hir.is_call(src, "chars") and hir.is_local(src["args"][0], hexvar) and clo.get("k") == "closure":
                        body = hir.simp(clo["body"])
                        if hir.is_call(body, "is_ascii_hexdigit") and hir.is_local(body["args"][0], clo["params"][0].get("name")):
                            return True
        return False

    slices = hir.visit_with_conds(b["hir"], lambda n: n.get("k") == "index" and hir.is_local(n["e"], hexvar))
    if not slices:
        # no slicing of the word at all (the digits are split numerically): nothing for the slice guards to protect — the branch is
        # decided by value instead, on a vocabulary of hex words around every boundary (whether its arithmetic can overflow is C04's)
        return _hex_by_value(facts, rep, b)
    rep.check(len(slices) == 3, "hex-guard", b["path"], "three-slices", f"{len(slices)} byte-range slices of the hex word", loc(b))
    for i, (n, frames) in enumerate(slices):
        lens = len_guard_frames(frames)
        rep.check(lens == {3, 6}, "hex-guard", b["path"], f"slice{i}:length-is-3-or-6",
                  "the byte-range slice is reached only when hex.len() is 3 or 6", loc(b, n))
        rep.check(hexdigit_guard(frames), "hex-guard", b["path"], f"slice{i}:ascii-hex-digits-only",
                  "byte-offset slicing of a caller-supplied &str and from_str_radix(.., 16) need the word to consist of ASCII hex "
                  "digits: otherwise a multi-byte character panics the slice ('#é1') and a sign is accepted ('#+f+f+f')", loc(b, n))
    # radix 16, slices [0..l], [l..2l], [2l..3l], colour from (r, g, b)
    calls = [n for n in hir.walk(b["hir"]) if hir.is_call(n, "core::num::<impl u8>::from_str_radix")]
    rep.check(len(calls) == 3 and all(hir.lit_val(c["args"][1]) == 16 for c in calls), "hex-guard", b["path"], "radix-16", "", loc(b))

    import poly
    lets = {}
    for n in hir.walk(b["hir"]):
        if n.get("k") == "let" and n["pat"].get("k") == "pbind" and "init" in n:
            lets[(n["pat"]["name"], n["pat"].get("id"))] = n["init"]

    def third(e):
        """hex.len() / 3 (directly or through temporaries) is the unit `t`"""
        e = hir.simp(e)
        if e.get("k") == "bin" and e["op"] == "Div" and hir.lit_val(e["r"]) == 3:
            l = hir.simp(e["l"])
            if l.get("k") == "local" and (l["name"], l.get("id")) in lets:
                l = hir.simp(lets[(l["name"], l.get("id"))])
            if hir.is_call(l, "core::str::<impl str>::len") and hir.is_local(l["args"][0], hexvar):
                return "t"
        return None

    def rng(c):
        ix = hir.peel(c["args"][0])
        r = hir.simp(ix.get("i", {}))
        f = {x["name"]: x["e"] for x in r.get("fields", [])}
        if ix.get("k") != "index" or not hir.is_local(ix["e"], hexvar) or "start" not in f or "end" not in f:
            raise Unrecognised(f"from_str_radix argument `{hirpp.expr(c['args'][0])[:60]}` is not a start..end slice of the hex word")
        return poly.poly(f["start"], resolve=third, lets=lets), poly.poly(f["end"], resolve=third, lets=lets)

    got = [rng(c) for c in calls] if len(calls) == 3 else []
    T = poly.sym("t")
    want = [(poly.const(0), T), (T, poly.mul(poly.const(2), T)), (poly.mul(poly.const(2), T), poly.mul(poly.const(3), T))]
    order = [want.index(g) if g in want else None for g in got]
    rep.check(sorted(x for x in order if x is not None) == [0, 1, 2], "hex-guard", b["path"], "consecutive-thirds",
              f"the three slices must be [0..t], [t..2t], [2t..3t] with t = hex.len()/3; found {[(poly.show(a), poly.show(z)) for a, z in got]}", loc(b))
    # the colour is built from the values parsed out of the first, second and third slice, in that order
    src = hir.binding_sources(b["hir"])
    tup = [n for n in hir.walk(b["hir"]) if hir.is_call(n, "<anstyle::color::Color as core::convert::From<(u8, u8, u8)>>::from")]
    comps = []
    if len(tup) == 1 and hir.simp(tup[0]["args"][0]).get("k") == "tuple":
        comps = hir.simp(tup[0]["args"][0])["es"]
    else:
        rgb = [n for n in hir.walk(b["hir"]) if n.get("k") == "call" and n.get("ctor", "").endswith("RgbColor")]
        if len(rgb) == 1:
            comps = rgb[0]["args"]
    flow = []
    for x in comps:
        x = hir.simp(x)
        o = src.get(x.get("id")) if x.get("k") == "local" else x
        idx = [i for i, c in enumerate(calls) if o is c]
        flow.append(order[idx[0]] if idx and len(order) == 3 else None)
    ok = flow == [0, 1, 2]
    rep.check(ok, "hex-guard", b["path"], "colour-from-(r,g,b)-in-order",
              f"Color::from((r, g, b)) must take the values parsed from the 1st, 2nd and 3rd third of the word; found slice order {flow}", loc(b))


def _hex_by_value(facts, rep, b):
    import itertools

    def want(word):
        h = word[1:]
        n = len(h.encode())
        if n in (3, 6) and all(c in "0123456789abcdefABCDEF" for c in h):
            t = n // 3
            return ("ok", ("rgb",) + tuple(int(h[i * t:(i + 1) * t], 16) for i in range(3)), None, 0)
        return ("err", "UnknownWord", word)
    digits = "09aF"
    classes = {
        "three-digit-values": ["#" + "".join(p) for p in itertools.product(digits, repeat=3)],
        "six-digit-values": ["#" + "".join(p) for p in itertools.product(("00", "0f", "A0", "fF"), repeat=3)] + ["#123456", "#abcdef", "#ABCDEF", "#fedcba"],
        "other-lengths-rejected": ["#", "#1", "#12", "#1234", "#12345", "#1234567", "#12345678", "#" + "f" * 9, "#" + "0" * 12],
        "non-hex-digit-rejected": ["#" + "".join("g" if i == j else "1" for i in range(n)) for n in (3, 6) for j in range(n)] + ["#xyz", "#12345z", "#_12", "#1.2"],
        "sign-rejected": ["#+12", "#-12", "#+f+f+f", "#1+2", "#+12345", "#12345+", "#-fffff"],
        "multi-byte-rejected": ["#\u00e91", "#1\u00e9", "#\u00e9\u00e91", "#\u00e9\u00e9\u00e9", "#12\u20ac", "#\u20ac\u20ac", "#a\u00e9b\u00e9"],
        "case-insensitive-digits": ["#abc", "#ABC", "#aBc", "#AbCdEf", "#abcDEF"],
    }
    rep.ok("hex-guard", b["path"], "hex-branch", "word.strip_prefix('#'), split numerically (no slices)")
    for key, words in classes.items():
        bad = []
        for w in words:
            try:
                got = observed(facts, w)
            except Unrecognised as ex:
                got = ("not-evaluable", str(ex)[:80])
            if got != want(w):
                bad.append(f"parse({w!r}) = {got}, expected {want(w)}")
        rep.count(len(words))
        rep.check(not bad, "hex-guard", b["path"], f"by-value:{key}", f"{len(words)} words evaluated {bad[:2]}"[:400], loc(b))
