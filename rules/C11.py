"""C11 — the git colour parser accepts exactly git's syntax and denotes the right style (structural part)."""
import hir
import hirpp
from core import AnchorMissing, Unrecognised, loc
from rules import anstyle_common as ac
from spec import sgr

META = {
    "explanation": (
        "Static reading of anstyle_git::{parse, parse_color}: the attribute keyword table (7 attributes x {x -> insert, nox and "
        "no-x -> remove} of the same Effects constant: 21 literals) and the colour-name table (8 names, normal and -1 -> None) "
        "against git's vocabulary; words come from split_whitespace and are lower-cased before matching; the first colour goes "
        "to fg_color, the second to bg_color, a third returns ExtraColor and a non-colour UnknownWord, both carrying the "
        "original word; effects are accumulated sequentially on one local and OR-ed into the style once after the loop; the hex "
        "branch slices by byte offsets only under a length guard and an ASCII-hex-digit guard, parses with radix 16 and builds "
        "the colour from (r, g, b) in order; decimal words go through u8::from_str. Does NOT decide the print-then-parse round "
        "trip nor u8::from_str's accepted syntax."),
    "exhaustive": True,
}

MANIFEST = {
    "level": ("Sound static decision of the vocabulary tables, slot order, error wiring and the two guards of the hex branch for "
              "every input string: the parser is a finite keyword table plus a two-slot counter, so the table comparison covers "
              "all attribute/colour words, and the guard rules are dominance facts on every path to the byte slicing."),
    "note": ("Trusted: rustc front end; std's split_whitespace/to_lowercase/from_str_radix/is_ascii_hexdigit; git's documented "
             "vocabulary in this file. Not decided: round trip; sign handling of decimal words ('+5' is accepted by u8::from_str; "
             "real git accepts it too). Observation (not claimed as a finding): git expands '#rgb' to '#rrggbb' by doubling each "
             "digit, this parser reads each digit as a value 0-15."),
    "technique": "static analysis: string-literal match-table extraction vs git vocabulary, case-wise path feasibility of the colour slots (parse_color Ok/Err x colours seen), polynomial/value-flow rules for the hex slices, guard-dominance rules",
}

G = "anstyle_git::"
ATTRS = {"bold": "BOLD", "dim": "DIMMED", "ul": "UNDERLINE", "blink": "BLINK", "reverse": "INVERT", "italic": "ITALIC", "strike": "STRIKETHROUGH"}
NAMES = {"black": "Black", "red": "Red", "green": "Green", "yellow": "Yellow", "blue": "Blue", "magenta": "Magenta", "cyan": "Cyan", "white": "White"}


def run(ctx):
    rep, facts = ctx.report, ctx.facts
    rep.guarded("keywords", G + "parse", lambda: rule_keywords(facts, rep))
    rep.guarded("colours", G + "parse_color", lambda: rule_colours(facts, rep))
    rep.guarded("slots", G + "parse", lambda: rule_slots(facts, rep))
    rep.guarded("hex-guard", G + "parse_color", lambda: rule_hex(facts, rep))
    for r, n in (("keywords", 24), ("colours", 12), ("slots", 8), ("hex-guard", 8)):
        rep.floor(r, n)


def str_pats(p):
    out = []
    for alt in hir.pat_alternatives(p):
        if alt.get("k") == "lit" and alt.get("t") == "str":
            out.append(alt["v"])
        else:
            return None
    return out


def main_match(b):
    loops = [l for l in (hir.for_loop(n) for n in hir.walk(b["hir"]) if n.get("k") == "match" and n.get("src") == "ForLoopDesugar") if l]
    if len(loops) != 1:
        raise AnchorMissing("parse: one for loop expected")
    pat, it, body = loops[0]
    ms = [n for n in hir.walk(body) if n.get("k") == "match" and n.get("src") == "Normal" and str_pats(n["arms"][0]["pat"]) is not None]
    if not ms:
        raise AnchorMissing("parse: keyword match not found")
    return pat, it, body, ms[0]


def rule_keywords(facts, rep):
    b = facts.body("anstyle_git", G + "parse")
    rep.fn(b["path"])
    pat, it, body, m = main_match(b)
    # words: split_whitespace(s), lower-cased
    rep.check(hir.is_call(hir.simp(it), "split_whitespace") and hir.is_local(hir.simp(it)["args"][0], b["params"][0]["name"]), "keywords", b["path"],
              "words-by-split_whitespace", "any whitespace separates words", loc(b))
    # the scrutinee is word.to_lowercase() viewed as a &str (as_ref / as_str / deref), held in a temporary or not
    R = hir.Resolver(b["hir"])
    sc = hir.peel(R.res(hir.peel(m["scrut"])))
    inner = sc
    for _ in range(3):
        if inner.get("k") == "call" and inner.get("args") and hir.callee(inner).split("::")[-1] in ("as_ref", "as_str", "deref", "borrow"):
            inner = hir.peel(R.res(hir.peel(inner["args"][0])))
    rep.check(hir.is_call(inner, "to_lowercase") and hir.is_local(inner["args"][0], pat.get("name")), "keywords", b["path"], "matched-lower-cased",
              "keywords and colour names are matched on word.to_lowercase() (any letter case)", loc(b, m))
    got = {}
    default = None
    for a in m["arms"]:
        lits = str_pats(a["pat"])
        if lits is None:
            default = a
            continue
        st = hir.stmts_of(a["body"])
        op = eff = None
        if len(st) == 1 and hir.simp(st[0]).get("k") == "assign" and hir.is_local(hir.simp(st[0])["l"], "effects"):
            r = hir.simp(hir.simp(st[0])["r"])
            if hir.is_call(r, "anstyle::effect::Effects::insert", "anstyle::effect::Effects::remove") and hir.is_local(r["args"][0], "effects"):
                op = hir.callee(r).split("::")[-1]
                eff = hir.last_seg(hir.def_path(r["args"][1]))
        for l in lits:
            got[l] = (op, eff)
    want = {}
    for w, e in ATTRS.items():
        want[w] = ("insert", e)
        want["no" + w] = ("remove", e)
        want["no-" + w] = ("remove", e)
    for w in sorted(set(want) | set(got)):
        rep.check(got.get(w) == want.get(w), "keywords", b["path"], f"'{w}'",
                  f"git: '{w}' means {want.get(w)}; the parser does {got.get(w)}", loc(b, m))
        rep.count()
    rep.check(default is not None and default["pat"].get("k") == "pbind", "keywords", b["path"], "other-words-go-to-colour-parsing", "", loc(b, m))


def rule_colours(facts, rep):
    b = facts.body("anstyle_git", G + "parse_color")
    rep.fn(b["path"])
    ms = [n for n in hir.walk(b["hir"]) if n.get("k") == "match" and hir.is_local(n["scrut"], b["params"][0]["name"])]
    if len(ms) != 1:
        raise AnchorMissing("parse_color: name match")
    got = {}
    for a in ms[0]["arms"]:
        lits = str_pats(a["pat"])
        if lits is None:
            continue
        v = hir.simp(a["body"])
        val = "?"
        if hir.is_def(v, "Option::None"):
            val = None
        elif v.get("ctor", "").endswith("Option::Some"):
            x = hir.simp(v["args"][0])
            if hir.is_call(x, "Into<U>>::into") and x.get("ty") == "anstyle::color::Color":
                val = hir.last_seg(hir.def_path(x["args"][0]))
        for l in lits:
            got[l] = val
    want = dict(NAMES)
    want["normal"] = None
    want["-1"] = None
    for w in sorted(set(want) | set(got)):
        rep.check(w in got and got.get(w) == want.get(w, "?"), "colours", b["path"], f"'{w}'", f"git: '{w}' is {want.get(w, 'not a colour name')}; parser: {got.get(w, 'missing')}", loc(b, ms[0]))
        rep.count()
    # decimal: word.parse::<u8>() → Color::from(n)  (256-colour index)
    dec = [n for n in hir.walk(b["hir"]) if hir.is_call(n, "<anstyle::color::Color as core::convert::From<u8>>::from")]
    ok = False
    if len(dec) == 1:
        frames = [fr for (x, fr) in hir.visit_with_conds(b["hir"], lambda x: x is dec[0])][0]
        for f in frames:
            if f.get("kind") == "if" and f["val"] and hir.simp(f["expr"]).get("k") == "letexpr":
                init = hir.simp(hir.simp(f["expr"])["init"])
                if hir.is_call(init, "core::str::<impl str>::parse") and hir.is_local(init["args"][0], b["params"][0]["name"]) and "u8" in init.get("ty", ""):
                    ok = True
    rep.check(ok, "colours", b["path"], "0-255→palette-index", "a decimal word is a 256-colour index via u8::from_str", loc(b))
    tail = hir.simp(hir.stmts_of(b["hir"])[-1])
    rep.check(tail.get("ctor", "").endswith("Result::Ok") and hir.is_local(tail["args"][0], "color"), "colours", b["path"], "Ok(color)", "", loc(b))


def rule_slots(facts, rep):
    b = facts.body("anstyle_git", G + "parse")
    pat, it, body, m = main_match(b)
    word = pat.get("name")
    default = [a for a in m["arms"] if str_pats(a["pat"]) is None][0]
    w = default["pat"]["name"]
    # the fallback arm, decided case by case (parse_color Ok / Err  x  number of colours seen so far 0 / 1 / 2) on the one
    # structural path feasible for the case — `if let .. else`, `match` with an early return, an increment shared by two arms ...
    paths = hir.enumerate_paths(default["body"])
    O = hir.Origins(default["body"])
    pcs = [n for n in hir.walk(default["body"]) if hir.is_call(n, G + "parse_color")]
    ok_pc = len(pcs) == 1 and hir.is_local(pcs[0]["args"][0], w)
    rep.check(ok_pc, "slots", b["path"], "colour-iff-parse_color-Ok", "", loc(b, default))
    slots = {}
    un = None
    for res in ("Ok", "Err"):
        for n_seen in (0, 1, 2):
            def val(e, res=res, n_seen=n_seen):
                e = hir.simp(e)
                if ok_pc and e is pcs[0]:
                    return ("enum", "core::result::Result::" + res)
                if e.get("k") == "local" and e["name"] == "num_colors":
                    return ("int", n_seen)
                if e.get("k") == "lit" and e.get("t") == "int":
                    return ("int", e["v"])
                return None
            feas = [p for p in paths if hir.path_feasible(p, val)]
            if len(feas) != 1:
                slots[(res, n_seen)] = f"{len(feas)} paths"
                continue
            p = feas[0]
            setters, incs, ret = [], 0, None
            for t in p.trace:
                if t[0] == "assign":
                    n = t[1]
                    if n.get("k") == "assign" and hir.is_local(n["l"], "style"):
                        r = hir.simp(n["r"])
                        if r.get("k") == "call" and hir.is_local(r["args"][0], "style"):
                            src, proj = O.of(r["args"][1])
                            setters.append((hir.callee(r).split("::")[-1], ok_pc and src is pcs[0] and proj == ("Ok",)))
                        else:
                            setters.append(("?", False))
                    elif n.get("k") == "assignop" and n["op"] == "AddAssign" and hir.is_local(n["l"], "num_colors") and hir.lit_val(n["r"]) == 1:
                        incs += 1
                    else:
                        setters.append(("store:" + hirpp.expr(n)[:30], False))
            if p.exit == "ret":
                ret = error_payload({"k": "ret", "e": p.value}, b, word) if p.value is not None else None
            slots[(res, n_seen)] = (setters, incs, p.exit, ret)
    fg = slots.get(("Ok", 0))
    bg = slots.get(("Ok", 1))
    ex = slots.get(("Ok", 2))
    rep.check(isinstance(fg, tuple) and fg[0] == [("fg_color", True)] and fg[1] == 1 and fg[2] != "ret", "slots", b["path"], "first-colour→fg", f"{fg}", loc(b, default))
    rep.check(isinstance(bg, tuple) and bg[0] == [("bg_color", True)] and bg[1] == 1 and bg[2] != "ret", "slots", b["path"], "second-colour→bg", f"{bg}", loc(b, default))
    rep.check(isinstance(ex, tuple) and ex[2] == "ret" and ex[3] == ("ExtraColor", True, True) and not ex[0], "slots", b["path"], "third-colour→ExtraColor{original-word}",
              f"(variant, style=s, word=original word): {ex}", loc(b, default))
    uns = [slots.get(("Err", k)) for k in (0, 1, 2)]
    rep.check(all(isinstance(u, tuple) and u[2] == "ret" and u[3] == ("UnknownWord", True, True) and not u[0] and not u[1] for u in uns), "slots", b["path"],
              "non-colour→UnknownWord{original-word}", f"{uns[0]}", loc(b, default))
    lets = {s["pat"]["name"]: s["init"] for s in hir.stmts_of(b["hir"]) if s.get("k") == "let" and s["pat"].get("k") == "pbind"}
    rep.check(hir.lit_val(lets.get("num_colors")) == 0 and hir.is_call(hir.simp(lets.get("effects", {})), "anstyle::effect::Effects::new")
              and hir.is_call(hir.simp(lets.get("style", {})), "anstyle::style::Style::new"), "slots", b["path"], "starts-empty", "", loc(b))
    top = hir.stmts_of(b["hir"])
    # after the loop: the result is Ok(style | effects) — as `style |= effects; Ok(style)` or in one expression
    last = hir.simp(top[-1]) if top else {}
    ok = False
    if last.get("ctor", "").endswith("Result::Ok"):
        v = hir.simp(last["args"][0])
        prev = hir.simp(top[-2]) if len(top) >= 2 else {}
        if hir.is_local(v, "style") and v.get("k") == "local":
            ok = prev.get("k") == "assignop" and prev["op"] == "BitOrAssign" and hir.is_local(prev["l"], "style") and hir.is_local(prev["r"], "effects")
        elif (v.get("k") == "bin" and v.get("op") == "BitOr") or hir.is_call(v, "bitor"):
            l, r = (v["l"], v["r"]) if v.get("k") == "bin" else (v["args"][0], v["args"][1])
            ok = hir.is_local(l, "style") and hir.is_local(r, "effects")
        # no other merge of the effects into the style inside the loop
        merges = [n for n in hir.walk(b["hir"]) if n.get("k") == "assignop" and hir.is_local(n["l"], "style") and n is not prev]
        ok = ok and not merges
    rep.check(ok, "slots", b["path"], "effects-ORed-once-after-the-loop", "attributes are a set built sequentially (a later negation wins), merged at the end", loc(b))
    # num_colors / effects only written where seen above
    inside = {id(n) for n in hir.walk(default["body"])}
    writers = [n for n in hir.walk(b["hir"]) if n.get("k") in ("assign", "assignop") and hir.local_name(n["l"]) in ("num_colors",) and id(n) not in inside]
    rep.check(not writers, "slots", b["path"], "counter-incremented-only-on-accepted-colours",
              f"{len(writers)} writes of num_colors outside the colour arm (inside it: exactly one increment per accepted colour, decided above)", loc(b))


def error_payload(stmt, b, word):
    stmt = hir.simp(stmt)
    if stmt.get("k") != "ret":
        return None
    e = hir.simp(stmt.get("e", {}))
    if not e.get("ctor", "").endswith("Result::Err"):
        return None
    s = hir.simp(e["args"][0])
    if s.get("k") != "struct":
        return None
    f = {x["name"]: hir.simp(x["e"]) for x in s["fields"]}
    style_ok = hir.is_call(f.get("style", {}), "to_owned") and hir.is_local(f["style"]["args"][0], b["params"][0]["name"])
    word_ok = hir.is_call(f.get("word", {}), "to_owned") and hir.is_local(f["word"]["args"][0], word)
    return (hir.last_seg(s["path"].get("path")), style_ok, word_ok)


def rule_hex(facts, rep):
    b = facts.body("anstyle_git", G + "parse_color")
    word = b["params"][0]["name"]
    # hex branch: `if let Some(hex) = word.strip_prefix('#')`
    hexvar = None
    for n in hir.walk(b["hir"]):
        if n.get("k") == "letexpr" and hir.is_call(hir.simp(n["init"]), "strip_prefix") and hir.is_local(hir.simp(n["init"])["args"][0], word):
            if hir.lit_val(hir.simp(n["init"])["args"][1]) == ord("#"):
                hexvar = n["pat"]["pats"][0].get("name")
    rep.check(hexvar is not None, "hex-guard", b["path"], "hex-branch", "word.strip_prefix('#')", loc(b))
    if hexvar is None:
        return

    def is_len_guard(f):
        # (l != 3 && l != 6) == false   where l = hex.len()
        if f.get("kind") != "if":
            return False
        return False

    def len_guard_frames(frames):
        ne = {}
        for f in frames:
            if f.get("kind") == "if" and not f["val"]:
                c = hir.simp(f["expr"])
                parts = hir.split_and(c)
                vals = set()
                for p in parts:
                    p = hir.simp(p)
                    if p.get("k") == "bin" and p["op"] == "Ne" and hir.lit_val(p["r"]) is not None and hir.simp(p["l"]).get("k") == "local":
                        vals.add(hir.lit_val(p["r"]))
                if vals:
                    return vals
        return None

    def hexdigit_guard(frames):
        for f in frames:
            if f.get("kind") == "if":
                c = hir.simp(f["expr"])
                if hir.is_call(c, "Iterator>::all", "Iterator::all") and f["val"]:
                    src = hir.simp(c["args"][0])
                    clo = hir.simp(c["args"][1])
                    if hir.is_call(src, "bytes") and hir.is_local(src["args"][0], hexvar) and clo.get("k") == "closure":
                        body = hir.simp(clo["body"])
                        if hir.is_call(body, "core::num::<impl u8>::is_ascii_hexdigit") and hir.is_local(body["args"][0], clo["params"][0].get("name")):
                            return True
                    if hir.is_call(src, "chars") and hir.is_local(src["args"][0], hexvar) and clo.get("k") == "closure":
                        body = hir.simp(clo["body"])
                        if hir.is_call(body, "is_ascii_hexdigit") and hir.is_local(body["args"][0], clo["params"][0].get("name")):
                            return True
        return False

    slices = hir.visit_with_conds(b["hir"], lambda n: n.get("k") == "index" and hir.is_local(n["e"], hexvar))
    rep.check(len(slices) == 3, "hex-guard", b["path"], "three-slices", f"{len(slices)} byte-range slices of the hex word", loc(b))
    for i, (n, frames) in enumerate(slices):
        lens = len_guard_frames(frames)
        rep.check(lens == {3, 6}, "hex-guard", b["path"], f"slice{i}:length-is-3-or-6",
                  "the byte-range slice is reached only when hex.len() is 3 or 6", loc(b, n))
        rep.check(hexdigit_guard(frames), "hex-guard", b["path"], f"slice{i}:ascii-hex-digits-only",
                  "byte-offset slicing of a caller-supplied &str and from_str_radix(.., 16) need the word to consist of ASCII hex "
                  "digits: otherwise a multi-byte character panics the slice ('#é1') and a sign is accepted ('#+f+f+f')", loc(b, n))
    # radix 16, slices [0..l], [l..2l], [2l..3l], colour from (r, g, b)
    calls = [n for n in hir.walk(b["hir"]) if hir.is_call(n, "core::num::<impl u8>::from_str_radix")]
    rep.check(len(calls) == 3 and all(hir.lit_val(c["args"][1]) == 16 for c in calls), "hex-guard", b["path"], "radix-16", "", loc(b))

    import poly
    lets = {}
    for n in hir.walk(b["hir"]):
        if n.get("k") == "let" and n["pat"].get("k") == "pbind" and "init" in n:
            lets[(n["pat"]["name"], n["pat"].get("id"))] = n["init"]

    def third(e):
        """hex.len() / 3 (directly or through temporaries) is the unit `t`"""
        e = hir.simp(e)
        if e.get("k") == "bin" and e["op"] == "Div" and hir.lit_val(e["r"]) == 3:
            l = hir.simp(e["l"])
            if l.get("k") == "local" and (l["name"], l.get("id")) in lets:
                l = hir.simp(lets[(l["name"], l.get("id"))])
            if hir.is_call(l, "core::str::<impl str>::len") and hir.is_local(l["args"][0], hexvar):
                return "t"
        return None

    def rng(c):
        ix = hir.peel(c["args"][0])
        r = hir.simp(ix.get("i", {}))
        f = {x["name"]: x["e"] for x in r.get("fields", [])}
        if ix.get("k") != "index" or not hir.is_local(ix["e"], hexvar) or "start" not in f or "end" not in f:
            raise Unrecognised(f"from_str_radix argument `{hirpp.expr(c['args'][0])[:60]}` is not a start..end slice of the hex word")
        return poly.poly(f["start"], resolve=third, lets=lets), poly.poly(f["end"], resolve=third, lets=lets)

    got = [rng(c) for c in calls] if len(calls) == 3 else []
    T = poly.sym("t")
    want = [(poly.const(0), T), (T, poly.mul(poly.const(2), T)), (poly.mul(poly.const(2), T), poly.mul(poly.const(3), T))]
    order = [want.index(g) if g in want else None for g in got]
    rep.check(sorted(x for x in order if x is not None) == [0, 1, 2], "hex-guard", b["path"], "consecutive-thirds",
              f"the three slices must be [0..t], [t..2t], [2t..3t] with t = hex.len()/3; found {[(poly.show(a), poly.show(z)) for a, z in got]}", loc(b))
    # the colour is built from the values parsed out of the first, second and third slice, in that order
    src = hir.binding_sources(b["hir"])
    tup = [n for n in hir.walk(b["hir"]) if hir.is_call(n, "<anstyle::color::Color as core::convert::From<(u8, u8, u8)>>::from")]
    comps = []
    if len(tup) == 1 and hir.simp(tup[0]["args"][0]).get("k") == "tuple":
        comps = hir.simp(tup[0]["args"][0])["es"]
    else:
        rgb = [n for n in hir.walk(b["hir"]) if n.get("k") == "call" and n.get("ctor", "").endswith("RgbColor")]
        if len(rgb) == 1:
            comps = rgb[0]["args"]
    flow = []
    for x in comps:
        x = hir.simp(x)
        o = src.get(x.get("id")) if x.get("k") == "local" else x
        idx = [i for i, c in enumerate(calls) if o is c]
        flow.append(order[idx[0]] if idx and len(order) == 3 else None)
    ok = flow == [0, 1, 2]
    rep.check(ok, "hex-guard", b["path"], "colour-from-(r,g,b)-in-order",
              f"Color::from((r, g, b)) must take the values parsed from the 1st, 2nd and 3rd third of the word; found slice order {flow}", loc(b))
