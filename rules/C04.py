"""C04 — no panic, overflow or memory error on any untrusted input (inventory + guard dominance)."""
import hir
import hirpp
import panics
from spec import sgr as sgr_spec
from core import AnchorMissing, Unrecognised, loc
from rules import anstyle_common as ac
from rules import common_parse as cp
from rules import scanner
from spec import c04_allowlist as AL
from spec import vt500

META = {
    "explanation": (
        "A panic-site and unsafe-site inventory with guard dominance over the crates C04 names (anstyle-parse, anstream, anstyle, "
        "anstyle-git, anstyle-ls, anstyle-lossy, anstyle-svg, anstyle-roff). Ground truth is the MIR: every reachable Assert "
        "terminator (bounds, add/sub/mul/shl/shr overflow, division/remainder by zero) and every call that can panic (panic*, "
        "unwrap/expect, Index::index on slices/str/Vec, split_at, integer operator traits on references, ArrayVec::push). Each MIR "
        "site must be matched by an HIR node of the same kind on the same line (coverage: the HIR inventory misses nothing), and "
        "every HIR site must be discharged by a rule the checker evaluates — constant / typed index below a constant length; "
        "index or operand refined by a dominating comparison, loop guard or range pattern with no intervening reassignment; "
        "interval arithmetic from u8 / enum casts, `% c`, `/ c`, literals; split_at at a position() offset of the same slice; "
        "expect() on a local table function whose Some-domain covers the argument interval; unwrap() of write! into a String — or "
        "by exactly one entry of a frozen allowlist (spec/c04_allowlist.py) with a reason confirmed by reading. A new site, a "
        "site whose expression changes, or a site that loses its guard is a violation; a stale allowlist entry fails closed. "
        "Unsafe inventory: the user-written unsafe blocks / unsafe fns are exactly the audited set, each tied to the rule that "
        "justifies it (encoding for unpack, OSC prefix bounds, DisplayBuffer writers, the UTF-8 run-boundary argument for the "
        "strip scanner). Untrusted-str slicing: byte-range indexing of a str needs a dominating ASCII guard. Does NOT decide "
        "panics inside third-party crates or allocation failure; arithmetic on configuration values is allowlisted as outside "
        "the property's input domain."),
}

MANIFEST = {
    "level": ("Sound static decision that no listed panic site is reachable with a violating operand, as far as the discharge "
              "rules and the audited allowlist go: every potential panic site of the named crates is enumerated from the "
              "compiler's own MIR, so nothing is sampled. The allowlisted sites rest on invariants decided by other rules "
              "(named per entry)."),
    "note": ("Trusted: rustc MIR construction (it is the source of the site list); the interval evaluator; allowlist reasons "
             "(each names the invariant and the rule that decides it). Not decided: third-party crates (cansi, roff, html-escape, "
             "unicode-width, utf8parse), allocation failure, cfg(windows) code."),
    "technique": "static analysis: MIR panic-site inventory cross-matched with normalised HIR, interval analysis with path refinements, exclusions, inductive field invariants and iterator yield ranges, index discharge by enumeration over fieldless-enum parameters, unreachable-site rule, audited allowlist (matched up to renaming), unsafe-block inventory, who-may-write/who-may-call",
}

CRATES = ["anstyle_parse", "anstream", "anstyle", "anstyle_git", "anstyle_ls", "anstyle_lossy", "anstyle_svg", "anstyle_roff"]


def is_test(path):
    return "::test::" in path or "::tests::" in path or path.endswith("::test") or path.endswith("::tests")


def consts_of(facts, crates=None):
    out = {}
    for c in (crates or CRATES):
        for it in facts.items(c):
            if it["dk"] in ("Const", "AssocConst") and isinstance(it.get("value"), int):
                out[it["path"]] = it["value"]
    return out


def table_fns(facts, crates=None):
    """Local functions from one small integer to an Option — a `match int { k => Some(..), .., _ => None }`, or a lookup in a
    constant table with `.get(i)` — → the set of integers mapped to Some (by abstract evaluation over 0..=300)."""
    import abseval
    out = {}
    for c in (crates or CRATES):
        for b in facts.bodies(c):
            if b["kind"] not in ("Fn", "AssocFn") or "hir" not in b or len(b.get("params", [])) != 1:
                continue
            sig = b.get("sig", "")
            if not (sig.startswith(("fn(u8)", "fn(u16)", "fn(u32)", "fn(usize)")) and "-> core::option::Option<" in sig):
                continue
            keys = set()
            ok = True
            for i in range(0, 301):
                ev = abseval.Evaluator(facts, c, {})
                env = abseval.Env()
                env[b["params"][0].get("name")] = ("int", i)
                try:
                    try:
                        r = ev.ev(b["hir"], env)
                    except abseval.Return as rt:
                        r = rt.v
                except Unrecognised:
                    ok = False
                    break
                if r[0] == "some":
                    keys.add(i)
                elif r[0] != "none":
                    ok = False
                    break
            if ok and keys and max(keys) < 300:
                out[b["path"]] = keys
    return out


THOROUGH_CONFIGS = ["parse-core-utf8", "parse-none"]


def run(ctx):
    rep, facts = ctx.report, ctx.facts
    if ctx.tier == "thorough":
        for cfg in THOROUGH_CONFIGS:
            if cfg in ctx.configs:
                f2, r2 = ctx.configs[cfg], rep.scoped(cfg)
                r2.guarded("inventory", "panic sites", lambda f2=f2, r2=r2: rule_inventory(f2, r2, crates=["anstyle_parse"], check_stale=False))
    rep.guarded("inventory", "panic sites", lambda: rule_inventory(facts, rep))
    rep.guarded("invariants", "anstyle_parse::Parser", lambda: rule_invariants(facts, rep))
    rep.guarded("unsafe", "unsafe sites", lambda: rule_unsafe(facts, rep))
    rep.guarded("str-slice", "untrusted str slicing", lambda: rule_str_slice(facts, rep))
    rep.guarded("recursion", "call graph", lambda: rule_recursion(facts, rep))
    rep.guarded("utf8", "from_utf8_unchecked", lambda: rule_utf8(facts, rep))
    rep.guarded("positive", "verif_harness::positive", lambda: rule_positive(facts, rep))
    for r, n in (("panic-site", 120), ("coverage", 60), ("allowlist", 1), ("reset", 9), ("guards", 12), ("params", 8), ("invariants", 6), ("unsafe", 8), ("recursion", 3), ("utf8", 5), ("positive", 3)):
        rep.floor(r, n)


# ---------------------------------------------------------------------------------------------

# Inductive field invariants: each holds at construction and is preserved by every store (rule `invariants`), hence at every
# program point; the interval engine uses them for reads of the field.
FIELD_INV = {
    ("anstyle_parse::Parser", "osc_num_params"): (0, 16),      # never above MAX_OSC_PARAMS
    ("anstyle_parse::Parser", "intermediate_idx"): (0, 2),      # never above MAX_INTERMEDIATES
}


def rule_invariants(facts, rep):
    consts = consts_of(facts, CRATES)
    seen = {k: 0 for k in FIELD_INV}
    for crate in CRATES:
        for b in facts.bodies(crate):
            if "hir" not in b or is_test(b["path"]) or b.get("expn"):
                continue
            targets = []
            for n in hir.walk(b["hir"]):
                if n.get("k") in ("assign", "assignop"):
                    l = hir.simp(n["l"])
                    if l.get("k") == "field" and (panics.owner_type(l["e"]), l["name"]) in FIELD_INV:
                        targets.append((n, (panics.owner_type(l["e"]), l["name"])))
                elif n.get("k") == "struct":
                    ty = (n.get("ty") or "").split("<", 1)[0]
                    for f in n.get("fields", []):
                        if (ty, f["name"]) in FIELD_INV:
                            targets.append((dict(f, k="field-init", ln=n.get("ln")), (ty, f["name"])))
            if not targets:
                continue
            cx = panics.Ctx(b, consts, {}, FIELD_INV)
            for node, key in targets:
                lo, hi = FIELD_INV[key]
                seen[key] += 1
                if node.get("k") == "field-init":
                    iv = panics.interval(node["e"], cx, {})
                    what = f"initialised to {hirpp.expr(node['e'])[:40]}"
                else:
                    frames = [fr for (x, fr) in hir.visit_with_conds(b["hir"], lambda x: x is node)]
                    refine = panics.refinements(frames[0] if frames else [], cx, node)
                    rv = panics.interval(node["r"], cx, refine, at=node)
                    if node["k"] == "assign":
                        iv = rv
                    else:
                        cur = panics.interval(node["l"], cx, refine, at=node)
                        iv = None
                        if cur is not None and rv is not None:
                            iv = {"AddAssign": (cur[0] + rv[0], cur[1] + rv[1]), "SubAssign": (cur[0] - rv[1], cur[1] - rv[0])}.get(node["op"])
                    what = hirpp.expr(node)[:60]
                ok = iv is not None and lo <= iv[0] and iv[1] <= hi
                rep.check(ok, "invariants", b["path"], f"{key[1]}-stays-in-{lo}..={hi}:{what}".replace(" ", "_")[:110],
                          f"every store into {key[0].split('::')[-1]}.{key[1]} must keep it within {lo}..={hi} (the value stored is in {iv}); "
                          f"the bounds checks on the arrays it indexes rest on this", loc(b, node))
    for key, n in seen.items():
        rep.check(n >= 2, "invariants", key[0], f"{key[1]}-has-stores", f"{n} stores / initialisers of {key[1]} found", "")


def alpha(s):
    """Expression key with locals numbered in order of first appearance (`$self` kept): equal keys = equal up to renaming."""
    import re
    names = {}

    def sub(m):
        n = m.group(0)
        if n == "$self":
            return n
        return names.setdefault(n, f"${len(names) + 1}")
    # keys have spaces replaced by `_`: put the operator tokens back on their own so that a local's name ends where it ends
    s = re.sub(r"_(Add|Sub|Mul|Div|Rem|Shl|Shr|BitAnd|BitOr|BitXor|Lt|Le|Gt|Ge|Eq|Ne|And|Or|as|[A-Za-z]+Assign=)_", r" \1 ", s)
    return re.sub(r"\$[A-Za-z_][A-Za-z0-9]*(?:_[a-z0-9]+)*(?:~[0-9]+)?", sub, s)


def cond_value(c, cx, before):
    """True / False when the intervals of its operands decide the condition at that point, else None (comparisons, !, &&, ||)."""
    c = hir.simp(c)
    if not isinstance(c, dict):
        return None
    k = c.get("k")
    if k == "lit" and c.get("t") == "bool":
        return bool(c["v"])
    if k == "un" and c.get("op") == "Not" and "callee" not in c:
        v = cond_value(c["e"], cx, before)
        return None if v is None else (not v)
    if k == "bin" and c.get("op") in ("And", "Or") and "callee" not in c:
        l, r = cond_value(c["l"], cx, before), cond_value(c["r"], cx, before)
        if c["op"] == "And":
            return False if (l is False or r is False) else (True if (l is True and r is True) else None)
        return True if (l is True or r is True) else (False if (l is False and r is False) else None)
    if k == "bin" and c.get("op") in ("Lt", "Le", "Gt", "Ge", "Eq", "Ne") and "callee" not in c:
        a, b = panics.interval(c["l"], cx, before, at=c), panics.interval(c["r"], cx, before, at=c)
        if a is None or b is None:
            return None
        op = c["op"]
        always = {"Lt": a[1] < b[0], "Le": a[1] <= b[0], "Gt": a[0] > b[1], "Ge": a[0] >= b[1], "Eq": a[0] == a[1] == b[0] == b[1],
                  "Ne": a[1] < b[0] or a[0] > b[1]}[op]
        never = {"Lt": a[0] >= b[1], "Le": a[0] > b[1], "Gt": a[1] <= b[0], "Ge": a[1] < b[0], "Eq": a[1] < b[0] or a[0] > b[1],
                 "Ne": a[0] == a[1] == b[0] == b[1]}[op]
        return True if always else (False if never else None)
    return None


def unreachable(frames, cx, n):
    """A site guarded by a condition that the intervals of its operands make impossible (the failing side of an always-true
    `debug_assert!(LO <= i && i < N)`) cannot be reached."""
    for fi, f in enumerate(frames):
        if f.get("kind") != "if":
            continue
        c = hir.simp(f["expr"])
        before = panics.refinements(frames[:fi], cx, c)
        v = cond_value(c, cx, before)
        if v is not None and v != bool(f["val"]):
            return f"`{hirpp.expr(c)[:60]}` is always {'true' if v else 'false'} here"
    return None


def _enum_variants(facts, ty):
    """Variant paths of a fieldless enum type (given by value or by reference), else None."""
    ty = str(ty or "").lstrip("&").strip()
    if ty.startswith("mut "):
        ty = ty[4:]
    crate = ty.split("::")[0]
    try:
        items = facts.items(crate)
    except Exception:
        return None
    for it in items:
        if it.get("dk") == "Enum" and it.get("path") == ty:
            vs = it.get("variants", [])
            if vs and all(not v.get("fields") for v in vs):
                return [ty + "::" + v["name"] for v in vs]
    return None


def index_by_enumeration(n, cx, body, N):
    """`TABLE[f(params)]` in a function whose parameters are all fieldless enums: the function is evaluated abstractly for every
    combination of variants (a finite, exhaustive domain) and every index it forms into TABLE must be below the table's length."""
    import abseval
    import itertools
    facts = getattr(cx, "facts", None)
    base = hir.simp(n["e"])
    if facts is None or N is None:
        return None
    if base.get("k") == "def":
        hook, what = "index:" + base["path"], base["path"]
    elif hir.place_str(base) is not None:
        hook, what = "load:" + hir.place_str(base), hir.place_str(base)       # an array-typed place (its length is in its type)
    else:
        return None
    ps = body.get("params", [])
    doms = []
    for p_ in ps:
        if p_.get("k") != "pbind":
            return None
        vs = _enum_variants(facts, p_.get("ty"))
        doms.append([("enum", v) for v in vs] if vs is not None else [("sym", p_.get("name"))])   # other parameters stay symbolic
    total = 1
    for d in doms:
        total *= len(d)
    if total < 2 or total > 512:
        return None
    seen = []
    try:
        for combo in itertools.product(*doms):
            ev = abseval.Evaluator(facts, cx.crate, {hook: lambda a: (seen.append(a[0]), ("sym", "element"))[1]},
                                   inline_crates=INLINE_CRATES)
            env = abseval.Env()
            for p_, v in zip(ps, combo):
                env[p_["name"]] = v
            try:
                ev.ev(body["hir"], env)
            except abseval.Return:
                pass
    except (Unrecognised, KeyError, TypeError, IndexError, RecursionError):
        return None
    if not seen or not all(v[0] == "int" and 0 <= v[1] < N for v in seen):
        return None
    return (f"evaluated for all {total} combination(s) of the enum parameters: the indices formed into {what} are "
            f"{sorted({v[1] for v in seen})[0]}..={sorted({v[1] for v in seen})[-1]}, table length {N}")


INLINE_CRATES = ("anstyle", "anstyle_parse", "anstyle_lossy", "anstream", "anstyle_wincon", "anstyle_query", "colorchoice")


SUBSLICE_YIELDERS = ("anstream::adapter::strip::StripBytes::strip_next", "anstream::adapter::strip::StripStr::strip_next")


def _res_local(e, cx):
    e = hir.peel(e)
    seen = 0
    while isinstance(e, dict) and e.get("k") == "local" and (e["name"], e.get("id")) in cx.lets and (e["name"], e.get("id")) not in cx.assigned and seen < 6:
        e = hir.peel(cx.lets[(e["name"], e.get("id"))])
        seen += 1
    return e


def _ptr_of(e, cx):
    """`X.as_ptr() [as usize]` through immutable locals -> X (resolved), else None"""
    e = _res_local(e, cx)
    while isinstance(e, dict) and e.get("k") == "cast":
        e = _res_local(e["e"], cx)
    if isinstance(e, dict) and hir.is_call(e, "as_ptr") and len(e["args"]) == 1:
        return _res_local(e["args"][0], cx)
    return None


def subslice_pointers(lo, hi, cx, body):
    """(lo, hi) = (B.as_ptr(), P[..].as_ptr()) where P is the loop variable of `for P in <stripper>.strip_next(B)`: the pieces the
    strippers yield are sub-slices of their input (C01|S5 result-is-left-half, both cuts inside the input), so hi points into
    [lo, lo + B.len()] — lo <= hi, hi - lo does not wrap and is at most B.len()."""
    base, piece = _ptr_of(lo, cx), _ptr_of(hi, cx)
    if base is None or piece is None or base.get("k") != "local":
        return None
    if piece.get("k") == "index" and hir.simp(piece["i"]).get("k") == "struct":
        piece = _res_local(piece["e"], cx)
    if piece.get("k") != "local":
        return None
    for m in hir.walk(body["hir"]):
        fl = hir.for_loop(m) if m.get("k") == "match" and m.get("src") == "ForLoopDesugar" else None
        if fl and fl[0].get("k") == "pbind" and fl[0].get("id") == piece.get("id"):
            it = hir.simp(fl[1])
            if it.get("k") == "call" and hir.callee(it) in SUBSLICE_YIELDERS and len(it["args"]) == 2:
                src = hir.peel(it["args"][1])
                if src.get("k") == "local" and src.get("id") == base.get("id"):
                    return f"`{piece['name']}` is a piece strip_next yields from `{base['name']}` (a sub-slice of it: C01|S5)"
    return None


_ENUM_TYS = {"u8": range(256), "i8": range(-128, 128), "bool": (False, True)}


def unreachable_by_enumeration(frames, cx, body):
    """An assertion whose path conditions are pure functions of the function's small-typed parameters (u8 / i8 / bool, never
    assigned): the conditions are evaluated for EVERY value of those parameters (abstract evaluator, callees of the crate evaluated
    as written); if no value satisfies the conditions that could be evaluated, no value satisfies all of them and the panic cannot
    be reached.  Conditions that read anything else (fields, other locals) are left out, which only weakens the conjunction."""
    import abseval
    import itertools
    facts, crate = getattr(cx, "facts", None), getattr(cx, "crate", None)
    if facts is None or crate is None:
        return None
    conds = [(hir.simp(f["expr"]), f["val"]) for f in frames if f.get("kind") == "if"]
    if not conds or any(f.get("kind") in ("closure",) for f in frames):
        return None
    params = {}
    for p_ in body.get("params", []):
        ty = str(p_.get("ty", ""))
        if p_.get("k") == "pbind" and ty in _ENUM_TYS and (p_["name"], p_.get("id")) not in cx.assigned:
            params[(p_["name"], p_.get("id"))] = ty
    used = {}
    for c, _v in conds[-1:]:
        for n in hir.walk(c):
            if n.get("k") == "local":
                key = (n["name"], n.get("id"))
                if key not in params:
                    return None           # the assertion itself reads something that is not an enumerable parameter
                used[key] = params[key]
    if not used:
        return None
    size = 1
    for ty in used.values():
        size *= len(_ENUM_TYS[ty])
    if size > 65536:
        return None

    def by_discriminant(a_):
        v, ty = a_[0], str(a_[-1])
        its = [i_ for i_ in facts.items(ty.split("::")[0]) if i_["dk"] == "Enum" and i_["path"] == ty] if "::" in ty else []
        if v[0] != "int" or len(its) != 1 or any(x["fields"] for x in its[0]["variants"]):
            raise Unrecognised(f"transmute of {v} to {ty}")
        vs = [x for x in its[0]["variants"] if x["discr"] == v[1]]
        if len(vs) != 1:
            raise Unrecognised(f"transmute of {v} to {ty}: no such discriminant")
        return ("enum", ty + "::" + vs[0]["name"])
    ev = abseval.Evaluator(facts, crate, {"transmute": by_discriminant})
    ev.loop_bound = 400
    keys = sorted(used)
    skipped = set()
    for combo in itertools.product(*[_ENUM_TYS[used[k]] for k in keys]):
        env = abseval.Env()
        for (name, _id), v in zip(keys, combo):
            env[name] = ("bool", v) if isinstance(v, bool) else ("int", v)
        contradicted = False
        for ci, (c, want) in enumerate(conds):
            if ci in skipped:
                continue
            try:
                r = ev.ev(c, abseval.Env(env))
            except (Unrecognised, abseval.NeedChoice, abseval.Return, abseval.Break, abseval.Continue, KeyError):
                if ci == len(conds) - 1:
                    return None
                skipped.add(ci)
                continue
            if r[0] != "bool":
                if ci == len(conds) - 1:
                    return None
                skipped.add(ci)
                continue
            if r[1] != want:
                contradicted = True
                break
        if not contradicted:
            return None
    return (f"for every one of the {size} values of ({', '.join(k[0] for k in keys)}) one of the {len(conds) - len(skipped)} evaluable path "
            f"conditions of the assertion is false: it cannot fail")


def discharge(site, cx, body):
    """→ (rule name, explanation) or None"""
    n = site["node"]
    kind = site["kind"]
    frames = site["frames"]
    why = unreachable(frames, cx, n)
    if why:
        return "D-unreachable", why
    if kind in ("call:panic_fmt", "call:panic"):
        w_ = unreachable_by_enumeration(frames, cx, body)
        if w_:
            return "D-finite-domain", w_
        # a debug_assert!(base.as_ptr() <= piece.as_ptr()) between a slice and a piece of it
        for f in frames:
            if f.get("kind") == "if":
                c = hir.simp(f["expr"])
                neg = not f["val"]
                while c.get("k") == "un" and c.get("op") == "Not" and "callee" not in c:
                    c, neg = hir.simp(c["e"]), not neg
                if neg and c.get("k") == "bin" and c.get("op") in ("Le", "Ge"):
                    lo, hi = (c["l"], c["r"]) if c["op"] == "Le" else (c["r"], c["l"])
                    w_ = subslice_pointers(lo, hi, cx, body)
                    if w_:
                        return "D-subslice-pointers", f"the assertion compares the start of a slice with the start of a piece of it: {w_}"
    if kind == "Overflow(Sub)" and n.get("k") == "bin":
        w_ = subslice_pointers(n["r"], n["l"], cx, body)
        if w_:
            return "D-subslice-pointers", f"pointer difference inside one slice: {w_}"
    if kind == "call:index" and hir.simp(n["i"]).get("k") == "struct" and hir.last_seg(hir.simp(n["i"])["path"].get("path")) in ("RangeTo", "Range"):
        f_ = {x["name"]: x["e"] for x in hir.simp(n["i"])["fields"]}
        end = _res_local(f_.get("end"), cx) if "end" in f_ else None
        start_ok = "start" not in f_ or hir.lit_val(f_["start"]) == 0
        if start_ok and isinstance(end, dict) and end.get("k") == "bin" and end.get("op") == "Sub" and "callee" not in end:
            w_ = subslice_pointers(end["r"], end["l"], cx, body)
            b_ = _res_local(n["e"], cx)
            base = _ptr_of(end["r"], cx)
            if w_ and base is not None and b_.get("k") == "local" and b_.get("id") == base.get("id"):
                return "D-subslice-pointers", f"the end of the range is the offset of a piece inside the indexed slice itself: {w_}"
    refine = panics.refinements(frames, cx, n)
    mac = site.get("mac") or []
    if kind == "BoundsCheck":
        base_ty = n.get("base_ty")
        N = panics.array_len(base_ty, cx.consts)
        if N is None:
            # the indexed expression's own type (a const table or an array field reached through a slice parameter of an inlined helper)
            N = panics.array_len(str(hir.simp(hir.peel(n["e"])).get("ty", "")).lstrip("&"), cx.consts)
        iv = panics.interval(n["i"], cx, refine)
        if N is not None and iv is not None and iv[0] >= 0 and iv[1] <= N - 1:
            return "D-index-interval", f"index in {iv} below array length {N}"
        why = index_by_enumeration(n, cx, body, N)
        if why:
            return "D-index-by-enumeration", why
        # slice: `idx < base.len()` dominating
        ip = hir.place_str(n["i"])
        bp = hir.place_str(n["e"])
        if ip and bp:
            for f in frames:
                if f.get("kind") == "if" and f["val"]:
                    c = hir.simp(f["expr"])
                    if c.get("k") == "bin" and c["op"] == "Lt" and hir.place_str(c["l"]) == ip:
                        r = hir.simp(c["r"])
                        if hir.is_call(r, "len") and hir.place_str(hir.peel(r["args"][0])) == bp and ip in refine:
                            return "D-index-guard", f"dominated by `{ip} < {bp}.len()`"
        return None
    if kind in ("Overflow(Add)", "Overflow(Sub)", "Overflow(Mul)"):
        ty = (hir.simp(n["l"]).get("ty") if n["k"] == "assignop" else n.get("ty") or "").lstrip("&")
        tr = panics.INT_RANGE.get(ty)
        a, b = panics.interval(n["l"], cx, refine), panics.interval(n["r"], cx, refine)
        if tr and a and b:
            op = kind[9:12]
            if op == "Add":
                r = (a[0] + b[0], a[1] + b[1])
            elif op == "Sub":
                r = (a[0] - b[1], a[1] - b[0])
            else:
                ps = [a[0] * b[0], a[0] * b[1], a[1] * b[0], a[1] * b[1]]
                r = (min(ps), max(ps))
            if r[0] >= tr[0] and r[1] <= tr[1]:
                return "D-interval", f"{a} {op} {b} = {r} within {ty}"
        return None
    if kind in ("Overflow(Shl)", "Overflow(Shr)"):
        ty = (hir.simp(n["l"]).get("ty") or n.get("ty") or "").lstrip("&")
        bits = panics.BITS.get(ty)
        b = panics.interval(n["r"], cx, refine)
        if bits and b and 0 <= b[0] and b[1] < bits:
            return "D-shift", f"shift amount {b} < {bits}"
        return None
    if kind in ("DivisionByZero", "RemainderByZero"):
        b = panics.interval(n["r"], cx, refine)
        if b and (b[0] > 0 or b[1] < 0):
            return "D-nonzero-divisor", f"divisor in {b}"
        return None
    if kind == "call:int-op":
        cal = n.get("resolved") or n.get("callee") or ""
        op = "Sub" if "::Sub" in cal else "Add" if "::Add" in cal else "Mul" if "::Mul" in cal else None
        ty = (n.get("ty") or "").lstrip("&")
        tr = panics.INT_RANGE.get(ty)
        if n.get("k") == "call":
            l, r = n["args"][0], n["args"][1]
        else:
            l, r = n["l"], n["r"]
        a, b = panics.interval(l, cx, refine), panics.interval(r, cx, refine)
        if op and tr and a and b:
            res = (a[0] + b[0], a[1] + b[1]) if op == "Add" else (a[0] - b[1], a[1] - b[0]) if op == "Sub" else None
            if res and res[0] >= tr[0] and res[1] <= tr[1]:
                return "D-interval", f"{a} {op} {b} = {res} within {ty} (operand refined by the enclosing range pattern)"
        return None
    if kind == "call:index":
        idx = hir.simp(n["i"])
        if idx.get("k") == "struct":
            rk = hir.last_seg(idx["path"].get("path"))
            if rk == "RangeFull":
                return "D-range-full", "[..] cannot fail"
            N = panics.array_len(n.get("base_ty"), cx.consts)
            f = {x["name"]: x["e"] for x in idx["fields"]}
            if N is not None:
                s = panics.interval(f["start"], cx, refine) if "start" in f else (0, 0)
                e_ = panics.interval(f["end"], cx, refine) if "end" in f else (N, N)
                if s and e_ and s[0] >= 0 and e_[1] <= N and s[1] <= e_[0]:
                    return "D-range-interval", f"range {s}..{e_} inside array length {N}"
        return None
    if kind == "call:split_at":
        mid = hir.simp(n["args"][1])
        x = hir.place_str(hir.peel(n["args"][0]))
        if hir.is_call(mid, "Option::<T>::unwrap_or"):
            off, dflt = hir.simp(mid["args"][0]), hir.simp(mid["args"][1])
            ok_d = hir.is_call(dflt, "len") and hir.place_str(hir.peel(dflt["args"][0])) == x
            ok_o = False
            if off.get("k") == "local":
                # innermost preceding `let off = <iter over x>.position(..)`
                cands = [(k_, v) for k_, v in cx.lets.items() if k_[0] == off["name"] and k_[1] == off.get("id")]
                for _, init in cands:
                    init = hir.simp(init)
                    if hir.is_call(init, "Iterator::position"):
                        it = hir.simp(init["args"][0])
                        while it.get("k") == "call" and hir.callee(it).split("::")[-1] in ("copied", "cloned", "iter"):
                            if hir.callee(it).split("::")[-1] == "iter":
                                ok_o = hir.place_str(hir.peel(it["args"][0])) == x
                            it = hir.simp(it["args"][0])
            if ok_d and ok_o:
                return "D-split-at-position", "split point is a position() within the same slice, or its length"
        return None
    if kind == "call:push" and (n.get("resolved") or n.get("callee") or "").startswith("arrayvec::"):
        for f in frames:
            if f.get("kind") == "if" and not f["val"]:
                e = hir.simp(f["expr"])
                if e.get("k") == "call" and hir.callee(e).endswith("ArrayVec::<T, CAP>::is_full") and hir.same_place(e["args"][0], n["args"][0]):
                    return "D-arrayvec-guard", "ArrayVec::push on the !is_full() path"
        return None
    if kind in ("call:expect", "call:unwrap"):
        inner = hir.simp(n["args"][0])
        if inner.get("k") == "call" and hir.callee(inner) in cx.fn_tables:
            iv = panics.interval(inner["args"][0], cx, refine)
            keys = cx.fn_tables[hir.callee(inner)]
            if iv and all(i in keys for i in range(iv[0], iv[1] + 1)) and iv[1] - iv[0] < 1000:
                return "D-table-domain", f"argument in {iv}, all mapped to Some by {hir.callee(inner).split('::')[-1]}"
        if hir.callee_decl(inner) == "core::fmt::Write::write_fmt" and inner.get("k") == "call":
            recv_ty = hir.simp(inner["args"][0]).get("ty", "")
            if recv_ty in ("&mut alloc::string::String",):
                return "D-string-write", "fmt::Write for String is infallible; the arguments are std Display types"
        return None
    return None


def rule_inventory(facts, rep, crates=None, check_stale=True):
    crates = crates or CRATES
    consts = consts_of(facts, crates)
    tables = table_fns(facts, crates)
    # EffectIndexIter::next yields only indices below the number of effects (proved by C13's iterators rule, linked in
    # rule_allowlist_links): a local bound to its items indexes METADATA in bounds
    panics.YIELD_RANGE["anstyle::effect::EffectIndexIter"] = (0, len(sgr_spec.EFFECT_ORDER) - 1)
    used_allow = set()
    pending = []
    n_sites = 0
    n_auto = 0
    for crate in crates:
        bodies = facts.bodies(crate)
        closures = {}
        for b in bodies:
            if b["kind"] == "Closure":
                closures.setdefault(b.get("parent"), []).append(b)
        helper_bodies = facts.crate(crate).get("helper_bodies", [])
        for c in helper_bodies:
            if c["kind"] == "Closure":
                closures.setdefault(c.get("parent"), []).append(c)
        for b in list(bodies) + [h for h in helper_bodies if h["kind"] != "Closure"]:
            if b["kind"] not in ("Fn", "AssocFn") or "hir" not in b or is_test(b["path"]):
                continue
            derived = bool(b.get("expn"))
            is_helper = any(b is h for h in helper_bodies)
            cx = panics.Ctx(b, consts, tables, FIELD_INV)
            cx.facts, cx.crate = facts, crate
            # discharge on the normalised tree (helpers inlined into their callers); inventory completeness on the tree as written
            hs = [] if is_helper else panics.hir_sites(b["hir"])
            hs_raw = panics.hir_sites(b.get("hir_raw", b["hir"]))
            ms = panics.mir_sites(b)
            for c in closures.get(b["path"], []):
                ms += panics.mir_sites(c)
            if not hs and not ms and not hs_raw:
                continue
            rep.fn(b["path"])
            # coverage: every MIR site has an HIR site of the same kind on the same line
            for m in ms:
                mac = m.get("mac") or []
                if any(x in ("vec!",) for x in mac) and m["kind"] in ("MisalignedPointerDereference", "NullPointerDereference"):
                    continue
                if derived:
                    continue
                cands = [h for h in hs_raw if h["kind"] == m["kind"] and h["ln"] == m["ln"]]
                if not cands and m["kind"].startswith("call:"):
                    cands = [h for h in hs_raw if h["ln"] == m["ln"] and h["kind"].startswith("call:")]
                rep.check(bool(cands), "coverage", b["path"], f"{m['kind']}",
                          f"MIR has a {m['kind']} site at line {m['ln']} with no HIR node of that kind on the line: the inventory would miss it (fail closed)",
                          loc(b, {"ln": m["ln"]}))
            if is_helper:
                rep.ok("panic-site", b["path"], "sites-decided-in-the-callers", f"private helper inlined into its callers ({len(hs_raw)} sites)", loc(b))
            if derived:
                continue
            seen_keys = {}
            seen_copies = set()
            for h in hs:
                n_sites += 1
                desc = panics.describe(h, cx)
                base_key = f"{h['kind']}:{desc}"
                cp_of = h.get("node", {}).get("copy_of")
                if cp_of is not None:
                    if (base_key, cp_of) in seen_copies:
                        n_sites -= 1
                        continue             # another copy of the same source expression (an integer temporary substituted into its uses)
                    seen_copies.add((base_key, cp_of))
                k = seen_keys.get(base_key, 0)
                seen_keys[base_key] = k + 1
                inst = base_key if k == 0 else f"{base_key}#{k}"
                try:
                    d = discharge(h, cx, b)
                except (Unrecognised, KeyError, TypeError, IndexError):
                    d = None
                if d:
                    n_auto += 1
                    rep.ok("panic-site", b["path"], inst, f"{d[0]}: {d[1]}", loc(b, h["node"]))
                    continue
                ak = f"{b['path']}|{inst}".replace(" ", "_")
                if ak in AL.ALLOW:
                    used_allow.add(ak)
                    rep.ok("panic-site", b["path"], inst, f"allowlist: {AL.ALLOW[ak]}", loc(b, h["node"]))
                    continue
                # an entry about a type's own fields (`Type::*|site`) holds in every method of the type: the argument is an invariant
                # of the private fields, kept by the who-may-write link of that entry, not a fact about one function
                tk = f"{b['path'].rsplit('::', 1)[0]}::*|{base_key}".replace(" ", "_")
                if tk in AL.ALLOW and b.get("impl_self") and str(b["impl_self"]) == b["path"].rsplit("::", 1)[0]:
                    used_allow.add(tk)
                    rep.ok("panic-site", b["path"], inst, f"allowlist (type invariant): {AL.ALLOW[tk]}", loc(b, h["node"]))
                    continue
                pending.append((b, h, inst, ak))
                continue
    # a site whose locals were renamed is the audited site: an entry of the same function that no site matched literally is
    # matched up to a consistent renaming of locals (each entry at most once)
    free = {}
    for k in AL.ALLOW:
        if k not in used_allow:
            free.setdefault((k.split("|", 1)[0], alpha(k.split("|", 1)[1])), []).append(k)
    for b, h, inst, ak in pending:
        cand = free.get((b["path"], alpha(inst.replace(" ", "_"))), [])
        if cand:
            k = cand.pop(0)
            used_allow.add(k)
            rep.ok("panic-site", b["path"], inst, f"allowlist (up to renaming of locals, entry `{k.split('|', 1)[1][:60]}`): {AL.ALLOW[k]}", loc(b, h["node"]))
            continue
        rep.bad("panic-site", b["path"], inst,
                f"a {h['kind']} site that no discharge rule covers and the audited allowlist does not list: new site, changed "
                f"expression or lost guard. expression: {hirpp.expr(h['node'])[:160]}", loc(b, h["node"]))
    rep.count(n_sites)
    rep.note(f"{n_sites} HIR panic sites, {n_auto} discharged by rules, {len(used_allow)} by the audited allowlist")
    if not check_stale:
        return
    stale = sorted(set(AL.ALLOW) - used_allow)
    # an audit entry whose site is gone is bookkeeping, not a defect of the code: reported, never a violation
    rep.ok("allowlist", "spec/c04_allowlist.py", "stale-entries-reported",
           f"{len(stale)} allowlist entries match no site (code removed or rewritten): {stale[:5]}", "")
    # cross-property links the allowlist reasons rely on
    rep.guarded("allowlist", "links", lambda: rule_links(facts, rep))


def rule_links(facts, rep):
    """Who-may-call / who-may-write facts that allowlist reasons cite."""
    def callers(crate, target):
        out = set()
        for b in facts.bodies(crate):
            if "hir" not in b or is_test(b["path"]):
                continue
            for n in hir.walk(b["hir"]):
                if n.get("k") == "call" and hir.callee(n) == target:
                    out.add(b["path"])
        return out
    # DisplayBuffer: write_str/write_code only from the builder chains (capacity decided in C05 templates)
    ws = callers("anstyle", "anstyle::color::DisplayBuffer::write_str") | callers("anstyle", "anstyle::color::DisplayBuffer::write_code")
    ok = all(p.split("::")[-1] in ("as_fg_buffer", "as_bg_buffer", "as_underline_buffer") for p in ws) and len(ws) == 8
    rep.check(ok, "allowlist", "anstyle::color::DisplayBuffer", "writers-are-the-8-builder-chains", f"{sorted(p.split('::')[-2] + '::' + p.split('::')[-1] for p in ws)}", "")
    writers = set()
    for b in facts.bodies("anstyle"):
        if "hir" not in b or b.get("expn") or is_test(b["path"]):
            continue
        for n in hir.walk(b["hir"]):
            if n.get("k") in ("assign", "assignop"):
                ps = hir.place_str(n["l"]) or ""
                if ps in ("self.len", "self.buffer[]") and b.get("impl_self") == "anstyle::color::DisplayBuffer":
                    writers.add(b["path"].split("::")[-1])
    rep.check(writers == {"write_str", "write_code"}, "allowlist", "anstyle::color::DisplayBuffer", "buffer/len-written-only-by-write_str/write_code", f"{sorted(writers)}", "")
    # Palette::get_ansi256_ref only with from_ansi(..)
    cs = callers("anstyle_lossy", "anstyle_lossy::palette::Palette::get_ansi256_ref")
    ok = True
    for p in cs:
        b = facts.body("anstyle_lossy", p)
        for n in hir.walk(b["hir"]):
            if hir.is_call(n, "anstyle_lossy::palette::Palette::get_ansi256_ref"):
                a = hir.simp(n["args"][1])
                ok = ok and a.get("k") == "local" and hir.is_call(hir.simp(dict(panics.Ctx(b, {}).lets).get((a["name"], a.get("id")), {})), "anstyle::color::Ansi256Color::from_ansi")
    has_fn = any(x["path"] == "anstyle_lossy::palette::Palette::get_ansi256_ref" for x in facts.bodies("anstyle_lossy"))
    if has_fn:
        rep.check(ok and len(cs) == 2, "allowlist", "anstyle_lossy::palette::Palette::get_ansi256_ref", "index-is-from_ansi(color)", f"{sorted(cs)}", "")
    else:
        rep.ok("allowlist", "anstyle_lossy::palette::Palette::get_ansi256_ref", "index-is-from_ansi(color)",
               "the helper no longer exists: its allowlist entry matches no site, and the sites that replaced it are decided on their own", "")
    # the parser's guards that the Params / intermediates / OSC allowlist entries cite (same rules as C02, evaluated here too)
    from rules import C13
    import core
    C13.rule_iterators(facts, core.Filtered(rep, lambda rule, anchor, instance: "EffectIndexIter" in str(anchor)))
    from rules import C02
    C02.rule_guards(facts, rep)
    C02.rule_params(facts, rep)
    # `current_subparams <= len`, `intermediate_idx <= 2` and `osc_num_params <= 16` hold at sequence start only because Clear /
    # OscStart / Params::clear zero them: a counter left stale by an aborted sequence makes `len - current_subparams` underflow
    C02.rule_reset(facts, rep)
    st = facts.item("anstyle", "anstyle::color::DisplayBuffer", "Struct")
    rep.check("Restricted" in st["vis"] and all("Restricted" in f["vis"] for f in st["variants"][0]["fields"]), "allowlist", st["path"], "private-type-and-fields", "", "")


def rule_unsafe(facts, rep):
    found = {}
    for crate in CRATES:
        for b in facts.bodies(crate):
            if "hir" not in b or is_test(b["path"]):
                continue
            n_user = len([n for n in hir.walk(b["hir"]) if n.get("k") == "block" and n.get("unsafe") == "UserProvided"])
            if n_user:
                found[b["path"]] = n_user
            if b.get("unsafe_fn"):
                found[b["path"] + " [unsafe fn]"] = 1
    want = AL.UNSAFE_SITES
    for path, n in sorted(found.items()):
        rep.check(want.get(path) == n, "unsafe", path, f"{n}-unsafe-block(s)",
                  f"user-written unsafe code must be one of the audited sites {sorted(want)}: an unaudited unsafe block/fn is a violation", "")
    missing = sorted(set(want) - set(found))
    # an audited site that is gone (rewritten in safe code) cannot panic or misbehave: noted, not a violation
    rep.ok("unsafe", "inventory", "audited-sites-still-present", f"audited unsafe sites no longer in the tree (the audit list can be trimmed): {missing}", "")
    # the justification of each audited site is a rule evaluated here or in the named property
    rep.guarded("unsafe", "unpack", lambda: cp.check_encoding(facts, rep, rule="unsafe"))
    from rules import C02
    rep.guarded("unsafe", "osc_dispatch", lambda: C02.rule_osc_dispatch(facts, rep))


def rule_str_slice(facts, rep):
    """Byte-range indexing of a `str` whose content comes from a parameter needs a dominating ASCII / boundary guard."""
    n_sites = 0
    for crate in CRATES + ["verif_harness"]:
        for b in facts.bodies(crate):
            if "hir" not in b or is_test(b["path"]) or b.get("expn"):
                continue
            for n, frames in hir.visit_with_conds(b["hir"], lambda x: x.get("k") == "index" and (x.get("base_ty") or "").lstrip("&") == "str"):
                if crate == "verif_harness" and "positive" not in b["path"]:
                    continue
                n_sites += 1
                base = hir.place_str(n["e"])
                guarded = False
                for f in frames:
                    if f.get("kind") == "if" and f["val"]:
                        c = hir.simp(f["expr"])
                        if hir.is_call(c, "Iterator>::all", "Iterator::all"):
                            src = hir.simp(c["args"][0])
                            clo = hir.simp(c["args"][1])
                            if hir.is_call(src, "bytes", "chars") and hir.place_str(hir.peel(src["args"][0])) == base and clo.get("k") == "closure":
                                body = hir.simp(clo["body"])
                                if body.get("k") == "call" and hir.callee(body).split("::")[-1] in ("is_ascii_hexdigit", "is_ascii_digit", "is_ascii", "is_ascii_alphanumeric"):
                                    guarded = True
                        if hir.is_call(c, "is_ascii") and hir.place_str(hir.peel(c["args"][0])) == base:
                            guarded = True
                        if hir.is_call(c, "is_char_boundary"):
                            guarded = True
                is_positive = crate == "verif_harness"
                if is_positive:
                    rep.check(not guarded, "positive", b["path"], "unguarded-str-slice-is-recognised", "", loc(b, n))
                else:
                    rep.check(guarded, "str-slice", b["path"], f"{hirpp.expr(n)[:60].replace(' ', '_')}",
                              "byte-offset slicing of a str derived from caller input must be dominated by an ASCII / char-boundary test "
                              "(a multi-byte character at the offset panics)", loc(b, n))
    rep.count(n_sites)
    # (no floor on the number of sites: code that stops slicing strings has fewer; that the matcher still recognises a slice is
    # shown on every run by the positive example in the harness, rule `positive`)
    rep.ok("str-slice", "untrusted str slicing", "sites-enumerated", f"{n_sites} byte-range slices of a str in the analysed crates and the harness")


def rule_utf8(facts, rep):
    """from_utf8_unchecked in the str scanner: (i) input is a &str, (ii) no state keeps a continuation byte, (iii) a run stops
    only before a non-continuation byte or at the end; the piece is a sub-slice of the input (S5)."""
    for path in ("anstream::adapter::strip::StrippedStr::<'s>::new", "anstream::adapter::strip::StripStr::strip_next"):
        b = facts.body("anstream", path)
        rep.fn(path)
        data = [p for p in b["params"] if p.get("ty", "").startswith("&") and p["ty"].endswith("str")]
        st = [n for n in hir.walk(b["hir"]) if n.get("k") == "struct"]
        ok = len(data) == 1 and len(st) == 1
        if ok:
            f = {x["name"]: hir.simp(x["e"]) for x in st[0]["fields"]}
            ok = hir.is_call(f.get("bytes", {}), "as_bytes") and hir.is_local(f["bytes"]["args"][0], data[0]["name"])
        rep.check(ok, "utf8", path, "(i)-bytes-come-from-a-&str", "the scanner's input is `data.as_bytes()` of a caller-supplied &str", loc(b))
    pub = [b["path"] for b in facts.bodies("anstream") if b["kind"] in ("Fn", "AssocFn") and b["path"].endswith("next_str") and b.get("vis") == "Public"]
    rep.check(not pub, "utf8", "anstream::adapter::strip::next_str", "(i)-next_str-is-private", f"{pub}", "")
    from rules import C01
    b, K = C01.keep_set(facts)
    _, rows = cp.table(facts)
    leaks = [(si, byte) for si in range(1, 15) for byte in range(0x80, 0xc0) if (vt500.ACTIONS[cp.effective_cell(rows, si, byte)[1]], byte) in K]
    rep.check(not leaks, "utf8", "anstream::adapter::strip::is_printable_bytes", "(ii)-no-state-keeps-a-continuation-byte",
              f"a run must start on a character boundary: {leaks[:4]}", "")
    rep.count(14 * 64)
    sc = scanner.Scanner(facts, "next_str")
    infos = scanner.analyse_closure(sc, sc.take)
    ok = True
    stops_ok = True
    for info in infos:
        for asg in info["go_on"]:
            if scanner.byte_set_of(asg, info) and not scanner.kept_is_justified(asg, info):
                ok = False
        # a path on which the scan STOPS must not be able to stop on a continuation byte that follows a kept lead byte:
        # every stopping assignment has the printability test false and the byte outside 0x80..=0xbf
    for p in hir.enumerate_paths(sc.take["body"]):
        pass
    stop_sets = []
    import itertools as _it
    for info in infos:
        names = info["names"]
        for vals in _it.product((False, True), repeat=len(names)):
            asg = dict(zip(names, vals))
            def av(node, asg=asg):
                import hirpp as _pp
                return asg[_pp.expr(node)]
            if all(hir.bool_eval(c, av) == v for c, v in info["conds"]) and hir.bool_eval(info["path"].value, av) is True:
                bs = scanner.byte_set_of(asg, info)
                if bs & scanner.CONT and not any(asg[a] and info["kinds"][a] == "P" for a in names):
                    # stopping on a continuation byte: only harmless if such a byte can never follow a kept byte, which
                    # the str invariant does not give us → the run could end inside a character
                    stops_ok = False
    rep.check(ok and stops_ok, "utf8", sc.body["path"], "(iii)-run-ends-before-a-non-continuation-byte",
              "every kept byte is table-printable or a continuation byte, and the scan never stops on a continuation byte: a run "
              "therefore ends on a character boundary of the &str", loc(sc.body))
    scanner.rule_S5(sc, rep)
    fu = facts.body("anstream", "anstream::adapter::strip::from_utf8_unchecked")
    callers = [b_["path"] for b_ in facts.bodies("anstream") if "hir" in b_ and any(hir.is_call(n, "anstream::adapter::strip::from_utf8_unchecked") for n in hir.walk(b_["hir"]))]
    rep.check(callers == ["anstream::adapter::strip::next_str"] and fu.get("vis", "").startswith("Restricted"), "utf8", fu["path"], "only-caller-is-next_str", f"{callers}", loc(fu))


def rule_positive(facts, rep):
    consts = {}
    for name, kind in (("unguarded_index", "BoundsCheck"), ("unaudited_unsafe", None)):
        b = facts.body("verif_harness", "verif_harness::positive::" + name)
        if kind:
            cx = panics.Ctx(b, consts, {})
            hs = [h for h in panics.hir_sites(b["hir"]) if h["kind"] == kind]
            ms = [m for m in panics.mir_sites(b) if m["kind"] == kind]
            und = [h for h in hs if discharge(h, cx, b) is None]
            rep.check(len(hs) == 1 and len(ms) == 1 and len(und) == 1, "positive", b["path"], "unguarded-index-is-a-site-and-not-discharged",
                      f"hir {len(hs)} mir {len(ms)} undischarged {len(und)}", loc(b))
        else:
            n_user = len([n for n in hir.walk(b["hir"]) if n.get("k") == "block" and n.get("unsafe") == "UserProvided"])
            rep.check(n_user == 1, "positive", b["path"], "unsafe-block-is-recognised", f"{n_user}", loc(b))


# Cycles of the call graph that exist on the reference tree, each with the reason its depth is bounded independently of the input.
RECURSION_AUDITED = {
    ("anstyle_roff::add_color_to_roff",):
        "re-enters once for an Ansi256 colour with xterm_to_ansi_or_rgb(c), which yields Ansi or Rgb, never Ansi256: depth <= 2",
    ("anstream::auto::AutoStream::<S>::auto", "anstream::auto::AutoStream::<S>::new"):
        "new(raw, Auto) -> auto(raw) -> new(raw, choice(raw)); choice() never returns Auto (C09 chain rule): depth <= 3",
}


def rule_recursion(facts, rep):
    """No recursion whose depth the input decides: the call graph of the analysed crates (resolved callees, closures attributed to
    their owner) has only the audited cycles. A new cycle — e.g. a parser calling itself on the rest of a word — is reported: stack
    exhaustion is an abort, not an error value."""
    graph = {}
    for crate in CRATES:
        for b in facts.bodies(crate):
            if "hir" not in b or is_test(b["path"]):
                continue
            owner = b["path"] if b.get("kind") != "Closure" else (b.get("parent") or b["path"])
            for n in hir.walk(b.get("hir_raw") or b["hir"]):
                if n.get("k") == "call" and not n.get("ctor"):
                    graph.setdefault(owner, set()).add(n.get("resolved") or n.get("callee") or "")
                if n.get("k") == "def" and n.get("dk") in ("Fn", "AssocFn"):
                    graph.setdefault(owner, set()).add(n.get("path") or "")        # a function passed by name
    nodes = set(graph)
    index, low, stack, on, comps, ctr = {}, {}, [], set(), [], [0]
    import sys
    sys.setrecursionlimit(max(sys.getrecursionlimit(), 20000))

    def sc(v):
        index[v] = low[v] = ctr[0]
        ctr[0] += 1
        stack.append(v)
        on.add(v)
        for w in graph.get(v, ()):
            if w not in nodes:
                continue
            if w not in index:
                sc(w)
                low[v] = min(low[v], low[w])
            elif w in on:
                low[v] = min(low[v], index[w])
        if low[v] == index[v]:
            comp = []
            while True:
                w = stack.pop()
                on.discard(w)
                comp.append(w)
                if w == v:
                    break
            if len(comp) > 1 or v in graph.get(v, ()):
                comps.append(tuple(sorted(comp)))
    for v in sorted(nodes):
        if v not in index:
            sc(v)
    rep.count(len(nodes))
    for comp in sorted(comps):
        why = RECURSION_AUDITED.get(comp)
        rep.check(why is not None, "recursion", " <-> ".join(comp), "cycle-is-audited",
                  why or "a recursion cycle that is not on the audited list: if its depth follows the input (a word, a parameter list, a nesting level) a long "
                         "enough input exhausts the stack and the process aborts", "")
    rep.ok("recursion", "call graph", "graph-built", f"{len(nodes)} functions, {sum(len(v) for v in graph.values())} call edges, {len(comps)} cycles")
