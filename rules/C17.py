"""C17 — ANSI fallback for coloured writes frames the data and reports true progress."""
import itertools

import hir
import hirpp
from core import AnchorMissing, Unrecognised, loc
from rules import anstyle_common as ac

META = {
    "explanation": (
        "Path enumeration of anstyle_wincon::ansi::write_colored: on every success path the sequence of effects on the stream is "
        "[fg present -> write_fmt(\"{}\", fg.render_fg())] -> [bg present -> write_fmt(\"{}\", bg.render_bg())] -> exactly one "
        "stream.write(data) with the caller's data unmodified -> [fg or bg present -> write_fmt(\"{}\", Reset.render())] -> "
        "Ok(n) with n the result of that write; nothing but the data is written when neither colour is given; every `?` "
        "propagates the writer's error. Sibling rule: every WinconStream impl compiled on this platform is a single "
        "delegation with (fg, bg, data) passed positionally to ansi::write_colored, (**self).write_colored or "
        "self.lock().write_colored. The rendered codes themselves are decided in C05."),
    "exhaustive": True,
}

MANIFEST = {
    "level": ("Complete static decision for non-console writers: the function is loop-free, so enumerating its structural paths "
              "and reading the ordered effects on the stream decides the framing, the no-colour case and the returned count for "
              "every input and every writer behaviour; the impl table closes the set of writers."),
    "note": "Trusted: rustc front end; the path enumerator and format_args decoder; C05 for the bytes of the codes. Not analysed: cfg(windows) console impls.",
    "technique": "static analysis: path enumeration with ordered effect sequences, format_args template decoding, sibling agreement over the WinconStream impls",
}

F = "anstyle_wincon::ansi::write_colored"


def classify_all(call):
    """Effects of a call on `stream`, in order (one write_fmt may render several codes)."""
    call = hir.simp(call)
    if call.get("k") != "call" or not call["args"] or not hir.is_local(call["args"][0], "stream"):
        return []
    if hir.callee_decl(call) == "std::io::Write::write":
        return [("DATA", hir.local_name(call["args"][1]))]
    if hir.callee_decl(call) == "std::io::Write::write_fmt":
        pieces, args = hir.fmt_template(call["args"][1])
        out = []
        for p in pieces:
            if isinstance(p, str):
                out.append(("TEXT", p))
                continue
            if len(p) > 3 or p[2] != "new_display" or p[1] >= len(args):
                out.append(("FMT?", str(p)))
                continue
            a = hir.simp(args[p[1]])
            if hir.is_call(a, "anstyle::color::AnsiColor::render_fg"):
                out.append(("FG", hir.local_name(a["args"][0])))
            elif hir.is_call(a, "anstyle::color::AnsiColor::render_bg"):
                out.append(("BG", hir.local_name(a["args"][0])))
            elif hir.is_call(a, "anstyle::reset::Reset::render"):
                out.append(("RESET", None))
            else:
                out.append(("FMT?", hirpp.expr(a)[:80]))
        return out
    return [("OTHER", hir.callee(call))]


def classify(call):
    c = classify_all(call)
    return c[0] if len(c) == 1 else (("MULTI", None) if c else None)


def run(ctx):
    rep, facts = ctx.report, ctx.facts
    rep.guarded("order", F, lambda: rule_order(facts, rep))
    rep.guarded("impls", "anstyle_wincon::stream::WinconStream", lambda: rule_impls(facts, rep))
    for r, n in (("order", 9), ("impls", 12)):
        rep.floor(r, n)


def rule_order(facts, rep):
    b = facts.body("anstyle_wincon", F)
    rep.fn(b["path"])
    names = [p.get("name") for p in b["params"]]
    rep.check(names == ["stream", "fg", "bg", "data"], "order", b["path"], "signature", f"{names}", loc(b))
    paths = hir.enumerate_paths(b["hir"])
    lets = {}
    for n in hir.walk(b["hir"]):
        if n.get("k") == "let" and n["pat"].get("k") == "pbind" and "init" in n:
            lets[n["pat"]["name"]] = n["init"]
    seen_cases = set()
    n_ok_paths = 0
    for p in paths:
        events = []
        for t in p.trace:
            if t[0] == "eval":
                for c in classify_all(t[1]):
                    events.append((c, t[1]))
        # which of fg/bg are present on this path
        flags = {}
        for t in p.trace:
            if t[0] == "cond":
                c = hir.simp(t[1])
                if c.get("k") == "letexpr" and hir.last_seg(hir.pat_path(c["pat"])) == "Some" and hir.local_name(c["init"]) in ("fg", "bg"):
                    flags[hir.local_name(c["init"])] = t[2]
        for fgs, bgs in itertools.product((False, True), repeat=2):
            if flags.get("fg", fgs) != fgs or flags.get("bg", bgs) != bgs:
                continue

            def av(node):
                node = hir.simp(node)
                if node.get("k") == "local" and node["name"] in lets:
                    return hir.bool_eval(lets[node["name"]], av)
                if hir.is_call(node, "Option::<T>::is_some") and hir.local_name(node["args"][0]) in ("fg", "bg"):
                    return {"fg": fgs, "bg": bgs}[hir.local_name(node["args"][0])]
                if node.get("k") == "letexpr":
                    return {"fg": fgs, "bg": bgs}[hir.local_name(node["init"])]
                return None

            feasible = all(hir.bool_eval(t[1], av) == t[2] for t in p.trace if t[0] == "cond")
            # `match (fg, bg) { (Some(fg), None) => .. }` form: the arm on this path must be the first one matching the case
            for t in p.trace:
                if t[0] == "arm":
                    sc = hir.simp(t[1])
                    names = [hir.local_name(x) for x in sc.get("es", [])] if sc.get("k") == "tuple" else [hir.local_name(sc)]
                    if not all(n in ("fg", "bg") for n in names):
                        continue
                    vals = [{"fg": fgs, "bg": bgs}[n] for n in names]

                    def pm(pat, vals=vals, tuple_=(sc.get("k") == "tuple")):
                        ps = pat.get("pats", []) if (tuple_ and pat.get("k") == "ptuple") else [pat]
                        if pat.get("k") in ("pwild", "pbind"):
                            return True
                        if len(ps) != len(vals):
                            return True
                        for q, v in zip(ps, vals):
                            seg = hir.last_seg(hir.pat_path(q)) if hir.pat_path(q) else None
                            if seg == "Some" and not v:
                                return False
                            if seg == "None" and v:
                                return False
                        return True
                    if not pm(t[2]) or any(pm(q) for q in t[3]):
                        feasible = False
            if not feasible:
                continue
            if p.exit == "ret-err":
                continue
            if p.exit != "value":
                rep.bad("order", b["path"], "unexpected-exit", f"path leaves by {p.exit}", loc(b))
                continue
            n_ok_paths += 1
            got = [e[0][0] for e in events]
            want = (["FG"] if fgs else []) + (["BG"] if bgs else []) + ["DATA"] + (["RESET"] if (fgs or bgs) else [])
            case = f"fg={'Some' if fgs else 'None'},bg={'Some' if bgs else 'None'}"
            seen_cases.add(case)
            rep.check(got == want, "order", b["path"], f"sequence[{case}]",
                      f"effects on the stream must be {want}; this path performs {got}", loc(b))
            # the codes render the colours they were given, the data is the caller's
            args_ok = all((k != "FG" or v == "fg") and (k != "BG" or v == "bg") and (k != "DATA" or v == "data") for (k, v), _ in events)
            # `if let Some(fg) = fg` rebinding keeps the name; make sure the binding comes from the like-named parameter
            rep.check(args_ok, "order", b["path"], f"arguments[{case}]", f"{[e[0] for e in events]}", loc(b))
            # returned count = result of the data write
            v = hir.simp(p.value) if p.value is not None else {}
            ok = v.get("ctor", "").endswith("Result::Ok") and hir.simp(v["args"][0]).get("k") == "local"
            if ok:
                src = lets.get(hir.simp(v["args"][0])["name"])
                inner = hir.try_inner(src) if src is not None else None
                ok = inner is not None and classify(inner) == ("DATA", "data")
            rep.check(ok, "order", b["path"], f"returns-count-of-data-write[{case}]", "Ok(n) with n = stream.write(data)?", loc(b))
    rep.check(seen_cases == {"fg=None,bg=None", "fg=Some,bg=None", "fg=None,bg=Some", "fg=Some,bg=Some"}, "order", b["path"], "four-colour-cases",
              f"{sorted(seen_cases)}", loc(b))
    # every fallible stream call is under `?`
    calls = [n for n in hir.walk(b["hir"]) if n.get("k") == "call" and classify(n) and classify(n)[0] in ("DATA", "FG", "BG", "RESET")]
    tried = [hir.simp(hir.try_inner(n)) for n in hir.walk(b["hir"]) if n.get("k") == "match" and n.get("src") == "TryDesugar"]
    rep.check(len(calls) == 4 and all(any(c is t for t in tried) for c in calls), "order", b["path"], "errors-propagate", "each stream call is followed by `?`", loc(b))


def rule_impls(facts, rep):
    impls = [i for i in facts.items("anstyle_wincon") if i["dk"] == "Impl" and i.get("trait") == "anstyle_wincon::stream::WinconStream"]
    seen = set()
    for i in impls:
        ty = i["self_ty"]
        seen.add(ty)
        path = [a["path"] for a in i["assoc"] if a["name"] == "write_colored"][0]
        rep.guarded("impls", path, lambda i=i, ty=ty, path=path: one_impl(facts, rep, ty, path))
    want = {"&mut T", "alloc::boxed::Box<T>", "(dyn std::io::Write + 'static)", "(dyn std::io::Write + core::marker::Send + 'static)",
            "(dyn std::io::Write + core::marker::Send + core::marker::Sync + 'static)", "std::fs::File", "alloc::vec::Vec<u8>",
            "std::io::stdio::Stdout", "std::io::stdio::Stderr", "std::io::stdio::StdoutLock<'_>", "std::io::stdio::StderrLock<'_>"}
    rep.check(seen == want, "impls", "anstyle_wincon::stream::WinconStream", "eleven-impls", f"{sorted(seen ^ want)}", "")


def one_impl(facts, rep, ty, path):
    if True:
        b = facts.body("anstyle_wincon", path)
        rep.fn(path)
        e = ac.single_expr(b["hir"])
        ok = e.get("k") == "call"
        kind = "?"
        if ok:
            rest = [hir.local_name(a) for a in e["args"][1:]]
            recv = hir.simp(e["args"][0])
            if hir.callee(e) == F or hir.is_call(e, F):
                kind = "ansi"
                ok = rest == ["fg", "bg", "data"] and hir.is_local(recv, "self")
            elif hir.callee_decl(e) == "anstyle_wincon::stream::WinconStream::write_colored":
                ok = rest == ["fg", "bg", "data"]
                if hir.is_call(recv, "lock") and hir.is_local(recv["args"][0], "self"):
                    kind = "lock"
                elif hir.is_local(hir.peel(recv), "self"):
                    kind = "deref"
                else:
                    ok = False
            else:
                ok = False
        want_kind = {"&mut T": "deref", "alloc::boxed::Box<T>": "deref", "std::io::stdio::Stdout": "lock", "std::io::stdio::Stderr": "lock"}.get(ty, "ansi")
        rep.check(ok and kind == want_kind, "impls", path, ty.replace(" ", "_"),
                  f"a single delegation ({want_kind}) passing (fg, bg, data) positionally; found {kind}: {hirpp.expr(e)[:100]}", loc(b))
