"""C17 — ANSI fallback for coloured writes frames the data and reports true progress."""
import itertools

import hir
import hirpp
from core import AnchorMissing, Unrecognised, loc
from rules import anstyle_common as ac

META = {
    "explanation": (
        "Path enumeration of anstyle_wincon::ansi::write_colored: on every success path the sequence of effects on the stream is "
        "[fg present -> write_fmt(\"{}\", fg.render_fg())] -> [bg present -> write_fmt(\"{}\", bg.render_bg())] -> exactly one "
        "stream.write(data) with the caller's data unmodified -> [fg or bg present -> write_fmt(\"{}\", Reset.render())] -> "
        "Ok(n) with n the result of that write; nothing but the data is written when neither colour is given; every `?` "
        "propagates the writer's error. Sibling rule: every WinconStream impl compiled on this platform is a single "
        "delegation with (fg, bg, data) passed positionally to ansi::write_colored, (**self).write_colored or "
        "self.lock().write_colored. The rendered codes themselves are decided in C05."),
    "exhaustive": True,
}

MANIFEST = {
    "level": ("Complete static decision for non-console writers: the function is loop-free, so enumerating its structural paths "
              "and reading the ordered effects on the stream decides the framing, the no-colour case and the returned count for "
              "every input and every writer behaviour; the impl table closes the set of writers."),
    "note": "Trusted: rustc front end; the path enumerator and format_args decoder; C05 for the bytes of the codes. Not analysed: cfg(windows) console impls.",
    "technique": "static analysis: path enumeration decided per colour case (path feasibility), ordered effect sequences, format_args template decoding with value flow, sibling agreement over the WinconStream impls with impl-to-impl delegation followed through resolved callees, linked 4-bit colour code tables by evaluation",
}

F = "anstyle_wincon::ansi::write_colored"


_RES = [None]


def classify_all(call):
    """Effects of a call on `stream`, in order (one write_fmt may render several codes)."""
    call = hir.simp(call)
    if call.get("k") != "call" or not call["args"] or not hir.is_local(call["args"][0], "stream"):
        return []
    if hir.callee_decl(call) == "std::io::Write::write":
        return [("DATA", hir.local_name(call["args"][1]))]
    if hir.callee_decl(call) == "std::io::Write::write_fmt":
        pieces, args = hir.fmt_template(call["args"][1])
        out = []
        for p in pieces:
            if isinstance(p, str):
                out.append(("TEXT", p))
                continue
            if len(p) > 3 or p[2] != "new_display" or p[1] >= len(args):
                out.append(("FMT?", str(p)))
                continue
            a = hir.simp(args[p[1]])
            if _RES[0] is not None:
                a = _RES[0].res(hir.peel(a))      # `let code = fg.render_fg(); write!(stream, "{code}")`
            if hir.is_call(a, "anstyle::color::AnsiColor::render_fg"):
                out.append(("FG", hir.local_name(a["args"][0])))
            elif hir.is_call(a, "anstyle::color::AnsiColor::render_bg"):
                out.append(("BG", hir.local_name(a["args"][0])))
            elif hir.is_call(a, "anstyle::reset::Reset::render"):
                out.append(("RESET", None))
            else:
                out.append(("FMT?", hirpp.expr(a)[:80]))
        return out
    return [("OTHER", hir.callee(call))]


def classify(call):
    c = classify_all(call)
    return c[0] if len(c) == 1 else (("MULTI", None) if c else None)


def run(ctx):
    rep, facts = ctx.report, ctx.facts
    rep.guarded("order", F, lambda: rule_order(facts, rep))
    rep.guarded("impls", "anstyle_wincon::stream::WinconStream", lambda: rule_impls(facts, rep))
    # "the colours requested": what render_fg / render_bg write for each of the sixteen colours is the SGR code of that colour
    # (the code tables live in anstyle and are C05's rule; this property depends on exactly the 4-bit part of it)
    from rules import C05
    import core
    codes = core.Filtered(rep, lambda rule, anchor, instance: "AnsiColor::as_" in str(anchor) or "AnsiColor::render_" in str(anchor))
    rep.guarded("ansi", "anstyle::color::AnsiColor", lambda: C05.rule_ansi(facts, codes))
    rep.guarded("reset", "anstyle::reset::RESET", lambda: rule_reset(facts, rep))
    for r, n in (("order", 9), ("impls", 12), ("ansi", 4), ("reset", 1)):
        rep.floor(r, n)


def rule_reset(facts, rep):
    r = facts.body("anstyle", "anstyle::reset::RESET")
    rep.check(hir.lit_val(ac.single_expr(r["hir"])) == "\x1b[0m", "reset", r["path"], "is-ESC[0m", "the reset written after the data is SGR 0", loc(r))
    rd = facts.body("anstyle", "<anstyle::reset::Reset as core::fmt::Display>::fmt")
    ok_, found_ = ac.reset_display_ok(facts)
    rep.check(ok_, "reset", rd["path"], "writes-RESET", f"Display for Reset writes ESC[0m verbatim, once, with no padding: {found_}", loc(rd))


def rule_order(facts, rep):
    b = facts.body("anstyle_wincon", F)
    rep.fn(b["path"])
    names = [p.get("name") for p in b["params"]]
    rep.check(names == ["stream", "fg", "bg", "data"], "order", b["path"], "signature", f"{names}", loc(b))
    pid = {p["name"]: p.get("id") for p in b["params"]}
    paths = hir.enumerate_paths(b["hir"])
    R = hir.Resolver(b["hir"])
    _RES[0] = R
    SOME, NONE = "core::option::Option::Some", "core::option::Option::None"
    seen_cases = set()
    for fgs, bgs in itertools.product((False, True), repeat=2):
        present = {pid["fg"]: fgs, pid["bg"]: bgs}

        def val(e, depth=0):
            e = hir.simp(e)
            k = e.get("k")
            if k == "local":
                if e.get("id") in present:
                    return ("enum", SOME if present[e["id"]] else NONE)
                init = R.res(e)
                if init is not e and depth < 5:
                    return val(init, depth + 1)
                return None
            if k == "tuple":
                vs = [val(x, depth + 1) for x in e["es"]]
                return None if any(v is None for v in vs) else ("tuple",) + tuple(vs)
            if k == "call" and hir.callee(e).split("::")[-1] in ("is_some", "is_none") and e.get("args"):
                v = val(e["args"][0], depth + 1)
                if v is not None and v[0] == "enum":
                    return ("bool", (v[1] == SOME) == (hir.callee(e).endswith("is_some")))
            if k == "lit" and e.get("t") == "bool":
                return ("bool", e["v"])
            if (k == "bin" and e.get("op") in ("And", "Or")) or (k == "un" and e.get("op") == "Not"):
                try:
                    def at(n):
                        v = val(n, depth + 1)
                        return v[1] if v is not None and v[0] == "bool" else None
                    return ("bool", hir.bool_eval(e, at))
                except Unrecognised:
                    return None
            if k == "match" and e.get("src") == "Normal" and all(hir.lit_val(a["body"]) in (True, False) for a in e["arms"]):
                v = val(e["scrut"], depth + 1)      # matches!(..)
                if v is not None:
                    for a in e["arms"]:
                        m = hir.pat_matches(a["pat"], v)
                        if m is None:
                            return None
                        if m:
                            return ("bool", hir.lit_val(a["body"]))
            return None
        case = f"fg={'Some' if fgs else 'None'},bg={'Some' if bgs else 'None'}"
        ok_paths = [p for p in paths if hir.path_feasible(p, val) and p.exit != "ret-err"]
        for p in ok_paths:
            if p.exit not in ("value", "ret"):
                rep.bad("order", b["path"], "unexpected-exit", f"path leaves by {p.exit}", loc(b))
                continue
            seen_cases.add(case)
            events = []
            for t in p.trace:
                if t[0] == "eval":
                    for c in classify_all(t[1]):
                        events.append((c, t[1]))
            got = [e[0][0] for e in events]
            want = (["FG"] if fgs else []) + (["BG"] if bgs else []) + ["DATA"] + (["RESET"] if (fgs or bgs) else [])
            rep.check(got == want, "order", b["path"], f"sequence[{case}]",
                      f"effects on the stream must be {want}; this path performs {got}", loc(b))
            args_ok = True
            O = hir.Origins(b["hir"])
            for (k, v), call in events:
                if k in ("FG", "BG"):
                    # the colour rendered is the like-named parameter (possibly re-bound by `if let Some(fg) = fg`)
                    pieces, fargs = hir.fmt_template(hir.simp(call)["args"][1])
                    srcs = []
                    for pc in pieces:
                        if not isinstance(pc, str):
                            a = R.res(hir.peel(fargs[pc[1]]))
                            if hir.is_call(a, "render_fg", "render_bg"):
                                o, pr = O.of(a["args"][0])
                                srcs.append((hir.callee(a).split("::")[-1], o.get("id") if o.get("k") == "local" else None))
                    want_src = ("render_fg", pid["fg"]) if k == "FG" else ("render_bg", pid["bg"])
                    args_ok = args_ok and want_src in srcs
                if k == "DATA":
                    args_ok = args_ok and v == "data"
            rep.check(args_ok, "order", b["path"], f"arguments[{case}]", f"{[e[0] for e in events]}", loc(b))
            # returned count = result of the data write: Ok(n) with n = stream.write(data)?, or stream.write(data) returned as is
            v = hir.simp(p.value) if p.value is not None else {}
            ok = False
            if v.get("k") == "call" and v.get("ctor", "").endswith("Result::Ok"):
                src, proj = O.of(v["args"][0])
                ok = classify(src) == ("DATA", "data") and proj in (("Ok",), ())
            elif classify(v) == ("DATA", "data"):
                ok = True
            rep.check(ok, "order", b["path"], f"returns-count-of-data-write[{case}]", "the result is the count accepted by stream.write(data)", loc(b))
    rep.check(seen_cases == {"fg=None,bg=None", "fg=Some,bg=None", "fg=None,bg=Some", "fg=Some,bg=Some"}, "order", b["path"], "four-colour-cases",
              f"{sorted(seen_cases)}", loc(b))
    # every fallible stream call is under `?` or is the returned value itself
    calls = [n for n in hir.walk(b["hir"]) if n.get("k") == "call" and classify_all(n) and all(c[0] in ("DATA", "FG", "BG", "RESET") for c in classify_all(n))]
    tried = [hir.simp(hir.try_inner(n)) for n in hir.walk(b["hir"]) if n.get("k") == "match" and n.get("src") == "TryDesugar"]
    returned = [hir.simp(n["e"]) for n in hir.walk(b["hir"]) if n.get("k") == "ret" and "e" in n] + [hir.simp(hir.stmts_of(b["hir"])[-1])]
    rep.check(len(calls) >= 4 and all(any(c is t for t in tried + returned) for c in calls), "order", b["path"], "errors-propagate",
              "each stream call is followed by `?` (or is the function's result)", loc(b))


def rule_impls(facts, rep):
    impls = [i for i in facts.items("anstyle_wincon") if i["dk"] == "Impl" and i.get("trait") == "anstyle_wincon::stream::WinconStream"]
    seen = set()
    for i in impls:
        ty = i["self_ty"]
        seen.add(ty)
        path = [a["path"] for a in i["assoc"] if a["name"] == "write_colored"][0]
        rep.guarded("impls", path, lambda i=i, ty=ty, path=path: one_impl(facts, rep, ty, path))
    want = {"&mut T", "alloc::boxed::Box<T>", "(dyn std::io::Write + 'static)", "(dyn std::io::Write + core::marker::Send + 'static)",
            "(dyn std::io::Write + core::marker::Send + core::marker::Sync + 'static)", "std::fs::File", "alloc::vec::Vec<u8>",
            "std::io::stdio::Stdout", "std::io::stdio::Stderr", "std::io::stdio::StdoutLock<'_>", "std::io::stdio::StderrLock<'_>"}
    rep.check(seen == want, "impls", "anstyle_wincon::stream::WinconStream", "eleven-impls", f"{sorted(seen ^ want)}", "")


def one_impl(facts, rep, ty, path):
    if True:
        b = facts.body("anstyle_wincon", path)
        rep.fn(path)
        e = ac.single_expr(b["hir"])
        ok = e.get("k") == "call"
        kind = "?"
        if ok:
            rest = [hir.local_name(a) for a in e["args"][1:]]
            recv = hir.simp(e["args"][0])
            if hir.callee(e) == F or hir.is_call(e, F):
                kind = "ansi"
                ok = rest == ["fg", "bg", "data"] and hir.is_local(recv, "self")
            elif hir.callee_decl(e) == "anstyle_wincon::stream::WinconStream::write_colored":
                ok = rest == ["fg", "bg", "data"]
                if hir.is_call(recv, "lock") and hir.is_local(recv["args"][0], "self"):
                    kind = "lock"
                elif hir.is_local(hir.peel(recv), "self"):
                    kind = "deref"
                else:
                    ok = False
            else:
                ok = False
        want_kind = {"&mut T": "deref", "alloc::boxed::Box<T>": "deref", "std::io::stdio::Stdout": "lock", "std::io::stdio::Stderr": "lock"}.get(ty, "ansi")
        if ok and kind == "deref" and want_kind == "ansi":
            # delegation to another impl of the trait on (a coercion of) self is the ANSI fallback when that impl is: followed through
            # the resolved callee, without cycles
            seen, cur = {path}, e
            for _ in range(3):
                target = cur.get("resolved") or ""
                if not target.endswith("WinconStream>::write_colored") or target in seen:
                    break
                seen.add(target)
                tb = facts.body("anstyle_wincon", target)
                te = ac.single_expr(tb["hir"])
                if te.get("k") == "call" and (hir.callee(te) == F or hir.is_call(te, F)) and hir.is_local(hir.simp(te["args"][0]), "self") \
                        and [hir.local_name(a) for a in te["args"][1:]] == ["fg", "bg", "data"]:
                    kind = "ansi"
                    break
                if not (te.get("k") == "call" and hir.callee_decl(te) == "anstyle_wincon::stream::WinconStream::write_colored"
                        and hir.is_local(hir.peel(hir.simp(te["args"][0])), "self")):
                    break
                cur = te
        rep.check(ok and kind == want_kind, "impls", path, ty.replace(" ", "_"),
                  f"a single delegation ({want_kind}) passing (fg, bg, data) positionally; found {kind}: {hirpp.expr(e)[:100]}", loc(b))
