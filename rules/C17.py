"""C17 — ANSI fallback for coloured writes frames the data and reports true progress."""
import itertools

import hir
import hirpp
from core import AnchorMissing, Unrecognised, loc
from rules import anstyle_common as ac

META = {
    "explanation": (
        "Path enumeration of anstyle_wincon::ansi::write_colored: on every success path the sequence of effects on the stream is "
        "[fg present -> write_fmt(\"{}\", fg.render_fg())] -> [bg present -> write_fmt(\"{}\", bg.render_bg())] -> exactly one "
        "stream.write(data) with the caller's data unmodified -> [fg or bg present -> write_fmt(\"{}\", Reset.render())] -> "
        "Ok(n) with n the result of that write; nothing but the data is written when neither colour is given; every `?` "
        "propagates the writer's error. Sibling rule: every WinconStream impl compiled on this platform is a single "
        "delegation with (fg, bg, data) passed positionally to ansi::write_colored, (**self).write_colored or "
        "self.lock().write_colored. The rendered codes themselves are decided in C05."),
    "exhaustive": True,
}

MANIFEST = {
    "level": ("Complete static decision for non-console writers: the function is loop-free, so enumerating its structural paths "
              "and reading the ordered effects on the stream decides the framing, the no-colour case and the returned count for "
              "every input and every writer behaviour; the impl table closes the set of writers."),
    "note": "Trusted: rustc front end; the path enumerator and format_args decoder; C05 for the bytes of the codes. Not analysed: cfg(windows) console impls.",
    "technique": "static analysis: path enumeration decided per colour case (path feasibility), ordered effect sequences, format_args template decoding with value flow, sibling agreement over the WinconStream impls with impl-to-impl delegation followed through resolved callees, linked 4-bit colour code tables by evaluation",
}

F = "anstyle_wincon::ansi::write_colored"


_RES = [None]


def classify_all(call):
    """Effects of a call on `stream`, in order (one write_fmt may render several codes)."""
    call = hir.simp(call)
    if call.get("k") != "call" or not call["args"] or not hir.is_local(call["args"][0], "stream"):
        return []
    if hir.callee_decl(call) == "std::io::Write::write":
        return [("DATA", hir.local_name(call["args"][1]))]
    if hir.callee_decl(call) == "std::io::Write::write_fmt":
        pieces, args = hir.fmt_template(call["args"][1])
        out = []
        for p in pieces:
            if isinstance(p, str):
                out.append(("TEXT", p))
                continue
            if len(p) > 3 or p[2] != "new_display" or p[1] >= len(args):
                out.append(("FMT?", str(p)))
                continue
            a = hir.simp(args[p[1]])
            if _RES[0] is not None:
                a = _RES[0].res(hir.peel(a))      # `let code = fg.render_fg(); write!(stream, "{code}")`
            if hir.is_call(a, "anstyle::color::AnsiColor::render_fg"):
                out.append(("FG", hir.local_name(a["args"][0])))
            elif hir.is_call(a, "anstyle::color::AnsiColor::render_bg"):
                out.append(("BG", hir.local_name(a["args"][0])))
            elif hir.is_call(a, "anstyle::reset::Reset::render"):
                out.append(("RESET", None))
            else:
                out.append(("FMT?", hirpp.expr(a)[:80]))
        return out
    return [("OTHER", hir.callee(call))]


def classify(call):
    c = classify_all(call)
    return c[0] if len(c) == 1 else (("MULTI", None) if c else None)


def run(ctx):
    rep, facts = ctx.report, ctx.facts
    rep.guarded("order", F, lambda: rule_order(facts, rep))
    rep.guarded("impls", "anstyle_wincon::stream::WinconStream", lambda: rule_impls(facts, rep))
    # "the colours requested": what render_fg / render_bg write for each of the sixteen colours is the SGR code of that colour
    # (the code tables live in anstyle and are C05's rule; this property depends on exactly the 4-bit part of it)
    from rules import C05
    import core
    codes = core.Filtered(rep, lambda rule, anchor, instance: "AnsiColor::as_" in str(anchor) or "AnsiColor::render_" in str(anchor))
    rep.guarded("ansi", "anstyle::color::AnsiColor", lambda: C05.rule_ansi(facts, codes))
    rep.guarded("reset", "anstyle::reset::RESET", lambda: rule_reset(facts, rep))
    for r, n in (("order", 9), ("impls", 12), ("ansi", 4), ("reset", 1)):
        rep.floor(r, n)


def rule_reset(facts, rep):
    r = facts.body("anstyle", "anstyle::reset::RESET")
    rep.check(hir.lit_val(ac.single_expr(r["hir"])) == "\x1b[0m", "reset", r["path"], "is-ESC[0m", "the reset written after the data is SGR 0", loc(r))
    rd = facts.body("anstyle", "<anstyle::reset::Reset as core::fmt::Display>::fmt")
    ok_, found_ = ac.reset_display_ok(facts)
    rep.check(ok_, "reset", rd["path"], "writes-RESET", f"Display for Reset writes ESC[0m verbatim, once, with no padding: {found_}", loc(rd))


def rule_order(facts, rep):
    """write_colored by abstract evaluation, per colour case and per failing stream call: the calls made on the stream, in order and
    with what they write, the value returned, and that the first error ends the call at once.  `write!(stream, "{}", x.render())`,
    `let x = x.map(render); write!(stream, "{x}")`, explicit matches instead of `?` all evaluate alike."""
    import abseval
    b = facts.body("anstyle_wincon", F)
    rep.fn(b["path"])
    names = [p.get("name") for p in b["params"]]
    rep.check(names == ["stream", "fg", "bg", "data"], "order", b["path"], "signature", f"{names}", loc(b))
    ONE_PLACEHOLDER = ("bytes", (0xc0, 0x00))        # format_args!("{}", x): one argument, default formatting, no literal text
    seen_cases = set()
    n_paths = 0
    all_ok_errors = True
    for fgs, bgs in itertools.product((False, True), repeat=2):
        case = f"fg={'Some' if fgs else 'None'},bg={'Some' if bgs else 'None'}"

        def run(choices, fgs=fgs, bgs=bgs):
            events = []

            def stream_call(kind):
                def f_(a_):
                    i = len(events)
                    events.append((kind, a_[1]))
                    if ev.oracle(("call-ok", i)):
                        return ("ok", ("sym", f"count-{i}") if kind == "data" else ("unit",))
                    return ("err", ("sym", f"error-{i}"))
                return f_
            atoms = {"std::io::Write::write_fmt": stream_call("fmt"), "std::io::Write::write": stream_call("data"),
                     "std::io::Write::write_all": stream_call("write_all"),
                     "core::fmt::rt::Argument::<'_>::new_display": lambda a_: ("display", a_[0]),
                     "core::fmt::Arguments::<'a>::new": lambda a_: ("format", a_[0], a_[1]),
                     "anstyle::color::AnsiColor::render_fg": lambda a_: ("render_fg", a_[0]),
                     "anstyle::color::AnsiColor::render_bg": lambda a_: ("render_bg", a_[0])}
            # (Reset::render is evaluated: in anstyle it hands `self` back, so `Reset.render()` and `Reset` display alike)
            ev = abseval.Evaluator(facts, "anstyle_wincon", atoms, inline_crates=("anstyle_wincon", "anstyle"))
            ev.choices = choices
            r = ev.call_fn("anstyle_wincon", b["path"], [("sym", "stream"), ("some", ("sym", "FG")) if fgs else ("none",),
                                                         ("some", ("sym", "BG")) if bgs else ("none",), ("sym", "data")])
            return events, r
        want = ([("fmt", ("format", ONE_PLACEHOLDER, ("array", ("display", ("render_fg", ("sym", "FG"))))))] if fgs else []) + \
               ([("fmt", ("format", ONE_PLACEHOLDER, ("array", ("display", ("render_bg", ("sym", "BG"))))))] if bgs else [])
        data_at = len(want)
        want = want + [("data", ("sym", "data"))] + ([("fmt", ("format", ONE_PLACEHOLDER, ("array", ("display", ("enum", "anstyle::reset::Reset")))))] if (fgs or bgs) else [])
        try:
            results = abseval.explore(run)
        except Unrecognised as ex:
            rep.bad("order", b["path"], "unrecognised-idiom", f"unrecognised-idiom: {ex}", loc(b))
            continue
        seen_cases.add(case)
        seq_ok = args_ok = ret_ok = True
        why = ""
        covered = set()
        for choices, (events, r) in results:
            n_paths += 1
            failing = sorted(k[1] for k, v in choices.items() if k[0] == "call-ok" and not v)
            upto = (failing[0] + 1) if failing else len(want)
            covered.add(failing[0] if failing else None)
            kinds_got, kinds_want = [e_[0] for e_ in events], [e_[0] for e_ in want[:upto]]
            if kinds_got != kinds_want:
                seq_ok, why = False, f"failing call {failing[:1]}: stream calls {kinds_got}, expected {kinds_want}"
            elif events != want[:upto]:
                args_ok, why = False, f"stream calls carry {events}, expected {want[:upto]}"
            want_r = ("err", ("sym", f"error-{failing[0]}")) if failing else ("ok", ("sym", f"count-{data_at}"))
            if r != want_r:
                if failing:
                    all_ok_errors = False
                ret_ok, why = False, f"failing call {failing[:1]}: returns {r}, expected {want_r}"
        if covered != set([None] + list(range(len(want)))):
            seq_ok, why = False, f"cases reached {sorted(covered, key=str)}: not every stream call can fail on its own"
        effects = [{"fmt": None, "data": "DATA"}[k] or "?" for k, _ in want]
        rep.check(seq_ok, "order", b["path"], f"sequence[{case}]", f"effects on the stream: colour codes requested, data, reset iff a colour was set; the first error ends the call {why}"[:400], loc(b))
        rep.check(args_ok, "order", b["path"], f"arguments[{case}]", f"each formatted write is exactly one `{{}}` of render_fg(fg) / render_bg(bg) / Reset.render(), the data write gets `data` {why}"[:400], loc(b))
        rep.check(ret_ok, "order", b["path"], f"returns-count-of-data-write[{case}]", f"the result is the count accepted by stream.write(data) {why}"[:400], loc(b))
    rep.count(n_paths)
    rep.check(seen_cases == {"fg=None,bg=None", "fg=Some,bg=None", "fg=None,bg=Some", "fg=Some,bg=Some"}, "order", b["path"], "four-colour-cases",
              f"{sorted(seen_cases)}", loc(b))
    rep.check(all_ok_errors and n_paths >= 13, "order", b["path"], "errors-propagate", f"every error of a stream call is returned as it is ({n_paths} paths evaluated)", loc(b))


def rule_impls(facts, rep):
    impls = [i for i in facts.items("anstyle_wincon") if i["dk"] == "Impl" and i.get("trait") == "anstyle_wincon::stream::WinconStream"]
    seen = set()
    for i in impls:
        ty = i["self_ty"]
        seen.add(ty)
        path = [a["path"] for a in i["assoc"] if a["name"] == "write_colored"][0]
        rep.guarded("impls", path, lambda i=i, ty=ty, path=path: one_impl(facts, rep, ty, path))
    want = {"&mut T", "alloc::boxed::Box<T>", "(dyn std::io::Write + 'static)", "(dyn std::io::Write + core::marker::Send + 'static)",
            "(dyn std::io::Write + core::marker::Send + core::marker::Sync + 'static)", "std::fs::File", "alloc::vec::Vec<u8>",
            "std::io::stdio::Stdout", "std::io::stdio::Stderr", "std::io::stdio::StdoutLock<'_>", "std::io::stdio::StderrLock<'_>"}
    rep.check(seen == want, "impls", "anstyle_wincon::stream::WinconStream", "eleven-impls", f"{sorted(seen ^ want)}", "")


def one_impl(facts, rep, ty, path):
    if True:
        b = facts.body("anstyle_wincon", path)
        rep.fn(path)
        e = ac.single_expr(b["hir"])
        ok = e.get("k") == "call"
        kind = "?"
        if ok:
            rest = [hir.local_name(a) for a in e["args"][1:]]
            recv = hir.simp(e["args"][0])
            if hir.callee(e) == F or hir.is_call(e, F):
                kind = "ansi"
                ok = rest == ["fg", "bg", "data"] and hir.is_local(recv, "self")
            elif hir.callee_decl(e) == "anstyle_wincon::stream::WinconStream::write_colored":
                ok = rest == ["fg", "bg", "data"]
                if hir.is_call(recv, "lock") and hir.is_local(recv["args"][0], "self"):
                    kind = "lock"
                elif hir.is_local(hir.peel(recv), "self"):
                    kind = "deref"
                else:
                    ok = False
            else:
                ok = False
        want_kind = {"&mut T": "deref", "alloc::boxed::Box<T>": "deref", "std::io::stdio::Stdout": "lock", "std::io::stdio::Stderr": "lock"}.get(ty, "ansi")
        if ok and kind == "deref" and want_kind == "ansi":
            # delegation to another impl of the trait on (a coercion of) self is the ANSI fallback when that impl is: followed through
            # the resolved callee, without cycles
            seen, cur = {path}, e
            for _ in range(3):
                target = cur.get("resolved") or ""
                if not target.endswith("WinconStream>::write_colored") or target in seen:
                    break
                seen.add(target)
                tb = facts.body("anstyle_wincon", target)
                te = ac.single_expr(tb["hir"])
                if te.get("k") == "call" and (hir.callee(te) == F or hir.is_call(te, F)) and hir.is_local(hir.simp(te["args"][0]), "self") \
                        and [hir.local_name(a) for a in te["args"][1:]] == ["fg", "bg", "data"]:
                    kind = "ansi"
                    break
                if not (te.get("k") == "call" and hir.callee_decl(te) == "anstyle_wincon::stream::WinconStream::write_colored"
                        and hir.is_local(hir.peel(hir.simp(te["args"][0])), "self")):
                    break
                cur = te
        rep.check(ok and kind == want_kind, "impls", path, ty.replace(" ", "_"),
                  f"a single delegation ({want_kind}) passing (fg, bg, data) positionally; found {kind}: {hirpp.expr(e)[:100]}", loc(b))
