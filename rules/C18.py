"""C18 — the legacy-console stream hands over each text run once with 16-colour fg/bg (structural part).

anstream/src/wincon.rs is compiled only on Windows; it is analysed here through the harness crate, which mounts the
file by #[path] with shim `stream`/`adapter` modules (see /verif/harness/src/lib.rs)."""
import hir
import hirpp
from core import AnchorMissing, Unrecognised, loc
from rules import anstyle_common as ac
from rules import stripstream

META = {
    "explanation": (
        "Static decision on the mounted anstream/src/wincon.rs: cap_wincon_color is the table Ansi(c)->Some(c), "
        "Ansi256(c)->c.into_ansi(), Rgb->None (indices 0-15 map to their palette colour through C13's into_ansi table, everything "
        "else falls back to the default); in write and write_all each run's fg comes from get_fg_color and bg from get_bg_color, "
        "both capped, and are passed positionally as (fg, bg, bytes) with bytes derived only from the String yielded by "
        "WinconBytes::extract_next (never the raw input); write_all loops until the run is empty, maps Ok(0) to WriteZero, "
        "retries Interrupted and returns every other error; write propagates the console error with `?`; write_fmt goes through "
        "fmt::Adapter (error kept); the consumed-count rule — no path from a short console write to Ok(buf.len()) — fires on the "
        "documented HACK and is a recorded finding. Run contents are C07's subject; the real console API is out of scope."
        " Linked rules: the VT parser underneath (C02's table / order / action-map / guards / reset / limits / params rules, all but the OSC payload rule) is evaluated in this check too — a run is only right if every complete SGR sequence is dispatched with its parameters."
        " The palette tables of C13 (Ansi256Color::into_ansi, which cap_wincon_color narrows through) and the extractor rules of C07 are linked the same way."),
}

MANIFEST = {
    "level": ("Sound static decision of the colour-capping table, the per-run argument wiring, the retry loop's arms and the "
              "error plumbing for every input and chunking; plus one recorded violation of the consumed-count clause. The file is "
              "Windows-only, so no test on this platform compiles it at all: mounting it into a harness crate is the only way to "
              "put it in front of the type checker here."),
    "note": ("Trusted: rustc front end; the shim traits of the harness (same shape as anstream::stream's, with the WinconStream "
             "bound the Windows build has). Not decided: contents of the runs (C07), the console API. Known finding: "
             "WinconStream::write reports the whole buffer consumed after a short console write (documented HACK, D10)."),
    "technique": "static analysis via #[path]-mounted harness: match-table extraction, argument-wiring dataflow, write_all loop by case-split evaluation, result-position rule for write_vectored, structural path rule for the consumed count",
}

H = "verif_harness::wincon::"


def run(ctx):
    rep, facts = ctx.report, ctx.facts
    rep.guarded("cap-table", H + "cap_wincon_color", lambda: rule_cap(facts, rep))
    for fn in ("write", "write_all"):
        rep.guarded("wiring", H + fn, lambda fn=fn: rule_wiring(facts, rep, fn))
    rep.guarded("write_all-loop", H + "write_all", lambda: rule_write_all(facts, rep))
    rep.guarded("consumed-count", H + "write", lambda: rule_consumed(facts, rep))
    rep.guarded("errors", H, lambda: rule_errors(facts, rep))
    rep.guarded("vectored", H, lambda: rule_vectored(facts, rep))
    # the colours handed to the console are those of the extracted runs: the extractor's SGR rules are part of this property's
    # chain (same rules as C07, evaluated here as well)
    from rules import links
    links.extractor(facts, rep)
    links.parser_under_sgr(facts, rep)
    links.palette_tables(facts, rep)     # cap_wincon_color narrows Ansi256 through Ansi256Color::into_ansi
    for r, n in (("cap-table", 3), ("wiring", 10), ("write_all-loop", 5), ("consumed-count", 1), ("errors", 3), ("vectored", 1), ("W4", 6)):
        rep.floor(r, n)


def rule_cap(facts, rep):
    b = facts.body("verif_harness", H + "cap_wincon_color")
    rep.fn(b["path"])
    m = ac.single_expr(b["hir"])
    for a in m["arms"]:
        v = hir.last_seg(hir.pat_path(a["pat"]))
        bound = a["pat"]["pats"][0].get("name") if a["pat"].get("pats") else None
        e = ac.single_expr(a["body"])
        if v == "Ansi":
            ok = e.get("ctor", "").endswith("Option::Some") and hir.is_local(e["args"][0], bound)
            why = "a 16-colour value is passed on as it is"
        elif v == "Ansi256":
            ok = hir.is_call(e, "anstyle::color::Ansi256Color::into_ansi") and hir.is_local(e["args"][0], bound)
            why = "a 256-colour index is reduced with into_ansi (0-15 → palette colour, else None)"
        elif v == "Rgb":
            ok = hir.is_def(e, "Option::None")
            why = "RGB falls back to the default colour"
        else:
            ok, why = False, "unexpected arm"
        rep.check(ok, "cap-table", b["path"], v, f"{why}; found {hirpp.expr(e)[:80]}", loc(b, a))


def run_loop(b):
    loops = [l for l in (hir.for_loop(n) for n in hir.walk(b["hir"]) if n.get("k") == "match" and n.get("src") == "ForLoopDesugar") if l]
    if len(loops) != 1:
        raise AnchorMissing("one for loop over extract_next expected")
    pat, it, body = loops[0]
    if not (hir.is_call(it, "anstream::adapter::wincon::WinconBytes::extract_next") and hir.is_local(it["args"][0], "state") and hir.is_local(it["args"][1], "buf")):
        raise Unrecognised("loop is not `for (style, printable) in state.extract_next(buf)`")
    if pat.get("k") != "ptuple" or len(pat["pats"]) != 2:
        raise Unrecognised("loop pattern")
    return pat["pats"][0].get("name"), pat["pats"][1].get("name"), body


def rule_wiring(facts, rep, fn):
    b = facts.body("verif_harness", H + fn)
    rep.fn(b["path"])
    style, text, body = run_loop(b)
    lets = {n["pat"]["name"]: n["init"] for n in hir.walk(body) if n.get("k") == "let" and n["pat"].get("k") == "pbind" and "init" in n}
    for slot, getter in (("fg", "get_fg_color"), ("bg", "get_bg_color")):
        e = hir.simp(lets.get(slot, {}))
        ok = hir.is_call(e, "Option::<T>::and_then") and hir.is_call(hir.simp(e["args"][0]), "anstyle::style::Style::" + getter) and \
            hir.is_local(hir.simp(e["args"][0])["args"][0], style) and hir.def_path(e["args"][1]) == H + "cap_wincon_color"
        rep.check(ok, "wiring", b["path"], f"{slot}=cap({getter}(style))", f"{hirpp.expr(e)[:100]}", loc(b))
    calls = [n for n in hir.walk(body) if n.get("k") == "call" and hir.callee_decl(n) == "anstyle_wincon::stream::WinconStream::write_colored"]
    rep.check(len(calls) == 1 and hir.is_local(calls[0]["args"][0], "raw") and [hir.local_name(a) for a in calls[0]["args"][1:3]] == ["fg", "bg"],
              "wiring", b["path"], "write_colored(raw,fg,bg,..)", "colours passed positionally, foreground first", loc(b))
    # the data: as_bytes(printable), possibly through a local that is only ever re-sliced from itself
    ok = False
    if calls:
        d = hir.simp(calls[0]["args"][3])
        if hir.is_call(d, "String::as_bytes") and hir.is_local(d["args"][0], text):
            ok = True
        elif d.get("k") == "local":
            name = d["name"]
            init = hir.simp(lets.get(name, {}))
            ok = hir.is_call(init, "String::as_bytes") and hir.is_local(init["args"][0], text)
            for n in hir.walk(body):
                if n.get("k") == "assign" and hir.is_local(n["l"], name):
                    r = hir.peel(n["r"])
                    ok = ok and r.get("k") == "index" and hir.is_local(r["e"], name)
    rep.check(ok, "wiring", b["path"], "data-is-the-extracted-run", "only text yielded by WinconBytes reaches the console writer (never the raw input)", loc(b))
    # no other use of the raw input than extract_next and len()
    uses = [n for n in hir.walk(b["hir"]) if n.get("k") == "call" and any(hir.is_local(a, "buf") and hir.simp(a).get("k") == "local" for a in n["args"])
            and not any(x is n for x in hir.walk(body))]
    names = sorted({hir.callee(n).split("::")[-1] for n in uses})
    rep.check(set(names) <= {"extract_next", "len"}, "wiring", b["path"], "raw-input-only-parsed", f"{names}", loc(b))
    one_loop = len([n for n in hir.walk(b["hir"]) if hir.is_call(n, "anstream::adapter::wincon::WinconBytes::extract_next")]) == 1
    rep.check(one_loop, "wiring", b["path"], "each-run-visited-once", "a single pass over extract_next(buf)", loc(b))


def rule_write_all(facts, rep):
    """The delivery loop of write_all, by abstract evaluation with the console's answers as case splits: for one run of three bytes,
    every sequence of answers (accepts everything / accepts one byte / accepts nothing / is interrupted / fails) up to four calls is
    followed; the bytes offered next are always exactly the ones not yet accepted, an interrupted call is repeated, `Ok(0)` ends in
    WriteZero, any other error is returned as it is, and the call succeeds when everything was accepted."""
    import abseval
    b = facts.body("verif_harness", H + "write_all")
    rep.fn(b["path"])
    DATA = "abc"
    style = ("rec", {"fg": ("some", ("ctor", "anstyle::color::Color::Ansi", ("enum", "anstyle::color::AnsiColor::Red"))), "bg": ("none",),
                     "underline": ("none",), "effects": ("ctor", "anstyle::effect::Effects", ("int", 0))})

    def run(choices):
        calls = []

        def console(a_):
            i = len(calls)
            calls.append((a_[1], a_[2], a_[3]))
            left = a_[3][1] if a_[3][0] == "str" else ""
            if i >= 3 or ev.oracle(("full", i)):
                return ("ok", ("int", len(left)))
            if ev.oracle(("one-byte", i)):
                return ("ok", ("int", min(1, len(left))))
            if ev.oracle(("zero", i)):
                return ("ok", ("int", 0))
            if ev.oracle(("interrupted", i)):
                return ("err", ("ioerr", "Interrupted", i))
            return ("err", ("ioerr", "Other", i))
        atoms = {"anstream::adapter::wincon::WinconBytes::extract_next": lambda a_: ("array", ("tuple", style, ("str", DATA))),
                 "anstyle_wincon::stream::WinconStream::write_colored": console,
                 "std::io::error::Error::kind": lambda a_: ("enum", "core::io::error::ErrorKind::" + (a_[0][1] if a_[0][0] == "ioerr" else "Other")),
                 "std::io::error::Error::new": lambda a_: ("ioerr-new", a_[0]),
                 "alloc::string::String::as_bytes": lambda a_: a_[0], "core::str::<impl str>::as_bytes": lambda a_: a_[0],
                 "core::slice::<impl [T]>::is_empty": lambda a_: ("bool", a_[0] == ("str", ""))}
        ev = abseval.Evaluator(facts, "verif_harness", atoms, inline_crates=("anstyle",))
        ev.concrete_strings = True
        ev.choices = choices
        r = ev.call_fn("verif_harness", b["path"], [("sym", "raw"), ("sym", "state"), ("sym", "buf")])
        return calls, r
    bad = {"until-run-empty": [], "Ok(0)→WriteZero": [], "Ok(n)→advance-by-n": [], "Interrupted→retry": [], "other-errors-returned": [], "Ok-after-all-runs": []}
    n_paths = 0
    try:
        results = abseval.explore(run)
    except Unrecognised as ex:
        results = []
        for k in bad:
            bad[k].append(f"not evaluable: {ex}")
    for choices, (calls, r) in results:
        n_paths += 1
        delivered = 0
        outcome = None
        for i, (fg, bg, offered) in enumerate(calls):
            if offered != ("str", DATA[delivered:]) or fg != ("some", ("enum", "anstyle::color::AnsiColor::Red")) or bg != ("none",):
                bad["Ok(n)→advance-by-n"].append(f"call {i} offers {offered} with {fg}/{bg}; {delivered} bytes were accepted before")
                break
            if i >= 3 or choices.get(("full", i)):
                delivered = len(DATA)
            elif choices.get(("one-byte", i)):
                delivered += 1
            elif choices.get(("zero", i)):
                outcome = "zero"
                break
            elif choices.get(("interrupted", i)):
                continue
            else:
                outcome = ("err", ("ioerr", "Other", i))
                break
        if outcome == "zero":
            if not (r[0] == "err" and r[1][0] == "ioerr-new" and str(r[1][1]).find("WriteZero") >= 0) or len(calls) != i + 1:
                bad["Ok(0)→WriteZero"].append(f"after Ok(0): returns {r}, {len(calls)} calls")
        elif outcome is not None:
            if r != outcome or len(calls) != i + 1:
                bad["other-errors-returned"].append(f"console error at call {i}: returns {r} after {len(calls)} calls")
        else:
            if delivered != len(DATA):
                bad["until-run-empty"].append(f"stops after {delivered} of {len(DATA)} bytes: returns {r}")
            elif r != ("ok", ("unit",)):
                bad["Ok-after-all-runs"].append(f"everything accepted but returns {r}")
            if any(choices.get(("interrupted", j)) and not choices.get(("full", j)) and not choices.get(("one-byte", j)) and not choices.get(("zero", j))
                   for j in range(len(calls))) and delivered != len(DATA):
                bad["Interrupted→retry"].append("an interrupted call was not repeated")
    rep.count(n_paths)
    for key, v in bad.items():
        rep.check(not v and n_paths >= 20, "write_all-loop", b["path"], key, f"{n_paths} console behaviours evaluated {v[:1]}"[:400], loc(b))


def rule_consumed(facts, rep):
    b = facts.body("verif_harness", H + "write")
    style, text, body = run_loop(b)
    lets = {n["pat"]["name"]: n["init"] for n in hir.walk(body) if n.get("k") == "let" and n["pat"].get("k") == "pbind" and "init" in n}
    # a short console write that leaves the loop without an error …
    shorts = []
    for n, frames in hir.visit_with_conds(body, lambda x: x.get("k") == "break"):
        for f in frames:
            if f.get("kind") == "if" and f["val"]:
                c = hir.simp(f["expr"])
                if c.get("k") == "bin" and c["op"] == "Ne":
                    names = {hir.local_name(c["l"]), hir.local_name(c["r"])}
                    if all(x in lets for x in names):
                        inits = [hir.simp(lets[x]) for x in names]
                        is_len = any(hir.is_call(i, "String::len", "len") for i in inits)
                        is_written = any(hir.try_inner(i) is not None for i in inits)
                        if is_len and is_written:
                            shorts.append(n)
    # … followed by Ok(buf.len())
    tail = hir.simp(hir.stmts_of(b["hir"])[-1])
    whole = tail.get("ctor", "").endswith("Result::Ok") and hir.is_call(hir.simp(tail["args"][0]), "len") and hir.is_local(hir.simp(tail["args"][0])["args"][0], "buf")
    if shorts and whole:
        rep.bad("consumed-count", b["path"], "short-write-reports-whole-buffer",
                "a short console write (possible != written) leaves the loop with `break` and the function still returns "
                "Ok(buf.len()): the buffer is reported consumed although part of its text was not handed over", loc(b, shorts[0]))
    else:
        rep.ok("consumed-count", b["path"], "short-write-reports-whole-buffer", "no path from a short write to Ok(buf.len())", loc(b))


def rule_errors(facts, rep):
    b = facts.body("verif_harness", H + "write")
    tries = [hir.simp(hir.try_inner(n)) for n in hir.walk(b["hir"]) if n.get("k") == "match" and n.get("src") == "TryDesugar"]
    ok = len(tries) == 1 and hir.callee_decl(tries[0]) == "anstyle_wincon::stream::WinconStream::write_colored"
    rep.check(ok, "errors", b["path"], "console-error-propagated", "raw.write_colored(..)?", loc(b))
    f = facts.body("verif_harness", H + "write_fmt")
    rep.fn(f["path"])
    clos = [n for n in hir.walk(f["hir"]) if n.get("k") == "closure"]
    ok = len(clos) == 1 and hir.is_call(hir.simp(clos[0]["body"]), H + "write_all") and \
        [hir.local_name(a) for a in hir.simp(clos[0]["body"])["args"]] == ["raw", "state", clos[0]["params"][0].get("name")]
    tail = hir.simp(hir.stmts_of(f["hir"])[-1])
    ok2 = hir.is_call(tail, "verif_harness::fmt::Adapter::<W>::write_fmt") and hir.is_local(tail["args"][1], "args")
    rep.check(ok and ok2, "errors", f["path"], "write_fmt-through-adapter", "", loc(f))
    stripstream.rule_adapter(facts, rep, "verif_harness", "verif_harness::fmt::")
    n = facts.body("verif_harness", "verif_harness::wincon::WinconStream::<S>::new")
    e = ac.single_expr(n["hir"])
    okn = e.get("k") == "struct" and hir.is_local({x["name"]: x["e"] for x in e["fields"]}.get("raw"), "raw")
    rep.check(okn, "errors", n["path"], "wraps-raw-with-fresh-state", "", loc(n))


def rule_vectored(facts, rep):
    """write_vectored hands over one of the caller's buffers through `write` and returns that call's result: a count that stands
    for anything else (several buffers written, one reported) makes the caller submit text again that the console already got."""
    v = facts.body("verif_harness", "<verif_harness::wincon::WinconStream<S> as std::io::Write>::write_vectored")
    rep.fn(v["path"])
    ok, why = stripstream._forwards_one_buffer(v, method="<verif_harness::wincon::WinconStream<S> as std::io::Write>::write", free_fn=H + "write")
    rep.check(ok, "vectored", v["path"], "forwards-one-buffer",
              f"write_vectored = self.write(first non-empty buffer, or an empty slice), its result returned as it is; {why}", loc(v))
