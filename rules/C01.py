"""C01 — stripping removes exactly the escape sequences and nothing else (structural part)."""
import hir
import hirpp
from core import AnchorMissing, Unrecognised, loc
from rules import common_parse as cp
from rules import scanner, stripstream
from spec import vt500

META = {
    "explanation": (
        "Static decision of the clauses of C01 that are visible in the program text: (table) the 16x256 transition "
        "table equals an independent VT500 specification; (keep) the printability predicate is normalised by structural "
        "recursion to a set K of (action, byte) pairs and kept(state, byte) is compared with the specification's visible "
        "text for 14 states x 256 bytes, with the lemmas the two-phase scanners rely on (no kept byte is ESC/DEL/C0/"
        "0x80-0xbf; kept bytes do not move the state except into Utf8; BeginUtf8 only from Ground); (S1-S5) typestate / "
        "dataflow rules over the scanners' closures by path enumeration and truth tables over opaque atoms; (reach) the "
        "iterator impls and the strip stream reach classification only through the two scanners. Does NOT decide that the "
        "two-phase scan as a whole computes the model's visible text (needs a loop invariant), nor run maximality."),
    "exhaustive": True,
}

MANIFEST = {
    "level": ("Sound static decision of necessary structural conditions of C01 for all inputs: complete table and "
              "keep-predicate comparison with an independent specification (finite, exhaustive), plus typestate rules S1-S5 "
              "on every store, every classification call and every keep/drop path of the two scanners. Chosen because the "
              "defects found in this code (blind state reset, classification against the wrong state, unclassified kept "
              "bytes) are exactly violations of these path rules, which no sampled test distinguishes."),
    "note": ("Trusted: rustc front end/const eval; spec/vt500.py; std's u8::is_ascii_whitespace = {09,0a,0c,0d,20}; the path "
             "enumerator. Not decided: whole-scanner equivalence with the VT model (loop invariant over the two phases), "
             "maximality of runs. One recorded finding: StripBytes keeps bytes after a truncated UTF-8 lead unclassified (D3)."),
    "technique": "static analysis: const table vs spec, truth table of the keep predicate by abstract evaluation, path-enumeration typestate rules (S1-S6, incl. the stop byte being re-classified from the same state), abstract evaluation of the one-shot strippers' `&mut self` methods (decoder travels with the state), value-flow rules on the stream helpers, call-graph reach",
}

ASCII_WS = {0x09, 0x0a, 0x0c, 0x0d, 0x20}


def keep_set(facts):
    """Normalise is_printable_bytes(action, byte) to the set K of (action name, byte) pairs, by structural recursion."""
    b = facts.body("anstream", scanner.MOD + "is_printable_bytes")
    ps = [p["name"] for p in b["params"]]
    if len(ps) != 2:
        raise Unrecognised("is_printable_bytes: two parameters expected")
    a_name, b_name = ps
    consts = {}
    for it in facts.items("anstream"):
        if it["dk"] == "Const" and "value" in it:
            consts[it["path"]] = it["value"]
    # truth table of the predicate over its whole domain (16 actions x 256 bytes) by abstract evaluation of its body: an
    # or-chain, a match on the action, early returns or matches! all denote the same set
    import abseval
    ev = abseval.Evaluator(facts, "anstream", {"core::num::<impl u8>::is_ascii_whitespace": lambda a: ("bool", a[0][0] == "int" and a[0][1] in ASCII_WS)})
    ev.consts = consts
    K = set()
    for act in vt500.ACTIONS:
        for byte in range(256):
            env = abseval.Env()
            env[a_name] = ("enum", cp.ACTION + "::" + act)
            env[b_name] = ("int", byte)
            try:
                v = ev.ev(b["hir"], env)
            except abseval.Return as r:
                v = r.v
            if v[0] != "bool":
                raise Unrecognised(f"is_printable_bytes does not evaluate to a boolean for ({act}, {byte:#x}): {v}")
            if v[1]:
                K.add((act, byte))
    return b, K


THOROUGH_CONFIGS = ["parse-none", "parse-core", "parse-core-utf8"]


def run(ctx):
    rep, facts = ctx.report, ctx.facts
    if ctx.tier == "thorough":
        for cfg in THOROUGH_CONFIGS:
            if cfg in ctx.configs:
                f2, r2 = ctx.configs[cfg], rep.scoped(cfg)
                r2.guarded("encoding", "State/Action", lambda f2=f2, r2=r2: cp.check_encoding(f2, r2))
                r2.guarded("table", "STATE_CHANGES", lambda f2=f2, r2=r2: cp.check_table(f2, r2))
    rep.guarded("encoding", "State/Action", lambda: cp.check_encoding(facts, rep))
    rep.guarded("table", "STATE_CHANGES", lambda: cp.check_table(facts, rep))
    rep.guarded("keep", "is_printable_bytes", lambda: rule_keep(facts, rep))
    for name in ("next_str", "next_bytes"):
        def scan(name=name):
            sc = scanner.Scanner(facts, name)
            rep.fn(sc.body["path"])
            scanner.rule_S1_S2(sc, rep, "C01")
            scanner.rule_S3(sc, rep)
            scanner.rule_S4(sc, rep)
            scanner.rule_S5(sc, rep)
            scanner.rule_S6(sc, rep)
        rep.guarded("scanner", scanner.MOD + name, scan)
    rep.guarded("reach", "adapter::strip", lambda: rule_reach(facts, rep))
    # the one-shot stripper fed several slices: the UTF-8 decoder travels with the escape state, or a character cut between two
    # slices loses its tail
    from rules import C03
    rep.guarded("between-slices", "anstream::adapter::strip::StrippedBytes", lambda: C03.rule_between_slices(facts, rep))
    # the never-colour stream's clause: what it delivers is the adapter's output only if the short-write path replays correctly
    from rules import stripstream
    # of the strip stream's short-write rules only W1 (the state replayed matches the bytes reported as consumed) belongs to this
    # property; the count rules (W3) are C06's
    import core
    # (... and the vectored entry point hands over one of the caller's buffers through `write`, so the count it returns stands
    # for a prefix of what the caller offered: a sum over several partly written buffers makes a retrying caller lose and repeat text)
    w1 = core.Filtered(rep, lambda rule, anchor, instance: rule == "W1" or (rule == "W3" and instance == "forwards-one-buffer"))
    rep.guarded("W1", "anstream::strip::write", lambda: stripstream.rule_W1_W3(facts, w1))
    # ... and only if no run of visible text is dropped on the way: a piece the inner writer refused must end the call with its error
    # (an Err arm that `continue`s to the next piece loses the text and still reports the buffer as written)
    w4 = core.Filtered(rep, lambda rule, anchor, instance: rule == "W4" and instance == "write:Err-arm-leaves")
    rep.guarded("W4", "anstream::strip::write", lambda: stripstream.rule_W2(facts, w4))
    # ... and formatted writes reach the stripper only as the UTF-8 bytes of the pieces std hands to write_str (an override of
    # write_char that feeds a character in another encoding puts bytes in front of the stripper that are not the text's)
    w5 = core.Filtered(rep, lambda rule, anchor, instance: rule == "W4" and instance in ("write_str:calls-writer-with-the-bytes", "only-write_str-reaches-the-writer"))
    rep.guarded("W4", "anstream::fmt::Adapter", lambda: stripstream.rule_adapter(facts, w5, "anstream", "anstream::fmt::"))
    rep.guarded("decoder", "anstream::adapter::strip::Utf8Parser::add", lambda: rule_decoder(facts, rep))
    for r, n in (("decoder", 3), ("table", 16), ("keep", 17), ("S1", 7), ("S2", 8), ("S3", 3), ("S4", 3), ("S5", 12), ("S6", 5), ("between-slices", 1), ("reach", 18), ("W1", 7), ("W3", 1), ("W4", 3)):
        rep.floor(r, n)


def rule_keep(facts, rep):
    b, K = keep_set(facts)
    rep.fn(b["path"])
    _, rows = cp.table(facts)
    where = loc(b)
    for s in vt500.REAL_STATES:
        si = vt500.STATES.index(s)
        bad = []
        for byte in range(256):
            ns, act = cp.effective_cell(rows, si, byte)
            kept = (vt500.ACTIONS[act], byte) in K
            want = vt500.visible(s, byte)
            if kept != want:
                bad.append(f"{byte:#04x}:{'kept' if kept else 'dropped'}")
            rep.count()
        rep.check(not bad, "keep", b["path"], f"kept==visible:{s}",
                  f"kept(state, byte) must equal the model's visible text (Print except DEL, BeginUtf8, Execute of TAB/LF/FF/CR): "
                  f"{bad[:10]}", where)
    # lemmas used by the scanners and by from_utf8_unchecked
    forbidden = {0x1b, 0x7f} | (set(range(0x20)) - {0x09, 0x0a, 0x0c, 0x0d}) | set(range(0x80, 0xc0))
    leaks, moves, begin = [], [], []
    for si in range(1, 15):
        for byte in range(256):
            ns, act = cp.effective_cell(rows, si, byte)
            a = vt500.ACTIONS[act]
            if (a, byte) in K:
                if byte in forbidden:
                    leaks.append((vt500.STATES[si], hex(byte)))
                if vt500.STATES[ns] not in ("Anywhere", "Utf8"):
                    moves.append((vt500.STATES[si], hex(byte), vt500.STATES[ns]))
            if a == "BeginUtf8" and vt500.STATES[si] != "Ground":
                begin.append((vt500.STATES[si], hex(byte)))
            rep.count()
    rep.check(not leaks, "keep", b["path"], "never-keeps-ESC-DEL-C0-or-continuation",
              f"no state keeps ESC, DEL, a non-whitespace C0 control or a byte 0x80-0xbf (a kept run therefore starts on a "
              f"character boundary): {leaks[:6]}", where)
    rep.check(not moves, "keep", b["path"], "kept-bytes-do-not-move-the-state",
              f"a kept byte leaves the state unchanged or enters Utf8 — the take phase relies on this when it classifies a "
              f"whole run against one state: {moves[:6]}", where)
    rep.check(not begin, "keep", b["path"], "BeginUtf8-only-from-Ground",
              f"multi-byte characters start only in Ground, so leaving Utf8 for Ground restores the pre-character state: {begin[:6]}", where)
    # utf8 continuation helper, when the scanner has one: exactly 0x80..=0xbf (the scanner rules classify whatever byte test
    # the take phase really uses, so the helper is optional)
    try:
        c = facts.body("anstream", scanner.MOD + "is_utf8_continuation")
    except AnchorMissing:
        rep.note("no is_utf8_continuation helper: the take-phase byte tests are classified by rule S3 directly")
        return
    rep.fn(c["path"])
    got = scanner.byte_pred(ac_single(c["hir"]), c["params"][0]["name"], facts)
    rep.check(got == scanner.CONT, "keep", c["path"], "continuation==80..bf", f"{len(got or [])} bytes", loc(c))
    rep.count(256)


def ac_single(e):
    e = hir.simp(e)
    while e.get("k") == "block" and not e.get("stmts") and "expr" in e:
        e = hir.simp(e["expr"])
    return e


def rule_reach(facts, rep):
    """The public adapters reach classification only through the two scanners, with their own carried state."""
    want = {
        "<anstream::adapter::strip::StrippedStr<'s> as core::iter::traits::iterator::Iterator>::next": ("next_str", ["bytes", "state"]),
        "<anstream::adapter::strip::StripStrIter<'s> as core::iter::traits::iterator::Iterator>::next": ("next_str", ["bytes", "state"]),
        "<anstream::adapter::strip::StrippedBytes<'s> as core::iter::traits::iterator::Iterator>::next": ("next_bytes", ["bytes", "state", "utf8parser"]),
        "<anstream::adapter::strip::StripBytesIter<'s> as core::iter::traits::iterator::Iterator>::next": ("next_bytes", ["bytes", "state", "utf8parser"]),
    }
    for path, (fn, fields) in want.items():
        b = facts.body("anstream", path)
        rep.fn(path)
        st = hir.stmts_of(b["hir"])
        ok = len(st) == 1 and hir.is_call(st[0], scanner.MOD + fn)
        if ok:
            got = []
            for a in hir.simp(st[0])["args"]:
                a = hir.peel(a)
                got.append(a["name"] if a.get("k") == "field" and hir.is_local(a["e"], "self") else None)
            ok = got == fields
        rep.check(ok, "reach", path, f"delegates-to-{fn}", f"next() is exactly {fn}(self.{', self.'.join(fields)})", loc(b))
    # callers of the classification helpers
    callers = {}
    for body in facts.bodies("anstream"):
        if "hir" not in body:
            continue
        for n in hir.walk(body["hir"]):
            for h in ("is_printable_bytes", "next_str", "next_bytes", "is_utf8_continuation"):
                if hir.is_call(n, scanner.MOD + h):
                    callers.setdefault(h, set()).add(body["path"])
    rep.check(callers.get("is_printable_bytes") == {scanner.MOD + "next_str", scanner.MOD + "next_bytes"}, "reach",
              scanner.MOD + "is_printable_bytes", "callers", f"{sorted(callers.get('is_printable_bytes', []))}", "")
    rep.check(callers.get("next_str") == {p for p, v in want.items() if v[0] == "next_str"}, "reach", scanner.MOD + "next_str", "callers",
              f"{sorted(callers.get('next_str', []))}", "")
    rep.check(callers.get("next_bytes") == {p for p, v in want.items() if v[0] == "next_bytes"}, "reach", scanner.MOD + "next_bytes", "callers",
              f"{sorted(callers.get('next_bytes', []))}", "")
    # one-shot constructors start in Ground; incremental ones borrow the adapter's own state mutably
    for ctor, fields in (("StrippedStr::<'s>::new", {"state": "Ground"}), ("StrippedBytes::<'s>::new", {"state": "Ground"})):
        b = facts.body("anstream", "anstream::adapter::strip::" + ctor)
        rep.fn(b["path"])
        s = [n for n in hir.walk(b["hir"]) if n.get("k") == "struct"]
        ok = len(s) == 1
        if ok:
            f = {x["name"]: x["e"] for x in s[0]["fields"]}
            ok = hir.is_def(f.get("state"), "State::Ground")
        rep.check(ok, "reach", b["path"], "starts-in-Ground", "", loc(b))
    for meth, fields in (("StripStr::strip_next", ["state"]), ("StripBytes::strip_next", ["state", "utf8parser"])):
        b = facts.body("anstream", "anstream::adapter::strip::" + meth)
        rep.fn(b["path"])
        s = [n for n in hir.walk(b["hir"]) if n.get("k") == "struct"]
        ok = len(s) == 1
        if ok:
            f = {x["name"]: hir.simp(x["e"]) for x in s[0]["fields"]}
            for fld in fields:
                e = f.get(fld, {})
                ok = ok and e.get("k") == "ref" and e.get("mut") and hir.simp(e["e"]).get("k") == "field" and \
                    hir.simp(e["e"])["name"] == fld and hir.is_local(hir.simp(e["e"])["e"], "self")
        rep.check(ok, "reach", b["path"], "borrows-own-state-mutably",
                  f"the per-chunk iterator holds &mut self.{{{','.join(fields)}}} (no copy of the carried state)", loc(b))
    # the strip stream hands the inner writer only pieces yielded by StripBytes::strip_next, on every path
    stripstream.rule_through(facts, rep, "reach")


def rule_decoder(facts, rep):
    """The byte stripper leaves its mid-character state when `Utf8Parser::add` says the decoder is back at a character boundary —
    and utf8parse is back there after a code point *and* after a rejected sequence. The receiver's two callbacks store something
    into the slot `add` hands them; `add`'s result, evaluated on each stored value, must be true for both, and false for the value
    the slot starts with (no callback: still inside a character)."""
    import abseval
    AD = "anstream::adapter::strip::"
    a = facts.body("anstream", AD + "Utf8Parser::add")
    rep.fn(a["path"])
    st = hir.stmts_of(a["hir"])
    adv = [n for n in hir.walk(a["hir"]) if hir.is_call(n, "utf8parse::Parser::advance")]
    tail = st[-1] if st else None
    if len(adv) != 1 or tail is None:
        raise Unrecognised("Utf8Parser::add does not advance the decoder exactly once")
    recv = hir.peel(adv[0]["args"][1])
    recv_let = next((x for x in st if x.get("k") == "let" and x["pat"].get("k") == "pbind" and x["pat"].get("id") == recv.get("id") and "init" in x), None)
    if recv.get("k") != "local" or recv_let is None:
        raise Unrecognised("the receiver handed to the decoder is not a local built in add()")
    rinit = hir.simp(recv_let["init"])
    ctor_arg = hir.peel(rinit["args"][0]) if (rinit.get("k") == "call" and rinit.get("ctor") and len(rinit["args"]) == 1) else None
    by_ref = ctor_arg is not None and ctor_arg.get("k") == "local" and hir.simp(rinit["args"][0]).get("k") == "ref"
    ev0 = abseval.Evaluator(facts, "anstream", {}, inline_crates=("anstream",))
    if by_ref:
        # the receiver borrows a slot of add(): callbacks store through `*self.0`
        slot_let = next((x for x in st if x.get("k") == "let" and x["pat"].get("k") == "pbind" and x["pat"].get("id") == ctor_arg.get("id") and "init" in x), None)
        if slot_let is None:
            raise Unrecognised("the slot the receiver borrows is not a local of add()")
        v0 = ev0.ev(slot_let["init"], abseval.Env())
        slot_name, store_prefix = ctor_arg["name"], "self.0"

        def result(value):
            env = abseval.Env()
            env[slot_name] = value
            return _eval(facts, tail, env)

        def after(stored, field):
            return stored
    else:
        # the receiver owns its state: callbacks store into `self.<field>`, add() reads the receiver afterwards
        v0 = ev0.ev(recv_let["init"], abseval.Env())
        if v0[0] != "rec":
            raise Unrecognised(f"the receiver value {str(v0)[:60]} is not a record")
        store_prefix = "self."

        def result(value):
            env = abseval.Env()
            env[recv["name"]] = value
            return _eval(facts, tail, env)

        def after(stored, field):
            return ("rec", dict(v0[1], **{field: stored}))
    rep.check(result(v0) == ("bool", False), "decoder", a["path"], "no-callback→still-inside-a-character", f"add() with no callback gives {result(v0)}", loc(a))
    recv_ty = str(recv_let["pat"].get("ty") or rinit.get("ty") or "")
    for cb, arg in (("codepoint", [("sym", "c")]), ("invalid_sequence", [])):
        cands = [b_ for b_ in facts.bodies("anstream") if b_["path"].startswith("<" + AD + "VtUtf8Receiver") and b_["path"].endswith("utf8parse::Receiver>::" + cb)]
        if len(cands) != 1:
            raise AnchorMissing(f"the receiver's {cb} callback")
        b = cands[0]
        rep.fn(b["path"])
        stores = [n for n in hir.walk(b["hir"]) if n.get("k") in ("assign",) and (hir.place_str(n["l"]) or "").lstrip("*(").startswith(store_prefix)]
        why, ok = "", False
        if len(stores) == 1 and not [n for n in hir.walk(b["hir"]) if n.get("k") in ("if", "match", "ret")]:
            env = abseval.Env()
            for p_, v_ in zip(b["params"][1:], arg):
                if p_.get("k") == "pbind":
                    env[p_["name"]] = v_
            try:
                stored = abseval.Evaluator(facts, "anstream", {}).ev(stores[0]["r"], env)
                field = (hir.place_str(stores[0]["l"]) or "").lstrip("*(").rstrip(")").split(".", 1)[1]
                r = result(after(stored, field))
                ok, why = r == ("bool", True), f"stores {stored}; add() then gives {r}"
            except Unrecognised as ex:
                why = f"not evaluable: {ex}"
        else:
            why = f"{len(stores)} stores into the receiver's state"
        rep.check(ok, "decoder", b["path"], f"{cb}→back-at-a-boundary",
                  f"after `{cb}` the decoder is at a character boundary and add() must say so (else the stripper keeps the next byte unclassified): {why}", loc(b))


def _eval(facts, e, env):
    import abseval
    try:
        return abseval.Evaluator(facts, "anstream", {}).ev(e, env)
    except abseval.Return as rt:
        return rt.v
