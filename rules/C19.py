"""C19 — output of one print call is never interleaved with another thread's; atomic global choice."""
import hir
import hirpp
import mir
from core import AnchorMissing, Unrecognised, loc
from rules import anstyle_common as ac

META = {
    "explanation": (
        "A lock-discipline (effect) analysis. (sealed) AsLockedWrite has a supertrait that cannot be named outside the crate, so "
        "its impls are the closed set: Stdout/Stderr acquire lock(), every other impl is the identity or a deref delegation; "
        "(overrides) each stream type (AutoStream, StripStream, and the legacy-console stream mounted from the harness) "
        "provides its own write_all and write_fmt (the calls the property names; print/println are one write_fmt), so no "
        "defaulted method can loop over a locking `write`; (one-lock) on every structural path of each of these overrides, and of "
        "any sibling override they delegate to, there is exactly one lock acquisition — a direct "
        "as_locked_write() or one delegation to a sibling override — none of them inside a loop, and in the MIR the guard "
        "returned by as_locked_write() is dropped only after the call that uses it has returned; (helpers) the strip / wincon "
        "helpers take `&mut dyn` writers and acquire nothing; (macros) each print-family macro, expanded in the harness, "
        "performs exactly one write_fmt on one AutoStream (non-test branch) and to_adapted_string + one std print (test "
        "branch), the newline being part of the same format template; (atomic) the only accessors of the process-wide choice "
        "are new (initial from_choice(Auto)), get (one load, SeqCst) and set (one store, SeqCst, on every path) — no read-modify-write; "
        "global()/write_global() are exactly USER.get()/USER.set(self); from_choice/to_choice are mutually inverse tables — and "
        "every stored value is in the image of from_choice, on which to_choice is Some. Trusted: std's reentrant stdout lock "
        "and AtomicUsize."),
    "exhaustive": True,
}

MANIFEST = {
    "level": ("Sound static decision for every schedule: contiguity of one call's bytes follows from 'the std lock is held from "
              "before the first byte to after the last byte of the call', which is a per-path effect property of the write_all / write_fmt "
              "overrides (one acquisition, guard outlives the helper call) and holds for all interleavings because std's lock "
              "is mutual exclusion. The atomic-register clause is a who-may-access rule on the single AtomicUsize."),
    "note": ("Trusted: rustc front end and MIR drop elaboration; std::io::Stdout::lock is a (reentrant) mutual-exclusion lock and "
             "AtomicUsize load/store(SeqCst) are linearizable. Not analysed: cfg(windows) code other than the mounted "
             "anstream/src/wincon.rs."),
    "technique": "static analysis: sealed-trait / impl-set facts, impl-item exhaustiveness, per-path lock-acquisition count, MIR drop placement (dominance), macro-expansion reading, who-may-access on the atomic, who-may-call of write_global over every crate (no hidden writer), the register codec by evaluation",
}

METHODS = ["write", "write_vectored", "flush", "write_all", "write_fmt"]
# The property speaks of print/println (one write_fmt), write_all and formatted writes.  `write`, `write_vectored` and `flush`
# are decided only when one of those delegates to them (a short `write` is not a promise of contiguity).
IN_SCOPE = ["write_all", "write_fmt"]
LOCK = "anstream::stream::AsLockedWrite::as_locked_write"
STREAMS = [
    ("anstream", "anstream::auto::AutoStream<S>", "<anstream::auto::AutoStream<S> as std::io::Write>::", LOCK),
    ("anstream", "anstream::strip::StripStream<S>", "<anstream::strip::StripStream<S> as std::io::Write>::", LOCK),
    ("verif_harness", "verif_harness::wincon::WinconStream<S>", "<verif_harness::wincon::WinconStream<S> as std::io::Write>::",
     "verif_harness::stream::AsLockedWrite::as_locked_write"),
]


def run(ctx):
    rep, facts = ctx.report, ctx.facts
    rep.guarded("sealed", "anstream::stream::AsLockedWrite", lambda: rule_sealed(facts, rep))
    rep.guarded("overrides", "io::Write impls", lambda: rule_overrides(facts, rep))
    rep.guarded("one-lock", "io::Write impls", lambda: rule_one_lock(facts, rep))
    rep.guarded("helpers", "anstream::strip", lambda: rule_helpers(facts, rep))
    rep.guarded("macros", "verif_harness::macros", lambda: rule_macros(facts, rep))
    rep.guarded("atomic", "colorchoice::USER", lambda: rule_atomic(facts, rep))
    rep.guarded("atomic", "colorchoice::ColorChoice", lambda: rule_register(facts, rep))
    rep.guarded("writers", "colorchoice::ColorChoice::write_global", lambda: rule_writers(facts, rep))
    rep.guarded("positive", "verif_harness::positive", lambda: rule_positive(facts, rep))
    for r, n in (("sealed", 13), ("overrides", 3), ("one-lock", 35), ("helpers", 6), ("macros", 14), ("atomic", 10), ("writers", 2), ("positive", 2)):
        rep.floor(r, n)


def rule_sealed(facts, rep):
    t = facts.item("anstream", "anstream::stream::AsLockedWrite", "Trait")
    sealed = [s for s in t["supertraits"] if s["path"].startswith("anstream::") and not s["nameable"]]
    rep.check(bool(sealed), "sealed", t["path"], "unnameable-supertrait",
              "AsLockedWrite must keep a supertrait that downstream crates cannot name, otherwise a foreign impl could lock per write", f"{t['file']}:{t['ln']}")
    impls = [i for i in facts.items("anstream") if i["dk"] == "Impl" and i.get("trait") == "anstream::stream::AsLockedWrite"]
    want_lock = {"std::io::stdio::Stdout", "std::io::stdio::Stderr"}
    want_deref = {"&mut T", "alloc::boxed::Box<T>"}
    seen = set()
    for i in impls:
        ty = i["self_ty"]
        seen.add(ty)
        path = [a["path"] for a in i["assoc"] if a["name"] == "as_locked_write"][0]
        b = facts.body("anstream", path)
        rep.fn(path)
        e = ac.single_expr(b["hir"])
        if ty in want_lock:
            ok = hir.is_call(e, "lock") and hir.is_local(e["args"][0], "self") and hir.callee(e).startswith("std::io::stdio::")
            why = "std handles acquire their lock"
        elif ty in want_deref:
            ok = hir.callee_decl(e) == LOCK and hir.is_local(hir.peel(e["args"][0]), "self")
            why = "wrappers delegate"
        else:
            ok = hir.is_local(e, "self") and e.get("k") == "local"
            why = "already-locked / unshared writers are the identity"
        rep.check(ok, "sealed", path, ty.replace(" ", "_"), why, loc(b))
    rep.check(len(seen) == 12 and want_lock <= seen, "sealed", t["path"], "twelve-impls", f"{len(seen)}", "")


def write_impl(facts, crate, self_ty):
    impls = [i for i in facts.items(crate) if i["dk"] == "Impl" and i.get("trait") == "std::io::Write" and i.get("self_ty") == self_ty]
    if len(impls) != 1:
        raise AnchorMissing(f"impl io::Write for {self_ty}: {len(impls)} found")
    return impls[0]


def rule_overrides(facts, rep):
    for crate, ty, prefix, _ in STREAMS:
        i = write_impl(facts, crate, ty)
        names = {a["name"] for a in i["assoc"]}
        missing = [m for m in IN_SCOPE if m not in names]
        rep.check(not missing, "overrides", ty, "write_all-and-write_fmt-provided",
                  f"missing overrides {missing}: a defaulted write_all/write_fmt loops over `write` and would take the lock once per chunk", f"{i['file']}:{i['ln']}")


def _local_write_impl(facts, callee):
    """`<anstream::… as std::io::Write>::m` of a type that is not one of the streams (a private mode enum given its own Write impl)."""
    import re
    m = re.match(r"^<(anstream::[^ ]+) as std::io::Write>::(\w+)$", callee)
    if not m or m.group(2) not in METHODS or facts is None:
        return False
    return callee in facts.crate("anstream")["_bodies"]


def locks_on_path(nodes, prefix, lock_callee, delegated=None, facts=None):
    n = 0
    seen = set()
    delegated = delegated if delegated is not None else set()
    for root in nodes:
        for c in hir.walk(root):
            if c.get("k") != "call" or id(c) in seen:
                continue
            seen.add(id(c))
            if hir.callee_decl(c) == lock_callee or hir.callee(c) == lock_callee:
                n += 1
            elif hir.callee(c).startswith(prefix) and hir.callee(c).split("::")[-1] in METHODS:
                n += 1   # one delegation to a sibling override, which itself locks once
                delegated.add(hir.callee(c))
            elif hir.callee(c).startswith("<anstream::strip::StripStream<S> as std::io::Write>::") and hir.callee(c).split("::")[-1] in METHODS:
                n += 1   # AutoStream's Strip arm → StripStream's override
                delegated.add(hir.callee(c))
            elif _local_write_impl(facts, hir.callee(c)):
                n += 1   # one delegation to the Write impl of a private type of the crate, which is decided like an override
                delegated.add(hir.callee(c))
    return n


def rule_one_lock(facts, rep):
    by_prefix = {prefix: (crate, ty, prefix, lock_callee) for crate, ty, prefix, lock_callee in STREAMS}
    todo = [prefix + m for prefix in by_prefix for m in IN_SCOPE]
    done = set()
    while todo:
        path = todo.pop(0)
        if path in done:
            continue
        done.add(path)
        prefix, meth = path.rsplit("::", 1)[0] + "::", path.rsplit("::", 1)[1]
        if prefix not in by_prefix:
            if not _local_write_impl(facts, path):
                continue
            by_prefix[prefix] = ("anstream", prefix[1:].split(" as ")[0], prefix, LOCK)
        delegated = set()
        rep.guarded("one-lock", path, lambda a=by_prefix[prefix] + (meth, delegated): one_lock_method(facts, rep, *a))
        todo += sorted(delegated - done)   # an override that a decided method delegates to is decided as well
    for prefix in by_prefix:
        for m in METHODS:
            if prefix + m not in done:
                rep.ok("one-lock", prefix + m, "outside-the-property",
                       "not write_all/write_fmt and not delegated to by them: the property promises nothing about its contiguity")


def one_lock_method(facts, rep, crate, ty, prefix, lock_callee, meth, delegated):
    if True:
        if True:
            b = facts.body(crate, prefix + meth)
            rep.fn(b["path"])
            paths = hir.enumerate_paths(b["hir"])   # raises on loops: a lock inside a loop fails closed
            for pi, p in enumerate(paths):
                roots = [t[1] for t in p.trace if t[0] in ("eval",)] + [t[2] for t in p.trace if t[0] == "let"] + ([p.value] if isinstance(p.value, dict) else [])
                # closures passed to iterator adaptors (write_vectored) are not lock sites; count inside them too (must be 0)
                n = locks_on_path(roots, prefix, lock_callee, delegated, facts)
                arm = [hir.last_seg(hir.pat_path(t[2])) for t in p.trace if t[0] == "arm"]
                rep.check(n == 1, "one-lock", b["path"], f"path{pi}{':' + arm[0] if arm else ''}",
                          f"exactly one lock acquisition per call (direct as_locked_write() or one delegation to a sibling override); found {n}", loc(b))
            # a lock acquired inside a closure is acquired once per invocation of the closure (e.g. once per formatted fragment)
            in_closure = []
            for clo in [n for n in hir.walk(b["hir"]) if n.get("k") == "closure"]:
                for c in hir.walk(clo["body"]):
                    if c.get("k") == "call" and (hir.callee_decl(c) == lock_callee or hir.callee(c) == lock_callee or
                                                 hir.callee(c).startswith("std::io::stdio::") and hir.callee(c).endswith("::lock")):
                        in_closure.append(c)
            rep.check(not in_closure, "one-lock", b["path"], "no-lock-inside-a-closure",
                      "the lock is taken inside a closure, i.e. once per invocation (per formatted fragment / per chunk), so another "
                      "thread's output can land between the pieces of one call", loc(b, in_closure[0]) if in_closure else loc(b))
            # MIR: the guard outlives the call that uses it
            m = b.get("mir")
            if not m:
                raise AnchorMissing(f"no MIR for {b['path']}")
            cfg = mir.Cfg(m)
            for bi, t in cfg.calls():
                if bi not in cfg.reachable(0) or cfg.blocks[bi].get("cleanup"):
                    continue
                if not (mir.callee(t) == lock_callee or t.get("callee") == lock_callee):
                    continue
                guard = t["dest"]["l"]
                rep.check(not cfg.in_loop(bi), "one-lock", b["path"], f"guard@bb{bi}:not-in-loop", "", loc(b, t))
                # the call that consumes a reference derived from the guard
                users = []
                derived = {guard}
                changed = True
                while changed:
                    changed = False
                    for blk in cfg.blocks:
                        for s in blk["stmts"]:
                            if s["k"] == "assign" and s["p"]["l"] not in derived:
                                rv = s["rv"]
                                src = None
                                if rv["k"] == "ref":
                                    src = rv["p"]["l"]
                                elif rv["k"] in ("use", "cast"):
                                    src = mir.op_local(rv["a"]) if mir.op_local(rv["a"]) is not None else (mir.op_place(rv["a"]) or {}).get("l")
                                if src in derived:
                                    derived.add(s["p"]["l"])
                                    changed = True
                for ui, ut in cfg.calls():
                    if ut is t or cfg.blocks[ui].get("cleanup"):
                        continue
                    if any((mir.op_place(a) or {}).get("l") in derived for a in ut["args"]):
                        users.append((ui, ut))
                drops = [i for i, blk in enumerate(cfg.blocks) if blk["term"]["k"] == "drop" and blk["term"]["p"]["l"] == guard and not blk.get("cleanup")]
                ok = len(users) == 1 and (not drops or all(cfg.dominates(users[0][1].get("t", -1), d) for d in drops))
                # identity guards (`&mut Self`) need no drop; std guards must have one
                rep.check(ok, "one-lock", b["path"], f"guard@bb{bi}:dropped-after-its-user-returns",
                          f"the lock guard must live until the helper call returns: users {[u[0] for u in users]}, drops {drops}", loc(b, t))


def rule_helpers(facts, rep):
    for crate, mod in (("anstream", "anstream::strip::"), ("verif_harness", "verif_harness::wincon::")):
        for fn in ("write", "write_all", "write_fmt"):
            b = facts.body(crate, mod + fn)
            rep.fn(b["path"])
            first = b["sig"].split("(", 1)[1].split(",")[0]
            ok_sig = first.startswith("&mut dyn ")
            bad = [hir.callee(n) for n in hir.walk(b["hir"]) if n.get("k") == "call" and
                   (hir.callee(n).startswith("std::io::stdio::") or hir.callee_decl(n).endswith("AsLockedWrite::as_locked_write"))]
            rep.check(ok_sig and not bad, "helpers", b["path"], "takes-&mut-dyn-and-acquires-nothing", f"{first}; {bad}", loc(b))


def rule_macros(facts, rep):
    H = "verif_harness::macros::"
    for fn, std_print, ctor, nl in (("m_print", "std::io::stdio::_print", "anstream::stdout", False), ("m_println", "std::io::stdio::_print", "anstream::stdout", True),
                                    ("m_eprint", "std::io::stdio::_eprint", "anstream::stderr", False), ("m_eprintln", "std::io::stdio::_eprint", "anstream::stderr", True),
                                    ("m_println_empty", "std::io::stdio::_print", "anstream::stdout", True), ("m_eprintln_empty", "std::io::stdio::_eprint", "anstream::stderr", True)):
        b = facts.body("verif_harness", H + fn)
        rep.fn(b["path"])
        ifs = [n for n in hir.walk(b["hir"]) if n.get("k") == "if" and any(hir.is_def(x, "_macros::FEATURE_TEST_ACTIVATED") for x in hir.walk(n["c"]))]
        if len(ifs) != 1 or "e" not in ifs[0]:
            raise Unrecognised(f"{fn}: test/non-test branch not found")
        test_b, real_b = ifs[0]["t"], ifs[0]["e"]
        wf = [n for n in hir.walk(real_b) if n.get("k") == "call" and hir.callee_decl(n) == "std::io::Write::write_fmt"]
        streams = [n for n in hir.walk(real_b) if hir.is_call(n, ctor)]
        other_w = [n for n in hir.walk(real_b) if n.get("k") == "call" and hir.callee_decl(n).startswith("std::io::Write::") and n not in wf]
        ok = len(wf) == 1 and hir.callee(wf[0]) == "<anstream::auto::AutoStream<S> as std::io::Write>::write_fmt" and len(streams) == 1 and not other_w
        tpl_ok = False
        if ok:
            pieces, _ = hir.fmt_template(wf[0]["args"][1])
            text = "".join(p if isinstance(p, str) else "{}" for p in pieces)
            tpl_ok = text.endswith("\n") == nl
        rep.check(ok and tpl_ok, "macros", b["path"], "one-write_fmt-on-one-AutoStream",
                  f"non-test branch: exactly one write_fmt on {ctor}() with the newline inside the same template; write_fmt calls {len(wf)}, other writes {len(other_w)}", loc(b))
        ta = [n for n in hir.walk(test_b) if hir.is_call(n, "anstream::_macros::to_adapted_string")]
        sp = [n for n in hir.walk(test_b) if hir.is_call(n, std_print)]
        rep.check(len(ta) == 1 and len(sp) == 1, "macros", b["path"], "test-branch:adapted-string-then-one-std-print", f"{len(ta)} {len(sp)}", loc(b))
    p = facts.body("verif_harness", H + "m_panic")
    ta = [n for n in hir.walk(p["hir"]) if hir.is_call(n, "anstream::_macros::to_adapted_string")]
    rep.check(len(ta) == 1, "macros", p["path"], "panic:adapted-string", "", loc(p))
    # anstream::stdout()/stderr() = AutoStream::auto(std handle)
    for fn, h in (("stdout", "std::io::stdio::stdout"), ("stderr", "std::io::stdio::stderr")):
        b = facts.body("anstream", "anstream::" + fn)
        calls = [hir.callee(n) for n in hir.walk(b["hir"]) if n.get("k") == "call"]
        rep.check(sorted(calls) == sorted([h, "anstream::auto::AutoStream::<S>::auto"]), "macros", b["path"], "auto(std-handle)", f"{calls}", loc(b))


def rule_atomic(facts, rep):
    st = facts.item("colorchoice", "colorchoice::USER", "Static")
    rep.check(st.get("ty") == "colorchoice::AtomicChoice" and not st.get("mutable") and not st.get("thread_local"), "atomic", st["path"], "one-shared-immutable-static", f"{st.get('ty')}", f"{st['file']}:{st['ln']}")
    s = facts.item("colorchoice", "colorchoice::AtomicChoice", "Struct")
    rep.check([f["ty"] for f in s["variants"][0]["fields"]] in (["core::sync::atomic::AtomicUsize"], ["core::sync::atomic::Atomic<usize>"]) and "Restricted" in s["variants"][0]["fields"][0]["vis"],
              "atomic", s["path"], "private-AtomicUsize", "", f"{s['file']}:{s['ln']}")
    accessors = {}
    for body in facts.bodies("colorchoice"):
        if "hir" not in body or body.get("expn"):
            continue
        for n in hir.walk(body["hir"]):
            if n.get("k") == "call" and hir.callee(n).startswith("core::sync::atomic::Atomic"):
                accessors.setdefault(body["path"], []).append(n)
    ops = {k.split("::")[-1]: [hir.callee(c).split("::")[-1] for c in v] for k, v in accessors.items()}
    rep.check(ops == {"new": ["new"], "get": ["load"], "set": ["store"]}, "atomic", "colorchoice::AtomicChoice.0", "accessors:new/get(load)/set(store)",
              f"no read-modify-write and no other accessor: {ops}", "")
    for path, calls in accessors.items():
        for c in calls:
            name = hir.callee(c).split("::")[-1]
            if name in ("load", "store"):
                o = c["args"][-1]
                rep.check(hir.is_def(o, "Ordering::SeqCst"), "atomic", path, f"{name}:SeqCst", hirpp.expr(o), "")
            if name == "new":
                a = hir.simp(c["args"][0])
                rep.check(hir.is_call(a, "colorchoice::AtomicChoice::from_choice") and hir.is_def(a["args"][0], "ColorChoice::Auto"), "atomic", path, "initial=from_choice(Auto)", "", "")
            if name == "store":
                b = facts.body("colorchoice", path)
                lets = {s_["pat"]["name"]: s_["init"] for s_ in hir.stmts_of(b["hir"]) if s_.get("k") == "let" and s_["pat"].get("k") == "pbind"}
                v = hir.simp(c["args"][1])
                src = hir.simp(lets.get(v.get("name"), {})) if v.get("k") == "local" else v
                rep.check(hir.is_call(src, "colorchoice::AtomicChoice::from_choice"), "atomic", path, "stored-value-in-image-of-from_choice",
                          "so to_choice(..).expect(..) in get cannot fire", "")


def rule_register(facts, rep):
    """The public interface of the register: global() is one get, write_global(v) is one unconditional set(v); the
    usize encoding is a bijection on the four choices (so a read returns exactly what was written)."""
    g = facts.body("colorchoice", "colorchoice::ColorChoice::global")
    rep.fn(g["path"])
    e = ac.single_expr(g["hir"])
    rep.check(hir.is_call(e, "colorchoice::AtomicChoice::get") and hir.is_def(e["args"][0], "colorchoice::USER"), "atomic", g["path"], "global=USER.get()", hirpp.expr(e)[:80], loc(g))
    w = facts.body("colorchoice", "colorchoice::ColorChoice::write_global")
    rep.fn(w["path"])
    st = [hir.simp(x) for x in hir.stmts_of(w["hir"])]
    ok = len(st) == 1 and hir.is_call(st[0], "colorchoice::AtomicChoice::set") and hir.is_def(st[0]["args"][0], "colorchoice::USER") and hir.is_local(st[0]["args"][1], "self")
    rep.check(ok, "atomic", w["path"], "write_global=USER.set(self)-unconditionally",
              "every completed write must reach the register (a skipped or conditional store loses 'the last write wins')", loc(w))
    sb = facts.body("colorchoice", "colorchoice::AtomicChoice::set")
    paths = hir.enumerate_paths(sb["hir"])
    n_store = [sum(1 for t in p.trace if t[0] == "eval" and any(hir.is_call(c, "store") for c in hir.walk(t[1]))) for p in paths]
    rep.check(all(n == 1 for n in n_store) and all(p.exit == "value" for p in paths), "atomic", sb["path"], "one-store-on-every-path", f"{n_store}", loc(sb))
    fc = facts.body("colorchoice", "colorchoice::AtomicChoice::from_choice")
    tc = facts.body("colorchoice", "colorchoice::AtomicChoice::to_choice")
    enc, dec = ac.choice_codec(facts)
    ok = len(enc) == 4 and len(set(enc.values())) == 4 and all(dec.get(v) == k for k, v in enc.items())
    rep.check(ok, "atomic", fc["path"], "to_choice(from_choice(c))=Some(c)-for-the-four-choices", f"{enc} / {dec}", loc(fc))


def rule_positive(facts, rep):
    """The zero-count rules must match their positive examples in the harness on every run."""
    b = facts.body("verif_harness", "verif_harness::positive::lock_in_loop")
    cfg = mir.Cfg(b["mir"])
    in_loop = [bi for bi, t in cfg.calls() if mir.callee(t).endswith("Stdout::lock") and cfg.in_loop(bi)]
    rep.check(len(in_loop) == 1, "positive", b["path"], "lock-in-loop-is-recognised", f"{in_loop}", loc(b))
    try:
        hir.enumerate_paths(b["hir"])
        rep.bad("positive", b["path"], "loop-fails-closed", "the path enumerator accepted a loop", loc(b))
    except Unrecognised:
        rep.ok("positive", b["path"], "loop-fails-closed", "")
    b = facts.body("verif_harness", "verif_harness::positive::two_step")
    ops = [hir.callee(n).split("::")[-1] for n in hir.walk(b["hir"]) if n.get("k") == "call" and hir.callee(n).startswith("core::sync::atomic::Atomic")]
    rep.check(ops == ["load", "store"], "positive", b["path"], "two-step-rmw-is-recognised", f"{ops}", loc(b))


WRITERS_ALLOWED = {
    # the register's own setter, and the documented user-facing wrapper of it
    "colorchoice::ColorChoice::write_global": ("colorchoice::AtomicChoice::set",),
    "colorchoice_clap::Color::write_global": ("colorchoice::ColorChoice::write_global",),
}


def rule_writers(facts, rep):
    """A read returns the initial value or a value *some thread wrote*: nothing in the workspace's libraries writes the register as
    a side effect of something else (who-may-call over the resolved callees of every crate: `write_global` / `AtomicChoice::set`
    are called by the register's setter and its clap wrapper only)."""
    import os
    targets = ("colorchoice::ColorChoice::write_global", "colorchoice::AtomicChoice::set")
    crates = sorted(f[:-5] for f in os.listdir(facts.fdir) if f.endswith(".json") and f[:-5] != "verif_harness")
    hidden, seen = [], 0
    for crate in crates:
        for b in facts.bodies(crate):
            if "hir" not in b or "::tests::" in b["path"] or "::test::" in b["path"]:
                continue
            for n in hir.walk(b["hir"]):
                if n.get("k") == "call" and hir.callee(n) in targets:
                    owner = b["path"] if b.get("kind") != "Closure" else (b.get("parent") or b["path"])
                    if hir.callee(n) in WRITERS_ALLOWED.get(owner, ()):
                        seen += 1
                    else:
                        hidden.append(f"{owner} calls {hir.callee(n).split('::')[-1]} (line {n.get('ln')})")
                if n.get("k") == "def" and n.get("path") in targets:
                    hidden.append(f"{b['path']} takes {n['path'].split('::')[-1]} as a function value")
    rep.count(len(crates))
    rep.check(not hidden, "writers", "colorchoice::ColorChoice::write_global", "no-hidden-writer",
              f"{len(crates)} crates scanned, {seen} legitimate call sites; the global choice is written as a side effect by: {hidden}"[:400], "")
    rep.check(seen >= 2, "writers", "colorchoice::ColorChoice::write_global", "setter-sites-found", f"{seen}", "")
