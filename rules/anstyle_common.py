"""Shared readers for the anstyle crate (C05, C13, C04): match tables, effect constants, builder chains."""
import hir
import hirpp
from core import AnchorMissing, Unrecognised, loc
from spec import sgr

CR = "anstyle"
ANSI = "anstyle::color::AnsiColor"
EFF = "anstyle::effect::Effects"


def single_expr(body_or_expr):
    e = hir.simp(body_or_expr)
    while isinstance(e, dict) and e.get("k") == "block":
        st = hir.stmts_of(e)
        if len(st) != 1 and "unsafe" not in e and "label" not in e:
            # `{ let t = f(..); g(t, ..) }` is the single expression `g(f(..), ..)`
            import norm
            e2 = hir.simp(norm.single_use_temps(e))
            if isinstance(e2, dict) and (e2.get("k") != "block" or len(hir.stmts_of(e2)) == 1):
                e = e2
                if e.get("k") != "block":
                    break
                st = hir.stmts_of(e)
        if len(st) != 1:
            import hirpp
            raise Unrecognised(f"the body was expected to be a single expression, found {len(st)} statements"
                               + (f" starting `{hirpp.expr(st[0])[:70]}` (line {st[0].get('ln', '?')})" if st else ""))
        e = hir.simp(st[0])
    return e


def variant_table(m, enum_path, value_fn):
    """match over a fieldless enum → {variant: value_fn(arm body)} ; raises on catch-all arms."""
    out = {}
    for a in m["arms"]:
        for alt in hir.pat_alternatives(a["pat"]):
            p = hir.pat_path(alt)
            if alt.get("k") == "pref":
                p = hir.pat_path(alt["p"])
            if not p or not p.startswith(enum_path + "::"):
                raise Unrecognised(f"arm pattern outside {enum_path}: {hirpp.pat(alt)}")
            out[p.split("::")[-1]] = value_fn(a["body"])
    return out


def effect_consts(facts):
    """name -> value for the public Effects constants, in declaration order."""
    out = []
    for it in facts.items(CR):
        if it["dk"] == "AssocConst" and it["path"].startswith(EFF + "::") and it.get("ty") == EFF and (it.get("vis", "Public") == "Public" or it["path"].endswith("::PLAIN")):
            out.append((it["path"].split("::")[-1], it.get("value"), it))
    return out


def ansi_variants(facts):
    it = facts.item(CR, ANSI, "Enum")
    return [v["name"] for v in it["variants"]], [v["discr"] for v in it["variants"]], it


def builder_chain(e, getters):
    """DisplayBuffer::default().write_str(lit).write_code(x)... → list of str | ('code', source)"""
    e = hir.simp(e)
    if hir.is_call(e, "<anstyle::color::DisplayBuffer as core::default::Default>::default"):
        return []
    if hir.is_call(e, "anstyle::color::DisplayBuffer::write_str"):
        s = hir.lit_val(e["args"][1])
        if not isinstance(s, str):
            raise Unrecognised("write_str with a non-literal")
        return builder_chain(e["args"][0], getters) + [s]
    if hir.is_call(e, "anstyle::color::DisplayBuffer::write_code"):
        a = hir.simp(e["args"][1])
        src = None
        if a.get("k") == "call" and hir.is_local(a["args"][0], "self"):
            src = getters.get(hir.callee(a))
        elif a.get("k") == "field" and a["name"].isdigit() and hir.is_local(hir.peel(a["e"]), "self"):
            src = int(a["name"])          # the component read directly (`self.0`): what the getter of that position returns
        if src is None:
            raise Unrecognised(f"write_code argument not a known getter: {hirpp.expr(a)}")
        return builder_chain(e["args"][0], getters) + [("code", src)]
    raise Unrecognised(f"builder chain element: {hirpp.expr(e)[:60]}")


def getters(facts):
    """Resolved getter → tuple field it returns (index()/r()/g()/b())."""
    out = {}
    for path in ("anstyle::color::Ansi256Color::index", "anstyle::color::RgbColor::r", "anstyle::color::RgbColor::g",
                 "anstyle::color::RgbColor::b"):
        b = facts.body(CR, path)
        e = hir.peel(single_expr(b["hir"]))
        if e.get("k") == "field" and hir.is_local(e["e"], "self"):
            out[path] = int(e["name"])
    return out


# ---------------------------------------------------------------------------------------------------------------------
# effects expressions as bit transformers

EFFECT_BITS = ["BOLD", "DIMMED", "ITALIC", "UNDERLINE", "DOUBLE_UNDERLINE", "CURLY_UNDERLINE", "DOTTED_UNDERLINE", "DASHED_UNDERLINE",
               "BLINK", "INVERT", "HIDDEN", "STRIKETHROUGH"]
FULL = (1 << len(EFFECT_BITS)) - 1


def effects_masks(e, var=None):
    """An Effects-valued expression as a per-bit transformer of the old value of `var`: (keep, one) — a bit of the result is the
    old bit where `keep` is set, 1 where `one` is set and 0 elsewhere.  `a | b`, `a.insert(b)`, `a - b`, `a.remove(b)`,
    `a.set(b, true/false)`, `Effects::new()`, `Effects::default()`, `PLAIN` and the named constants are understood; anything
    else raises Unrecognised."""
    import hirpp
    e = hir.simp(e)
    k = e.get("k")
    p = hir.def_path(e)
    if p and p.startswith(EFF + "::"):
        n = p.split("::")[-1]
        if n == "PLAIN":
            return (0, 0)
        if n in EFFECT_BITS:
            return (0, 1 << EFFECT_BITS.index(n))
    if k == "local" and var is not None and e["name"] == var:
        return (FULL, 0)
    if k == "call":
        c = hir.callee(e)
        if c in (EFF + "::new", EFF + "::clear") or (hir.is_call(e, "Default::default") and e.get("ty") == EFF) or \
                c == f"<{EFF} as core::default::Default>::default":
            return (0, 0)
        if c in (EFF + "::insert",) or (hir.is_call(e, "BitOr>::bitor", "bitor") and e.get("ty") == EFF):
            a, b = effects_masks(e["args"][0], var), effects_masks(e["args"][1], var)
            one = a[1] | b[1]
            return ((a[0] | b[0]) & ~one, one)
        if c in (EFF + "::remove",) or (hir.is_call(e, "Sub>::sub", "sub") and e.get("ty") == EFF):
            a, b = effects_masks(e["args"][0], var), effects_masks(e["args"][1], var)
            if b[0]:
                raise Unrecognised("removal of a non-constant effect set")
            return (a[0] & ~b[1], a[1] & ~b[1])
        if c == EFF + "::set":
            a, b = effects_masks(e["args"][0], var), effects_masks(e["args"][1], var)
            on = hir.lit_val(e["args"][2])
            if b[0] or not isinstance(on, bool):
                raise Unrecognised("set() with a non-constant argument")
            return ((a[0] & ~b[1]), (a[1] | b[1])) if on else (a[0] & ~b[1], a[1] & ~b[1])
    if k == "bin" and e.get("op") in ("BitOr", "Sub"):
        a, b = effects_masks(e["l"], var), effects_masks(e["r"], var)
        if e["op"] == "BitOr":
            one = a[1] | b[1]
            return ((a[0] | b[0]) & ~one, one)
        if b[0]:
            raise Unrecognised("removal of a non-constant effect set")
        return (a[0] & ~b[1], a[1] & ~b[1])
    raise Unrecognised(f"effects expression `{hirpp.expr(e)[:70]}` (line {e.get('ln', '?')})")


def mask_names(m):
    return [n for i, n in enumerate(EFFECT_BITS) if m >> i & 1]


def thin_unfold(facts, crate, call, depth=4):
    """Follow thin wrappers: a call of a same-crate function whose body is exactly one call taking (some of) its own parameters
    is the call of that inner function on the corresponding arguments.  Returns (ultimate callee path, [argument expressions])."""
    import copy
    import norm
    call = hir.simp(call)
    for _ in range(depth):
        path = hir.callee(call)
        if not path.startswith(crate + "::") and not path.startswith("<" + crate):
            break
        try:
            b = facts.body(crate, path)
        except Exception:
            break
        if "hir" not in b or len(b.get("params", [])) != len(call.get("args", [])):
            break
        try:
            inner = single_expr(b["hir"])
        except Unrecognised:
            break
        if not (isinstance(inner, dict) and inner.get("k") == "call" and not inner.get("ctor")):
            break
        pid = {p.get("id"): a for p, a in zip(b["params"], call["args"]) if p.get("k") == "pbind"}
        ok = True
        for a in inner["args"]:
            a0 = hir.peel(a)
            if not (a0.get("k") == "local" and a0.get("id") in pid):
                ok = False
        if not ok:
            break

        def sub(n):
            if n.get("k") == "local" and n.get("id") in pid:
                return copy.deepcopy(pid[n["id"]])
            return n
        call = norm.map_tree(copy.deepcopy(inner), sub)
    return hir.callee(call), call.get("args", [])


def choice_codec(facts):
    """from_choice on each of the four ColorChoice values and to_choice on 0..=15, by abstract evaluation:
    ({variant: code}, {code: variant or None}) — a match, a cast of the discriminant, a const table all read the same."""
    import abseval
    enc, dec = {}, {}
    for v in ("Auto", "AlwaysAnsi", "Always", "Never"):
        r = abseval.Evaluator(facts, "colorchoice", {}).call_fn("colorchoice", "colorchoice::AtomicChoice::from_choice", [("enum", "colorchoice::ColorChoice::" + v)])
        if r[0] != "int":
            raise Unrecognised(f"from_choice({v}) evaluates to {str(r)[:60]}")
        enc[v] = r[1]
    for i in range(16):
        r = abseval.Evaluator(facts, "colorchoice", {}).call_fn("colorchoice", "colorchoice::AtomicChoice::to_choice", [("int", i)])
        if r == ("none",):
            dec[i] = None
        elif r[0] == "some" and r[1][0] == "enum":
            dec[i] = r[1][1].split("::")[-1]
        else:
            raise Unrecognised(f"to_choice({i}) evaluates to {str(r)[:60]}")
    return enc, dec


def reset_display_ok(facts):
    """`Display for Reset` by abstract evaluation: exactly one `f.write_str("\x1b[0m")` and nothing else on the formatter (no padding:
    any other Formatter method is not evaluable).  Returns (ok, what was found)."""
    import abseval
    rd = facts.body("anstyle", "<anstyle::reset::Reset as core::fmt::Display>::fmt")
    writes = []
    ev = abseval.Evaluator(facts, "anstyle", {"core::fmt::Formatter::<'a>::write_str": lambda a_: (writes.append(a_[1]), ("ok", ("unit",)))[1]})
    try:
        r = ev.call_fn("anstyle", rd["path"], [("sym", "reset"), ("sym", "f")])
    except Unrecognised as ex:
        return False, f"not evaluable: {ex}"
    return writes == [("str", "\x1b[0m")] and r == ("ok", ("unit",)), f"writes {writes}, returns {r}"


def eval_all(facts, crate, path, args, inline_crates=(), atoms=None):
    """Abstract evaluation of a function on symbolic arguments with every call outside the inlinable crates kept as an
    uninterpreted application (a boolean one is a case split): [(choices, result)] over all cases."""
    import abseval

    def unint(cal, a_, e):
        if e.get("ty") == "bool":
            return ("bool", ev.oracle(("app", cal, repr(a_))))
        return ("app", cal) + tuple(a_)
    a = {"*": unint}
    a.update(atoms or {})
    ev = abseval.Evaluator(facts, crate, a, inline_crates=tuple(inline_crates) or (crate,))

    def run(choices):
        ev.choices = choices
        return ev.call_fn(crate, path, list(args))
    return abseval.explore(run)
