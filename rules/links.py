"""Rules of one property that another property's chain of reasoning rests on, evaluated in the dependent check as well.

A styled run, an SVG span or a console colour can only be right if the VT parser underneath dispatches every complete SGR
sequence with its parameters: the dependent checks therefore evaluate the parser's rules too (same code as C02, same keys with
the dependent property's id), except the OSC payload rule, which no SGR consumer depends on."""


def parser_under_sgr(facts, rep):
    from rules import C02
    C02.run_rules(facts, rep, skip=("osc",))


def extractor(facts, rep):
    from rules import C07
    rep.guarded("codes", C07.FN + "csi_dispatch", lambda: C07.rule_codes(facts, rep))
    rep.guarded("substate", C07.FN + "csi_dispatch", lambda: C07.rule_substate(facts, rep))
    rep.guarded("emit", C07.FN + "csi_dispatch", lambda: C07.rule_emit(facts, rep))
    rep.guarded("model", C07.FN + "csi_dispatch", lambda: C07.rule_model(facts, rep))
    # the driver loop: every input byte goes through the parser, the pending text comes from its callbacks only
    from rules import C03
    rep.guarded("byte-at-a-time", "anstream::adapter::wincon::next_bytes", lambda: C03.rule_byte_at_a_time(facts, rep))


def palette_tables(facts, rep):
    """Only the index <-> 4-bit colour tables (from_ansi / into_ansi), which cap_wincon_color narrows through; bright() and the
    rest of C13's colour rules are not part of C18's chain."""
    import core
    from rules import C13
    sub = core.Filtered(rep, lambda rule, anchor, instance: any(x in str(anchor) + str(instance) for x in ("into_ansi", "from_ansi", "variants-in-palette-order")))
    try:
        C13.rule_colour_tables(facts, sub)
    except (core.Unrecognised, core.AnchorMissing) as e:
        # a construct elsewhere in C13's colour rules (bright()) is not this property's business unless the tables were not reached
        if not any(o["rule"] == "colour-tables" and "into_ansi" in o["key"] for o in rep.obligations if hasattr(rep, "obligations")):
            rep.bad("colour-tables", "anstyle::color", "unrecognised-idiom", f"unrecognised-idiom: {e}")


def colours_to_rgb(facts, rep):
    """The RGB values a style sheet shows are anstyle-lossy's: `color_to_rgb` sends each kind of colour to its conversion, a palette
    index 0..=15 and a 4-bit colour come from the configured palette, 16..=255 from the fixed table (C10's `dispatch` for
    color_to_rgb and the lookup part of its `tables` rule, evaluated in the dependent check as well)."""
    import core
    from rules import C10
    keep = ("rgb_from_index", "Palette::get", "xterm_to_rgb", "XTERM_COLORS", "color_to_rgb", "ansi_to_rgb")
    sub = core.Filtered(rep, lambda rule, anchor, instance: any(x in str(anchor) + str(instance) for x in keep))
    rep.guarded("tables", "anstyle_lossy", lambda: C10.rule_tables(facts, sub))
    rep.guarded("dispatch", "anstyle_lossy", lambda: C10.rule_dispatch(facts, sub))
