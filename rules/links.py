"""Rules of one property that another property's chain of reasoning rests on, evaluated in the dependent check as well.

A styled run, an SVG span or a console colour can only be right if the VT parser underneath dispatches every complete SGR
sequence with its parameters: the dependent checks therefore evaluate the parser's rules too (same code as C02, same keys with
the dependent property's id), except the OSC payload rule, which no SGR consumer depends on."""


def parser_under_sgr(facts, rep):
    from rules import C02
    C02.run_rules(facts, rep, skip=("osc",))


def extractor(facts, rep):
    from rules import C07
    rep.guarded("codes", C07.FN + "csi_dispatch", lambda: C07.rule_codes(facts, rep))
    rep.guarded("substate", C07.FN + "csi_dispatch", lambda: C07.rule_substate(facts, rep))
    rep.guarded("emit", C07.FN + "csi_dispatch", lambda: C07.rule_emit(facts, rep))


def palette_tables(facts, rep):
    from rules import C13
    rep.guarded("colour-tables", "anstyle::color", lambda: C13.rule_colour_tables(facts, rep))
