"""Rules shared by C01/C02/C20: the transition table against the independent VT500 specification."""
import hir
from core import AnchorMissing, loc
from spec import vt500

CRATE = "anstyle_parse"
STATE = "anstyle_parse::state::definitions::State"
ACTION = "anstyle_parse::state::definitions::Action"


def enum_names(facts, path):
    it = facts.item(CRATE, path, "Enum")
    vs = it["variants"]
    return it, [v["name"] for v in vs], [v["discr"] for v in vs]


def table(facts):
    it = facts.item(CRATE, "anstyle_parse::state::table::STATE_CHANGES", "Const")
    b = it.get("bytes")
    if it.get("ty") != "[[u8; 256]; 16]" or b is None or len(b) != 4096:
        raise AnchorMissing("STATE_CHANGES is not a pointer-free [[u8; 256]; 16] constant")
    return it, [b[i * 256:(i + 1) * 256] for i in range(16)]


def check_encoding(facts, rep, rule="encoding"):
    """State/Action are fieldless repr(u8) enums with discriminants 0..=15 in the order the packed table uses."""
    ok = True
    for path, names in ((STATE, vt500.STATES), (ACTION, vt500.ACTIONS)):
        it, got_names, discr = enum_names(facts, path)
        where = f"{it['file']}:{it['ln']}"
        short = path.split("::")[-1]
        ok &= rep.check("Fixed(I8, false)" in it["repr"], rule, path, "repr(u8)",
                        f"{short} must be repr(u8) for the transmute in unpack: {it['repr'][:60]}", where)
        ok &= rep.check(all(not v["fields"] for v in it["variants"]), rule, path, "fieldless", "", where)
        ok &= rep.check(discr == list(range(16)), rule, path, "discriminants-0..15",
                        f"discriminants {discr}: every 4-bit value must be a valid variant (transmute soundness)", where)
        ok &= rep.check(got_names == names, rule, path, "variant-order",
                        f"variants {got_names} differ from the order the specification table is written in", where)
        rep.count(16)
    for cpath, n in (("anstyle_parse::state::definitions::STATES", "STATES"),
                     ("anstyle_parse::state::definitions::ACTIONS", "ACTIONS")):
        it = facts.item(CRATE, cpath, "Const")
        ok &= rep.check(it.get("bytes") == list(range(16)), rule, cpath, "index-i-is-variant-i",
                        f"{n}[i] must be the variant with discriminant i: {it.get('bytes')}", f"{it['file']}:{it['ln']}")
        rep.count(16)
    return ok


def effective_cell(rows, s_idx, byte):
    c = rows[0][byte]
    if c == 0:
        c = rows[s_idx][byte]
    return c & 0x0f, c >> 4


def check_table(facts, rep, rule="table"):
    """Every effective transition (Anywhere-first lookup) of the 14 real states x 256 bytes equals the spec."""
    it, rows = table(facts)
    where = f"{it['file']}:{it['ln']}"
    mism = 0
    for s in vt500.REAL_STATES:
        si = vt500.STATES.index(s)
        bad = []
        for b in range(256):
            ns, act = effective_cell(rows, si, b)
            want_ns, want_act = vt500.effective(s, b)
            want_ns_i = 0 if want_ns is None else vt500.STATES.index(want_ns)
            # a transition to the state itself and "stay" are the same effective target only when no
            # entry/exit action exists; the table encodes "stay" as Anywhere, so compare exactly.
            if ns != want_ns_i or vt500.ACTIONS[act] != want_act:
                bad.append((b, vt500.STATES[ns], vt500.ACTIONS[act], want_ns or "stay", want_act))
            rep.count()
        mism += len(bad)
        rep.check(not bad, rule, "STATE_CHANGES", f"row:{s}",
                  "; ".join(f"byte {b:#04x}: table ({n},{a}) spec ({wn},{wa})" for b, n, a, wn, wa in bad[:8])
                  + (f" … {len(bad)} cells" if len(bad) > 8 else ""), where)
    # Anywhere row itself: only 0x18, 0x1a, 0x1b are non-zero; Utf8 row: never consulted by table lookups
    any_nz = sorted(b for b in range(256) if rows[0][b] != 0)
    rep.check(any_nz == sorted(vt500.ANYWHERE), rule, "STATE_CHANGES", "row:Anywhere",
              f"non-zero Anywhere cells {[hex(b) for b in any_nz]}; CAN, SUB and ESC (and nothing else) act from every state",
              where)
    rep.check(all(c == 0 for c in rows[15]), rule, "STATE_CHANGES", "row:Utf8",
              "the Utf8 row must stay empty: UTF-8 bytes are handled out of band", where)
    rep.count(512)
    return rows, mism
