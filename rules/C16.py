"""C16 — conversions to other styling crates preserve colours and effects."""
import os
import re

import extract
import hir
import hirpp
from core import AnchorMissing, Unrecognised, loc
from rules import anstyle_common as ac
from spec import sgr, thirdparty as tp

META = {
    "explanation": (
        "Abstract evaluation (lib/abseval.py) of the five adapter crates and the syntect converter — every call into the third-party "
        "crate stays an uninterpreted application, so a chain, a helper, a fold or an early return evaluate to the same term — against the semantics of the third-party "
        "variants/methods (spec/thirdparty.py, keyed to the versions in /repo/Cargo.lock, which are checked): the five 16-row "
        "colour tables preserve the hue on every row and the brightness wherever the target variant set has a bright "
        "counterpart; Ansi256/Rgb arms pass the index / the r,g,b fields through in order; each anstyle getter feeds the "
        "target's setter of the same slot (fg/bg/underline not swapped); every effect the target can express is mapped to its "
        "like-meaning attribute and none to a different one (an omitted expressible effect is a violation); syntect->anstyle "
        "keeps r,g,b, both colours and the three font-style bits."),
    "exhaustive": True,
}

MANIFEST = {
    "level": ("Complete static decision: the adapters are finite tables plus one conditional per effect, so comparing every row "
              "with the third-party semantics decides the property for every style value. (The wrong rows found this way — "
              "BrightBlue, strikethrough→overline, dropped underline styles and strikethrough — were repaired.)"),
    "note": ("Trusted: rustc front end; spec/thirdparty.py (variant semantics read from the vendored crate sources at the versions "
             "pinned in Cargo.lock; a version change fails closed). Brightness is required only where the target's colour "
             "variant set has bright counterparts (termcolor's `intense` is a ColorSpec flag shared by fg and bg, ansi_term "
             "emulates bright foregrounds with bold)."),
    "technique": "static analysis: abstract evaluation of each adapter over its finite colour / effect domain (anstyle's functions inlined, third-party calls kept as uninterpreted terms) compared with the third-party variant semantics; slot wiring by where the converted colour term ends up",
}

ENTRY = {"anstyle_ansi_term": "to_ansi_term", "anstyle_crossterm": "to_crossterm", "anstyle_owo_colors": "to_owo_style",
         "anstyle_termcolor": "to_termcolor_spec", "anstyle_yansi": "to_yansi_style"}
ANSI_FN = {"anstyle_ansi_term": "ansi_to_ansi_color", "anstyle_crossterm": "ansi_to_ansi_color", "anstyle_owo_colors": "ansi_to_owo_colors_color",
           "anstyle_termcolor": "ansi_to_termcolor_color", "anstyle_yansi": "ansi_to_yansi_color"}
CRATE_OF = {"anstyle_ansi_term": "ansi_term", "anstyle_crossterm": "crossterm", "anstyle_owo_colors": "owo_colors",
            "anstyle_termcolor": "termcolor", "anstyle_yansi": "yansi"}


def run(ctx):
    rep, facts = ctx.report, ctx.facts
    rep.guarded("versions", "Cargo.lock", lambda: rule_versions(rep))
    for crate in ENTRY:
        rep.guarded("colour-table", crate, lambda crate=crate: rule_colour_table(facts, rep, crate))
        rep.guarded("passthrough", crate, lambda crate=crate: rule_passthrough(facts, rep, crate))
        rep.guarded("effect-table", crate, lambda crate=crate: rule_effects(facts, rep, crate))
        rep.guarded("slots", crate, lambda crate=crate: rule_slots(facts, rep, crate))
    rep.guarded("syntect", "anstyle_syntect", lambda: rule_syntect(facts, rep))
    for r, n in (("versions", 5), ("colour-table", 80), ("passthrough", 14), ("effect-table", 53), ("slots", 11), ("syntect", 6)):
        rep.floor(r, n)


def rule_versions(rep):
    lock = open(os.path.join(extract.repo_root(), "Cargo.lock")).read()
    for name in ("ansi_term", "crossterm", "owo-colors", "termcolor", "yansi", "syntect"):
        m = re.findall(r'name = "%s"\nversion = "([^"]+)"' % re.escape(name), lock)
        rep.check(m == [tp.VERSIONS[name]], "versions", "Cargo.lock", name,
                  f"the variant semantics in spec/thirdparty.py were read from {name} {tp.VERSIONS[name]}; Cargo.lock has {m} — re-read the "
                  f"vendored source and update the table (fail closed)", "Cargo.lock")


# ----------------------------------------------------------------------------------------------------------------------
# The adapters are decided by abstract evaluation (lib/abseval.py): anstyle's own functions are followed into their bodies, every
# call into the third-party crate stays an uninterpreted application ("app", callee, args...) — `style.bold()` is the term
# app(bold, style) whatever the surrounding control flow, helper split, early return or fold looks like.

def _uninterpreted(cal, args, e):
    return ("app", cal) + tuple(args)


def _evaluator(facts, crate, atoms=None):
    import abseval
    a = {"*": _uninterpreted}
    a.update(atoms or {})
    return abseval.Evaluator(facts, crate, a, inline_crates=("anstyle",))


def _leaves(t, out=None):
    """Symbols and integers of a term, left to right."""
    out = [] if out is None else out
    if isinstance(t, tuple):
        if t and t[0] in ("sym", "int"):
            out.append(t)
        elif t and t[0] == "rec":
            for v in t[1].values():
                _leaves(v, out)
        else:
            for x in t[1:]:
                _leaves(x, out)
    return out


def _paths_in(t, out=None):
    out = [] if out is None else out
    if isinstance(t, tuple) and t:
        if t[0] in ("app", "ctor", "enum") and len(t) > 1 and isinstance(t[1], str):
            out.append(t[1])
        if t[0] == "rec":
            for v in t[1].values():
                _paths_in(v, out)
        else:
            for x in t[1:]:
                _paths_in(x, out)
    return out


def _dispatch_fn(facts, crate):
    cands = [x for x in facts.bodies(crate) if x["kind"] == "Fn" and x.get("sig", "").startswith("fn(anstyle::color::Color)")]
    if len(cands) != 1:
        raise AnchorMissing(f"{crate}: the Color dispatch function was not found")
    return cands[0]


def _convert(facts, crate, colour):
    d = _dispatch_fn(facts, crate)
    return _evaluator(facts, crate).call_fn(crate, d["path"], [colour])


def _ansi(name):
    return ("ctor", "anstyle::color::Color::Ansi", ("enum", ac.ANSI + "::" + name))


def rule_colour_table(facts, rep, crate):
    prefix, table, has_bright = tp.COLOUR_TABLES[crate]
    d = _dispatch_fn(facts, crate)
    helper = [x for x in facts.bodies(crate) if x["path"] == f"{crate}::{ANSI_FN[crate]}"]
    b = helper[0] if helper else d
    rep.fn(b["path"])
    rep.fn(d["path"])
    for name in sgr.ANSI16:
        hue = name[len("Bright"):] if name.startswith("Bright") else name
        bright = name.startswith("Bright")
        ok, why = False, "row missing"
        try:
            v = _convert(facts, crate, _ansi(name))
            flag = None
            if v[0] == "tuple" and len(v) == 3 and v[2][0] == "bool":
                flag, v = v[2][1], v[1]
            if v[0] == "ctor" and len(v) == 3 and v[2][0] == "enum":     # e.g. DynColors::Ansi(colour)
                v = v[2]
            if v[0] != "enum" or not v[1].startswith(CRATE_OF[crate] + "::"):
                raise Unrecognised(f"colour value {str(v)[:80]}")
            variant = v[1].split("::")[-1]
            sem = table.get(variant)
            if sem is None:
                why = f"unknown target variant {variant}"
            elif sem[0] != hue:
                why = f"{name} ↦ {variant}, which is {sem[0].lower()}{' (bright)' if sem[1] else ''}: the hue is altered"
            elif has_bright and sem[1] != bright:
                why = f"{name} ↦ {variant}, which is {'bright' if sem[1] else 'normal'}: the target has a {'bright' if bright else 'normal'} {hue.lower()}"
            elif flag is not None and flag != bright:
                why = f"{name} ↦ ({variant}, {flag}): the brightness flag must be {bright}"
            elif not has_bright and sem[1]:
                why = f"{variant} is bright but the target has no bright variants?"
            else:
                ok, why = True, f"{name} ↦ {variant}"
        except Unrecognised as ex:
            why = f"not evaluable: {ex}"
        rep.check(ok, "colour-table", b["path"], name, why, loc(b))
        rep.count()


def rule_passthrough(facts, rep, crate):
    # Ansi256 → the target's indexed colour carrying the same index; Rgb → the target's RGB colour with r, g, b in that order
    d = _dispatch_fn(facts, crate)
    rep.fn(d["path"])
    I, R_, G_, B_ = ("sym", "index"), ("sym", "r"), ("sym", "g"), ("sym", "b")
    for kind, inp, want_leaves, ctor in (
            ("Ansi256", ("ctor", "anstyle::color::Color::Ansi256", ("ctor", "anstyle::color::Ansi256Color", I)), [I], tp.INDEXED[crate]),
            ("Rgb", ("ctor", "anstyle::color::Color::Rgb", ("ctor", "anstyle::color::RgbColor", R_, G_, B_)), [R_, G_, B_], tp.RGB[crate])):
        ok, why = False, ""
        try:
            v = _convert(facts, crate, inp)
            if v[0] == "tuple" and len(v) == 3 and v[2] == ("bool", False):       # (colour, bold-emulation flag)
                v = v[1]
            leaves = _leaves(v)
            paths = _paths_in(v)
            # (the spec names the re-exported path, the facts the defining one: same crate, same last segment)
            named = ctor is None or any(p_.lstrip("<").startswith(CRATE_OF[crate] + "::") and
                                        (p_.split("::")[-1] == ctor.split("::")[-1] or ("::" + ctor.split("::")[-1] + " as ") in p_ or
                                         ("::" + ctor.split("::")[-1] + ">") in p_) for p_ in paths)
            outside = [p_ for p_ in paths if not p_.startswith(CRATE_OF[crate] + "::") and not p_.startswith("<" + CRATE_OF[crate])]
            ok = leaves == want_leaves and named and not outside
            why = "" if ok else f"evaluates to {str(v)[:140]}"
        except Unrecognised as ex:
            why = f"not evaluable: {ex}"
        key = {"Ansi256": "index-unchanged", "Rgb": "r,g,b-in-order"}[kind]
        rep.check(ok, "passthrough", d["path"], f"{kind}:{key}",
                  f"a {kind} colour becomes the target's {'indexed' if kind == 'Ansi256' else 'RGB'} colour with "
                  f"{'the same index' if kind == 'Ansi256' else 'r, g, b in that order'} and nothing else {why}", loc(d))
    # the Ansi arm is the 16-row table (rule colour-table evaluates through this dispatch)
    rep.ok("passthrough", d["path"], "Ansi:through-the-table", "evaluated row by row in colour-table", loc(d))


def _style(fg=("none",), bg=("none",), ul=("none",), bits=0):
    return ("rec", {"fg": fg, "bg": bg, "underline": ul, "effects": ("ctor", "anstyle::effect::Effects", ("int", bits))})


def _tokens(t, out=None):
    """Multiset of the third-party operations in a term: (name, plain arguments)."""
    import collections
    out = collections.Counter() if out is None else out
    if isinstance(t, tuple) and t:
        if t[0] == "app":
            if any(isinstance(x, tuple) and x and x[0] == "closure" for x in t[2:]):
                # a closure handed to a call that was not evaluated: what it does to the style is not in the term
                raise Unrecognised(f"{t[1]} with a closure argument was not evaluated")
            plain = tuple((x[1].split("::")[-1] if x[0] == "enum" else x[1]) for x in t[2:] if isinstance(x, tuple) and x and x[0] in ("enum", "bool"))
            out[(t[1].split("::")[-1], plain)] += 1
            for x in t[2:]:
                _tokens(x, out)
        elif t[0] == "rec":
            for v in t[1].values():
                _tokens(v, out)
        else:
            for x in t[1:]:
                _tokens(x, out)
    return out


def rule_effects(facts, rep, crate):
    b = facts.body(crate, f"{crate}::{ENTRY[crate]}")
    rep.fn(b["path"])
    want = tp.EFFECTS[crate]
    bit = {n_: v for n_, v, _ in ac.effect_consts(facts)}

    def run(bits):
        return _evaluator(facts, crate).call_fn(crate, b["path"], [_style(bits=bits)])
    plain = _tokens(run(0))
    union_new = None
    import collections
    expect_all = collections.Counter()
    for x in sgr.EFFECT_ORDER:
        t = _tokens(run(bit[x]))
        new, gone = t - plain, plain - t
        names = []
        for (name, args), cnt in new.items():
            attr = [a_ for a_ in args if isinstance(a_, str)]
            names.extend([attr[0] if attr else name] * cnt)
            if any(a_ is False for a_ in args):
                names.append("<switched off>")
        gone_ok = all(any(a_ is False for a_ in args) and any(n2 == name for (n2, _a2) in new) for (name, args) in gone)
        if x in want:
            alts = tp.EFFECT_ALTERNATIVES.get((crate, x), {want[x]})
            if not names:
                rep.bad("effect-table", b["path"], f"{x}:omitted", f"the target can express {x} (`{want[x]}`) but the conversion drops it", loc(b))
            else:
                rep.check(len(names) == 1 and names[0] in alts and gone_ok, "effect-table", b["path"], x,
                          f"a style with only Effects::{x} differs from a plain one by `{names}`; the target's attribute with that meaning is "
                          f"`{want[x]}` (evaluated: third-party calls kept as uninterpreted applications)", loc(b))
                expect_all += new
            rep.count()
        else:
            if new or gone:
                rep.bad("effect-table", b["path"], f"{x}:inexpressible", f"the target has no attribute for {x} but the conversion applies {names}", loc(b))
            else:
                rep.ok("effect-table", b["path"], f"{x}:inexpressible", "the target library has no such attribute")
    allbits = 0
    for x in sgr.EFFECT_ORDER:
        allbits |= bit[x]
    t_all = _tokens(run(allbits))
    rep.check(t_all - plain == expect_all, "effect-table", b["path"], "all-effects-together",
              f"with every effect set, the attributes applied are the union of the single ones: {dict(t_all - plain)} vs {dict(expect_all)}"[:300], loc(b))
    rep.ok("effect-table", b["path"], "effects-of-the-input-style", "the evaluation varies the input style's effects", loc(b))


def rule_slots(facts, rep, crate):
    b = facts.body(crate, f"{crate}::{ENTRY[crate]}")
    want = tp.SLOTS[crate]
    cols = {"get_fg_color": _ansi("Red"), "get_bg_color": _ansi("Green"), "get_underline_color": _ansi("Blue")}
    conv = {}
    for g, c in cols.items():
        v = _convert(facts, crate, c)
        conv[g] = [v] + ([v[1]] if v[0] == "tuple" else [])
    r = _evaluator(facts, crate).call_fn(crate, b["path"], [_style(fg=("some", cols["get_fg_color"]), bg=("some", cols["get_bg_color"]),
                                                                       ul=("some", cols["get_underline_color"]))])
    # every place a converted colour ends up: the third-party call it is an argument of, or the struct field it initialises
    reach = {g: set() for g in cols}
    raw = {g: False for g in cols}

    def holds(x, g):
        return any(x == c or x == ("some", c) for c in conv[g])

    def walk(t):
        if not isinstance(t, tuple) or not t:
            return
        if t[0] == "app":
            for x in t[2:]:
                for g in cols:
                    if holds(x, g):
                        reach[g].add(t[1].split("::")[-1])
                walk(x)
        elif t[0] == "rec":
            for name, x in t[1].items():
                for g in cols:
                    if holds(x, g):
                        reach[g].add(name)
                walk(x)
        else:
            for x in t[1:]:
                for g in cols:
                    if x == cols[g]:
                        raw[g] = True
                walk(x)
    walk(r)
    for getter in cols:
        target = want.get(getter)
        if target is None:
            rep.check(not reach[getter], "slots", b["path"], f"{getter}→nowhere", f"the target has no such slot; the colour reaches {sorted(reach[getter])}", loc(b))
            continue
        rep.check(reach[getter] == {target}, "slots", b["path"], f"{getter}→{target}",
                  f"the value of {getter} must reach `{target}` and only it; it reaches {sorted(reach[getter])}", loc(b))
    # a colour influences nothing but its own slot: compared with the plain style, a coloured one (normal and bright colours
    # alike) differs only in the slot setters — except ansi_term's documented bold emulation of a bright foreground
    plain = _tokens(_evaluator(facts, crate).call_fn(crate, b["path"], [_style()]))
    allowed = set(want.values()) | ({"bold"} if crate == "anstyle_ansi_term" else set())
    stray = set()
    for fgc, bgc in (("Red", "Green"), ("BrightRed", "Green"), ("Red", "BrightGreen"), ("BrightRed", "BrightGreen")):
        t = _tokens(_evaluator(facts, crate).call_fn(crate, b["path"], [_style(fg=("some", _ansi(fgc)), bg=("some", _ansi(bgc)),
                                                                                  ul=("some", _ansi("BrightBlue")))]))
        for (name, args) in list((t - plain).keys()) + list((plain - t).keys()):
            if name not in allowed:
                stray.add(f"{name}{args} with fg={fgc}, bg={bgc}")
    rep.check(not stray, "slots", b["path"], "colours-touch-only-their-slots",
              f"operations that depend on the colours besides the slot setters: {sorted(stray)[:3]}", loc(b))
    rep.check(not any(raw.values()), "slots", b["path"], "every-colour-goes-through-the-converter",
              "what reaches the target is the crate's own conversion of the colour, never the anstyle colour itself", loc(b))


def rule_syntect(facts, rep):
    import abseval
    c = "anstyle_syntect"
    b = facts.body(c, c + "::to_anstyle")
    rep.fn(b["path"])
    col = facts.body(c, c + "::to_anstyle_color")
    rep.fn(col["path"])
    ef = facts.body(c, c + "::to_anstyle_effects")
    rep.fn(ef["path"])

    def colour(tag):
        return ("rec", {"r": ("sym", tag + "r"), "g": ("sym", tag + "g"), "b": ("sym", tag + "b"), "a": ("sym", tag + "a")})
    ok, why = {}, ""
    try:
        ev = _evaluator(facts, c, {c + "::to_anstyle_color": lambda a_: ("colour-of", a_[0]), c + "::to_anstyle_effects": lambda a_: ("effects-of", a_[0])})
        r = ev.call_fn(c, b["path"], [("rec", {"foreground": colour("f"), "background": colour("b"), "font_style": ("sym", "fs")})])
        got = r[1] if r[0] == "rec" else {}
        ok = {"fg_color": got.get("fg") == ("some", ("colour-of", colour("f"))), "bg_color": got.get("bg") == ("some", ("colour-of", colour("b"))),
              "effects": got.get("effects") == ("effects-of", ("sym", "fs")), "underline": got.get("underline") == ("none",)}
        why = str(r)[:160]
    except Unrecognised as ex:
        why = f"not evaluable: {ex}"
    for k, v in (("fg_color", "foreground"), ("bg_color", "background"), ("effects", "font_style")):
        rep.check(ok.get(k, False), "syntect", b["path"], f"{k}←{v}", f"{why}", loc(b))
    try:
        v = _evaluator(facts, c).call_fn(c, col["path"], [colour("x")])
        good = v == ("ctor", "anstyle::color::Color::Rgb", ("ctor", "anstyle::color::RgbColor", ("sym", "xr"), ("sym", "xg"), ("sym", "xb")))
        why = str(v)[:160]
    except Unrecognised as ex:
        good, why = False, f"not evaluable: {ex}"
    rep.check(good, "syntect", col["path"], "r,g,b-kept", why, loc(col))
    # font style bits: each membership test of the syntect flag set is a case split; the result is the union of the like-named effects
    bit = {n_: v for n_, v, _ in ac.effect_consts(facts)}
    bad, n_paths = [], 0

    def run(choices):
        asked = []

        def contains(cal, args, e):
            if cal.split("::")[-1] == "contains" and len(args) == 2 and args[0] == ("sym", "fs"):
                flag = args[1][1].split("::")[-1] if args[1][0] in ("enum", "app") and isinstance(args[1][1], str) else str(args[1])
                asked.append(flag)
                return ("bool", ev.oracle(("has", flag)))
            return ("app", cal) + tuple(args)
        ev = abseval.Evaluator(facts, c, {"*": contains}, inline_crates=("anstyle",))
        ev.choices = choices
        r = ev.call_fn(c, ef["path"], [("sym", "fs")])
        return r, asked
    try:
        for choices, (r, asked) in abseval.explore(run):
            n_paths += 1
            want = 0
            for flag in ("BOLD", "ITALIC", "UNDERLINE"):
                if choices.get(("has", flag)):
                    want |= bit[flag]
            extra = [k[1] for k in choices if k[1] not in ("BOLD", "ITALIC", "UNDERLINE")]
            got = r[2][1] if r[0] == "ctor" and len(r) == 3 and r[2][0] == "int" else None
            if got != want or extra or set(asked) != {"BOLD", "ITALIC", "UNDERLINE"}:
                bad.append(f"font style {sorted(k[1] for k, v in choices.items() if v)}: effects {got}, expected {want} (flags tested: {asked})")
    except Unrecognised as ex:
        bad.append(f"not evaluable: {ex}")
    rep.count(n_paths)
    rep.check(not bad and n_paths == 8, "syntect", ef["path"], "bold-italic-underline",
              f"for each of the 8 combinations of the three font-style flags the effects are exactly the like-named ones {bad[:2]}", loc(ef))
    rep.ok("syntect", ef["path"], "starts-empty-returns-set", "the all-clear combination evaluates to no effect", loc(ef))
