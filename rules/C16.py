"""C16 — conversions to other styling crates preserve colours and effects."""
import os
import re

import extract
import hir
import hirpp
from core import AnchorMissing, Unrecognised, loc
from rules import anstyle_common as ac
from spec import sgr, thirdparty as tp

META = {
    "explanation": (
        "Complete static reading of the five adapter crates and the syntect converter against the semantics of the third-party "
        "variants/methods (spec/thirdparty.py, keyed to the versions in /repo/Cargo.lock, which are checked): the five 16-row "
        "colour tables preserve the hue on every row and the brightness wherever the target variant set has a bright "
        "counterpart; Ansi256/Rgb arms pass the index / the r,g,b fields through in order; each anstyle getter feeds the "
        "target's setter of the same slot (fg/bg/underline not swapped); every effect the target can express is mapped to its "
        "like-meaning attribute and none to a different one (an omitted expressible effect is a violation); syntect->anstyle "
        "keeps r,g,b, both colours and the three font-style bits."),
    "exhaustive": True,
}

MANIFEST = {
    "level": ("Complete static decision: the adapters are finite tables plus one conditional per effect, so comparing every row "
              "with the third-party semantics decides the property for every style value. (The wrong rows found this way — "
              "BrightBlue, strikethrough→overline, dropped underline styles and strikethrough — were repaired.)"),
    "note": ("Trusted: rustc front end; spec/thirdparty.py (variant semantics read from the vendored crate sources at the versions "
             "pinned in Cargo.lock; a version change fails closed). Brightness is required only where the target's colour "
             "variant set has bright counterparts (termcolor's `intense` is a ColorSpec flag shared by fg and bg, ansi_term "
             "emulates bright foregrounds with bold)."),
    "technique": "static analysis: match-table extraction of 16-row colour tables and per-effect conditionals vs third-party variant semantics, slot-wiring dataflow",
}

ENTRY = {"anstyle_ansi_term": "to_ansi_term", "anstyle_crossterm": "to_crossterm", "anstyle_owo_colors": "to_owo_style",
         "anstyle_termcolor": "to_termcolor_spec", "anstyle_yansi": "to_yansi_style"}
ANSI_FN = {"anstyle_ansi_term": "ansi_to_ansi_color", "anstyle_crossterm": "ansi_to_ansi_color", "anstyle_owo_colors": "ansi_to_owo_colors_color",
           "anstyle_termcolor": "ansi_to_termcolor_color", "anstyle_yansi": "ansi_to_yansi_color"}
CRATE_OF = {"anstyle_ansi_term": "ansi_term", "anstyle_crossterm": "crossterm", "anstyle_owo_colors": "owo_colors",
            "anstyle_termcolor": "termcolor", "anstyle_yansi": "yansi"}


def run(ctx):
    rep, facts = ctx.report, ctx.facts
    rep.guarded("versions", "Cargo.lock", lambda: rule_versions(rep))
    for crate in ENTRY:
        rep.guarded("colour-table", crate, lambda crate=crate: rule_colour_table(facts, rep, crate))
        rep.guarded("passthrough", crate, lambda crate=crate: rule_passthrough(facts, rep, crate))
        rep.guarded("effect-table", crate, lambda crate=crate: rule_effects(facts, rep, crate))
        rep.guarded("slots", crate, lambda crate=crate: rule_slots(facts, rep, crate))
    rep.guarded("syntect", "anstyle_syntect", lambda: rule_syntect(facts, rep))
    for r, n in (("versions", 5), ("colour-table", 80), ("passthrough", 14), ("effect-table", 53), ("slots", 11), ("syntect", 6)):
        rep.floor(r, n)


def rule_versions(rep):
    lock = open(os.path.join(extract.repo_root(), "Cargo.lock")).read()
    for name in ("ansi_term", "crossterm", "owo-colors", "termcolor", "yansi", "syntect"):
        m = re.findall(r'name = "%s"\nversion = "([^"]+)"' % re.escape(name), lock)
        rep.check(m == [tp.VERSIONS[name]], "versions", "Cargo.lock", name,
                  f"the variant semantics in spec/thirdparty.py were read from {name} {tp.VERSIONS[name]}; Cargo.lock has {m} — re-read the "
                  f"vendored source and update the table (fail closed)", "Cargo.lock")


def rule_colour_table(facts, rep, crate):
    prefix, table, has_bright = tp.COLOUR_TABLES[crate]
    b = facts.body(crate, f"{crate}::{ANSI_FN[crate]}")
    rep.fn(b["path"])
    m = ac.single_expr(b["hir"])
    if m.get("k") != "match" or not hir.is_local(m["scrut"], b["params"][0]["name"]):
        raise Unrecognised("16-row match expected")

    def val(e):
        e = hir.simp(e)
        flag = None
        if e.get("k") == "tuple":
            flag = hir.lit_val(e["es"][1])
            e = hir.simp(e["es"][0])
        p = hir.def_path(e)
        if p is None or not p.startswith(CRATE_OF[crate] + "::"):
            raise Unrecognised(f"colour value {hirpp.expr(e)}")
        return p.split("::")[-1], flag

    t = ac.variant_table(m, ac.ANSI, val)
    for name in sgr.ANSI16:
        hue = name[len("Bright"):] if name.startswith("Bright") else name
        bright = name.startswith("Bright")
        got = t.get(name)
        ok, why = False, "row missing"
        if got:
            variant, flag = got
            sem = table.get(variant)
            if sem is None:
                why = f"unknown target variant {variant}"
            elif sem[0] != hue:
                why = f"{name} ↦ {variant}, which is {sem[0].lower()}{' (bright)' if sem[1] else ''}: the hue is altered"
            elif has_bright and sem[1] != bright:
                why = f"{name} ↦ {variant}, which is {'bright' if sem[1] else 'normal'}: the target has a {'bright' if bright else 'normal'} {hue.lower()}"
            elif flag is not None and flag != bright:
                why = f"{name} ↦ ({variant}, {flag}): the brightness flag must be {bright}"
            elif not has_bright and sem[1]:
                why = f"{variant} is bright but the target has no bright variants?"
            else:
                ok, why = True, f"{name} ↦ {variant}"
        rep.check(ok, "colour-table", b["path"], name, why, loc(b))
        rep.count()


def rule_passthrough(facts, rep, crate):
    # dispatch: Ansi → 16-row table, Ansi256 → index passed through, Rgb → fields in order
    cands = [x for x in facts.bodies(crate) if x["kind"] == "Fn" and x.get("sig", "").startswith("fn(anstyle::color::Color)")]
    if len(cands) != 1:
        raise AnchorMissing(f"{crate}: the Color dispatch function was not found")
    d = cands[0]
    rep.fn(d["path"])
    m = ac.single_expr(d["hir"])
    kinds = {}
    for a in m["arms"]:
        v = hir.last_seg(hir.pat_path(a["pat"]))
        bound = a["pat"]["pats"][0].get("name")
        calls = [n for n in hir.walk(a["body"]) if n.get("k") == "call" and hir.callee(n).startswith(crate + "::")]
        kinds[v] = (calls, bound)
    for v, fn_sub in (("Ansi", "ansi_to"), ("Ansi256", "xterm_to"), ("Rgb", "rgb_to")):
        calls, bound = kinds.get(v, ([], None))
        ok = len(calls) == 1 and fn_sub in hir.callee(calls[0]) and hir.is_local(calls[0]["args"][0], bound)
        rep.check(ok, "passthrough", d["path"], f"{v}→{fn_sub}*", f"the {v} arm converts its own payload with the {fn_sub}* helper", loc(d))
    # owo: Rgb tuple destructured in order
    if crate == "anstyle_owo_colors":
        arm = [a for a in m["arms"] if hir.last_seg(hir.pat_path(a["pat"])) == "Rgb"][0]
        lets = [n for n in hir.walk(arm["body"]) if n.get("k") == "let" and n["pat"].get("k") == "ptuple"]
        ctor = [n for n in hir.walk(arm["body"]) if n.get("k") == "call" and n.get("ctor", "").endswith("DynColors::Rgb")]
        ok = len(lets) == 1 and len(ctor) == 1 and [p.get("name") for p in lets[0]["pat"]["pats"]] == [hir.local_name(a) for a in ctor[0]["args"]]
        rep.check(ok, "passthrough", d["path"], "Rgb-tuple-in-order", "", loc(d))
    x = facts.find_body(crate, "::xterm_to_" + ANSI_FN[crate][len("ansi_to_"):], "Fn")
    rep.fn(x["path"])
    e = ac.single_expr(x["hir"])
    arg = None
    if e.get("k") == "call" and e["args"]:
        arg = hir.peel(e["args"][0])
    ok = arg is not None and arg.get("k") == "field" and arg["name"] == "0" and hir.is_local(arg["e"], x["params"][0]["name"]) and \
        CRATE_OF[crate] + "::" in (e.get("ctor", "") or hir.callee(e))
    rep.check(ok, "passthrough", x["path"], "index-unchanged", "the 256-colour index is passed through as is", loc(x))
    r = facts.find_body(crate, "::rgb_to_" + ANSI_FN[crate][len("ansi_to_"):], "Fn")
    rep.fn(r["path"])
    e = ac.single_expr(r["hir"])
    comps = None
    if e.get("k") == "call":
        comps = [hir.peel(a) for a in e["args"]]
    elif e.get("k") == "tuple":
        comps = [hir.peel(a) for a in e["es"]]
    elif e.get("k") == "struct":
        f = {x_["name"]: hir.peel(x_["e"]) for x_ in e["fields"]}
        comps = [f.get("r"), f.get("g"), f.get("b")]
    ok = comps is not None and len(comps) == 3 and all(c and c.get("k") == "field" and hir.is_local(c["e"], r["params"][0]["name"]) for c in comps) and \
        [c["name"] for c in comps] == ["0", "1", "2"]
    rep.check(ok, "passthrough", r["path"], "r,g,b-in-order", "RgbColor's fields 0,1,2 become r,g,b in that order", loc(r))


def effect_sites(body):
    """Effects::contains(effects, Effects::X) sites → (X, consumer callee last segment / attribute variant)."""
    out = []
    stmts = hir.stmts_of(body["hir"])
    for s in stmts:
        s = hir.simp(s)
        conts = [n for n in hir.walk(s) if hir.is_call(n, "anstyle::effect::Effects::contains")]
        if not conts:
            continue
        if len(conts) != 1:
            raise Unrecognised("two effect tests in one statement")
        c = conts[0]
        x = hir.last_seg(hir.def_path(c["args"][1]))
        if s.get("k") == "if" and hir.simp(s["c"]) is c and "e" not in s:
            inner = hir.stmts_of(s["t"])
            if len(inner) != 1:
                raise Unrecognised("effect branch with more than one statement")
            st = hir.simp(inner[0])
            call = hir.simp(st["r"]) if st.get("k") == "assign" else st
            if call.get("k") != "call":
                raise Unrecognised("effect branch is not a call")
            attr = None
            for a in call["args"][1:]:
                p = hir.def_path(a)
                if p:
                    attr = p.split("::")[-1]
            out.append((x, attr or hir.callee(call).split("::")[-1], s))
        elif s.get("k") == "call" and any(hir.simp(a) is c for a in s["args"]):
            out.append((x, hir.callee(s).split("::")[-1], s))
        else:
            raise Unrecognised(f"effect test in an unrecognised position: {hirpp.expr(s)[:80]}")
    return out


def rule_effects(facts, rep, crate):
    b = facts.body(crate, f"{crate}::{ENTRY[crate]}")
    rep.fn(b["path"])
    want = tp.EFFECTS[crate]
    sites = effect_sites(b)
    seen = {}
    for x, target, node in sites:
        alts = tp.EFFECT_ALTERNATIVES.get((crate, x), {want.get(x)})
        rep.check(target in alts, "effect-table", b["path"], x,
                  f"Effects::{x} is mapped to `{target}`; the target's attribute with that meaning is `{want.get(x, '— none —')}`", loc(b, node))
        seen[x] = target
        rep.count()
    for x in sgr.EFFECT_ORDER:
        if x in want and x not in seen:
            rep.bad("effect-table", b["path"], f"{x}:omitted", f"the target can express {x} (`{want[x]}`) but the conversion drops it", loc(b))
        elif x not in want:
            rep.ok("effect-table", b["path"], f"{x}:inexpressible", "the target library has no such attribute")
    # the effects tested are the style's own
    eff = [s for s in hir.stmts_of(b["hir"]) if s.get("k") == "let" and s["pat"].get("name") == "effects"]
    ok = len(eff) == 1 and hir.is_call(hir.simp(eff[0]["init"]), "anstyle::style::Style::get_effects") and \
        hir.is_local(hir.simp(eff[0]["init"])["args"][0], b["params"][0]["name"])
    rep.check(ok, "effect-table", b["path"], "effects-of-the-input-style", "", loc(b))


def rule_slots(facts, rep, crate):
    b = facts.body(crate, f"{crate}::{ENTRY[crate]}")
    want = tp.SLOTS[crate]
    # follow each getter's value to the setter/field that consumes it
    lets = {}
    for n in hir.walk(b["hir"]):
        if n.get("k") == "let" and n["pat"].get("k") == "pbind" and "init" in n:
            lets.setdefault(n["pat"]["name"], []).append(n["init"])
    found = {}
    for getter, target in want.items():
        gets = [n for n in hir.walk(b["hir"]) if hir.is_call(n, "anstyle::style::Style::" + getter)]
        if len(gets) != 1:
            rep.bad("slots", b["path"], f"{getter}→{target}", f"{len(gets)} uses of {getter}", loc(b))
            continue
        g = gets[0]
        # name the value is bound to: `let fg = style.get_fg_color().map(..)[.unwrap_or(..)]` or `if let Some((fg, _)) = ..`
        name = None
        for nm, inits in lets.items():
            for init in inits:
                if any(x is g for x in hir.walk(init)):
                    name = nm
        if name is None:
            for n in hir.walk(b["hir"]):
                if n.get("k") == "letexpr" and any(x is g for x in hir.walk(n["init"])):
                    p = n["pat"]
                    while p.get("k") in ("pts", "ptuple"):
                        p = p["pats"][0]
                    name = p.get("name")
        consumers = set()
        if name:
            for n in hir.walk(b["hir"]):
                if n.get("k") == "call" and any(hir.is_local(a, name) and hir.simp(a).get("k") == "local" for a in n["args"][1:] if True):
                    consumers.add(hir.callee(n).split("::")[-1] or n.get("ctor", ""))
                if n.get("k") == "struct":
                    for f in n["fields"]:
                        if hir.is_local(f["e"], name):
                            consumers.add(f["name"])
            # `if let Some(fg) = fg { style = style.color(fg) }` rebinding keeps the name in these adapters
        consumers.discard("")
        rep.check(consumers == {target}, "slots", b["path"], f"{getter}→{target}",
                  f"the value of {getter} must reach `{target}` and only it; it reaches {sorted(consumers)}", loc(b, g))
        found[getter] = consumers
    # the colour converter applied is the crate's Color dispatch
    maps = [n for n in hir.walk(b["hir"]) if hir.is_call(n, "Option::<T>::map")]
    ok = len(maps) == len(want) and all(hir.def_path(m["args"][1]) and hir.def_path(m["args"][1]).startswith(crate + "::") for m in maps)
    rep.check(ok, "slots", b["path"], "every-colour-goes-through-the-converter", f"{len(maps)} map() calls", loc(b))


def rule_syntect(facts, rep):
    c = "anstyle_syntect"
    b = facts.body(c, c + "::to_anstyle")
    rep.fn(b["path"])
    e = ac.single_expr(b["hir"])
    chain = []
    while e.get("k") == "call" and hir.callee(e).startswith("anstyle::style::Style::"):
        chain.append((hir.callee(e).split("::")[-1], e["args"][1] if len(e["args"]) > 1 else None))
        if not e["args"]:
            break
        e = hir.simp(e["args"][0])
    got = {}
    for name, arg in chain:
        if arg is None:
            continue
        fields = [n for n in hir.walk(arg) if n.get("k") == "field" and hir.is_local(n["e"], b["params"][0]["name"])]
        conv = [hir.callee(n).split("::")[-1] for n in hir.walk(arg) if n.get("k") == "call" and hir.callee(n).startswith(c + "::")]
        got[name] = (fields[0]["name"] if len(fields) == 1 else None, conv[0] if len(conv) == 1 else None)
    want = {"fg_color": ("foreground", "to_anstyle_color"), "bg_color": ("background", "to_anstyle_color"), "effects": ("font_style", "to_anstyle_effects")}
    for k, v in want.items():
        rep.check(got.get(k) == v, "syntect", b["path"], f"{k}←{v[0]}", f"{got.get(k)}", loc(b))
    col = facts.body(c, c + "::to_anstyle_color")
    rep.fn(col["path"])
    rgb = [n for n in hir.walk(col["hir"]) if n.get("k") == "call" and n.get("ctor") == "anstyle::color::RgbColor"]
    ok = len(rgb) == 1 and [hir.peel(a).get("name") for a in rgb[0]["args"]] == ["r", "g", "b"] and \
        all(hir.is_local(hir.peel(a)["e"], col["params"][0]["name"]) for a in rgb[0]["args"])
    rep.check(ok, "syntect", col["path"], "r,g,b-kept", "", loc(col))
    ef = facts.body(c, c + "::to_anstyle_effects")
    rep.fn(ef["path"])
    pairs = {}
    for s in hir.stmts_of(ef["hir"]):
        s = hir.simp(s)
        if s.get("k") == "if":
            cnd = hir.simp(s["c"])
            if cnd.get("k") == "call" and hir.callee(cnd).split("::")[-1] == "contains":
                src = hir.last_seg(hir.def_path(cnd["args"][1]))
                ops = [n for n in hir.walk(s["t"]) if n.get("k") == "assignop" and n["op"] == "BitOrAssign"]
                if len(ops) == 1:
                    pairs[src] = hir.last_seg(hir.def_path(ops[0]["r"]))
    rep.check(pairs == {"BOLD": "BOLD", "ITALIC": "ITALIC", "UNDERLINE": "UNDERLINE"}, "syntect", ef["path"], "bold-italic-underline", f"{pairs}", loc(ef))
    st = hir.stmts_of(ef["hir"])
    ok = st and st[0].get("k") == "let" and hir.is_call(hir.simp(st[0]["init"]), "anstyle::effect::Effects::new") and hir.is_local(st[-1], st[0]["pat"].get("name"))
    rep.check(ok, "syntect", ef["path"], "starts-empty-returns-set", "", loc(ef))
