#!/bin/sh
# Build the fact-extraction driver (offline; zero cargo dependencies; nightly via rust-toolchain.toml).
set -e
cd "$(dirname "$0")/driver"
CARGO_NET_OFFLINE=true cargo build --release --offline
test -x target/release/verif-driver
echo "driver built"
