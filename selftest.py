"""Both-ways self-test of the static rules.

For every entry of selftest/index.json: copy /repo's sources to a scratch directory outside /repo and /verif, apply the
mutant patch, run the named property check against the scratch tree and require that it reports a violation whose key
contains the expected fragment.  The scratch tree and its evidence are removed afterwards.  The unmutated tree must be
silent (that is what the registered quick commands establish); `--clean` re-checks it here as well.
"""
import json
import os
import shutil
import subprocess
import sys
import tempfile
import time
from concurrent.futures import ThreadPoolExecutor

HERE = os.path.dirname(os.path.abspath(__file__))
REPO = os.path.abspath(os.environ.get("VERIF_REPO", "/repo"))


def make_scratch(patch, tag):
    d = tempfile.mkdtemp(prefix=f"anstyle-selftest-{tag.replace(chr(47), chr(95))}-", dir=os.environ.get("VERIF_SCRATCH_ROOT", "/tmp"))
    for name in ("Cargo.toml", "Cargo.lock", "README.md"):
        if os.path.exists(os.path.join(REPO, name)):
            shutil.copy(os.path.join(REPO, name), os.path.join(d, name))
    shutil.copytree(os.path.join(REPO, "crates"), os.path.join(d, "crates"),
                    ignore=shutil.ignore_patterns("target"))
    p = subprocess.run(["patch", "-p1", "--no-backup-if-mismatch", "-s", "-i", patch], cwd=d, capture_output=True, text=True)
    if p.returncode != 0:
        shutil.rmtree(d, ignore_errors=True)
        raise RuntimeError(f"patch {patch} does not apply: {p.stdout} {p.stderr}")
    return d


def run_one(m, worker):
    t0 = time.time()
    patch = os.path.join(HERE, m["patch"])
    try:
        d = make_scratch(patch, m["name"])
    except RuntimeError as e:
        return m, False, str(e), 0.0
    evd = tempfile.mkdtemp(prefix="anstyle-selftest-ev-")
    try:
        env = dict(os.environ)
        env["VERIF_REPO"] = d
        env["VERIF_EVIDENCE_DIR"] = evd
        env["VERIF_CACHE_TAG"] = f"w{worker}"
        outs = []
        ok = True
        for prop, expect in m["expect"].items():
            p = subprocess.run([os.path.join(HERE, "check"), prop], cwd=HERE, env=env, capture_output=True, text=True)
            out = p.stdout + p.stderr
            fired = p.returncode == 1 and f"VIOLATION property={prop}" in p.stdout
            keys = [l.strip()[len("violation "):] for l in p.stdout.splitlines() if l.strip().startswith("violation ")]
            hit = [k for k in keys if expect in k]
            if not (fired and hit):
                ok = False
                outs.append(f"{prop}: rc={p.returncode} expected key fragment `{expect}`; got keys {keys[:6]}\n{out[-1500:]}")
            else:
                outs.append(f"{prop}: fired {hit[0]}")
        return m, ok, "\n".join(outs), time.time() - t0
    finally:
        shutil.rmtree(d, ignore_errors=True)
        shutil.rmtree(evd, ignore_errors=True)


def seeded_entries():
    """The independently written breaking changes under seeded/ (kind != benign-refactor): each must make the check of the
    property it breaks report a violation."""
    import glob
    out = []
    for mp in sorted(glob.glob(os.path.join(HERE, "seeded", "*", "meta.json"))):
        m = json.load(open(mp))
        if m.get("kind") == "benign-refactor":
            continue
        prop = m["breaks_property"]
        out.append({"name": "seeded/" + m["id"], "patch": os.path.join("seeded", m["id"], "patch.diff"), "expect": {prop: prop + "|"},
                    "suite_passes": bool(m.get("confirmed_by_me", {}).get("suite_passes_with_change"))})
    return out


def benign_entries():
    """Behaviour-preserving refactors under seeded/ (kind == benign-refactor): every check must stay silent on them."""
    import glob
    out = []
    for mp in sorted(glob.glob(os.path.join(HERE, "seeded", "*", "meta.json"))):
        m = json.load(open(mp))
        if m.get("kind") == "benign-refactor":
            out.append({"name": "seeded/" + m["id"], "patch": os.path.join("seeded", m["id"], "patch.diff"), "silent": m.get("silent_checks", [])})
    return out


def main(names, jobs):
    idx = json.load(open(os.path.join(HERE, "selftest", "index.json")))
    if "--seeded" in names or any(n.startswith("seeded") for n in names):
        names = [n for n in names if n != "--seeded"]
        idx = idx + seeded_entries()
    ms = [m for m in idx if not names or m["name"] in names or any(n in m["name"] for n in names)]
    print(f"selftest: {len(ms)} mutants")
    fails = 0
    # extraction is serialised by a lock on the shared cargo target directory, so run sequentially by default
    jobs = 1
    with ThreadPoolExecutor(max_workers=jobs) as ex:
        for m, ok, out, dt in ex.map(lambda im: run_one(im[1], im[0] % jobs), enumerate(ms)):
            print(f"  [{'ok ' if ok else 'MISS'}] {m['name']:44s} {dt:5.1f}s  {out.splitlines()[0] if out else ''}")
            if not ok:
                fails += 1
                print("      " + out.replace("\n", "\n      "))
    print(f"selftest: {len(ms) - fails}/{len(ms)} mutants detected")
    return 1 if fails else 0


def for_property(prop):
    """Run the mutants whose expectation names `prop` (used by the thorough tier); returns a summary for the evidence file."""
    idx = json.load(open(os.path.join(HERE, "selftest", "index.json")))
    vpath = os.path.join(HERE, "selftest", "verified.json")
    verified = json.load(open(vpath)) if os.path.exists(vpath) else {}
    ms = [dict(m, expect={prop: m["expect"][prop]}) for m in idx if prop in m["expect"]]
    ms += [m for m in seeded_entries() if prop in m["expect"]]
    out = {"mutants": len(ms), "detected": 0, "missed": [], "skipped": [], "suite_surviving": 0}
    for m in ms:
        try:
            _, ok, detail, _ = run_one(m, 0)
        except Exception as e:
            out["skipped"].append(f"{m['name']}: {e}")
            continue
        if "does not apply" in detail:
            out["skipped"].append(m["name"])
            continue
        if ok:
            out["detected"] += 1
            if verified.get(m["name"], {}).get("tests_pass") or m.get("suite_passes"):
                out["suite_surviving"] += 1
        else:
            out["missed"].append(m["name"])
    return out
