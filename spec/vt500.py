"""Independent specification of the parser's transition function.

Written from Paul Williams' DEC ANSI parser (vt100.net/emu/dec_ansi_parser) as range rules per state,
with the crate's *documented* deviations applied as an explicit list (see DESIGN.md §3, Appendix D).
It is NOT derived from state/codegen.rs or state/table.rs.

effective(state, byte) -> (next_state | None for "stay", action)
"""

STATES = ["Anywhere", "CsiEntry", "CsiIgnore", "CsiIntermediate", "CsiParam", "DcsEntry", "DcsIgnore",
          "DcsIntermediate", "DcsParam", "DcsPassthrough", "Escape", "EscapeIntermediate", "Ground",
          "OscString", "SosPmApcString", "Utf8"]
ACTIONS = ["Nop", "Clear", "Collect", "CsiDispatch", "EscDispatch", "Execute", "Hook", "Ignore", "OscEnd",
           "OscPut", "OscStart", "Param", "Print", "Put", "Unhook", "BeginUtf8"]

REAL_STATES = [s for s in STATES if s not in ("Anywhere", "Utf8")]

C0 = set(range(0x00, 0x18)) | {0x19} | set(range(0x1c, 0x20))


def R(lo, hi):
    return set(range(lo, hi + 1))


def _rules():
    """state -> list of (byte set, next state or None, action); first match wins."""
    r = {}
    r["Ground"] = [
        (C0, None, "Execute"),
        (R(0x20, 0x7f), None, "Print"),
        # deviation: 8-bit C1 controls are only *executed* in Ground (no 8-bit introducers)
        (R(0x80, 0x8f) | R(0x91, 0x9a) | {0x9c}, None, "Execute"),
        # deviation: UTF-8 lead bytes start out-of-band decoding
        (R(0xc2, 0xf4), "Utf8", "BeginUtf8"),
    ]
    r["Escape"] = [
        (C0, None, "Execute"),
        ({0x7f}, None, "Ignore"),
        (R(0x20, 0x2f), "EscapeIntermediate", "Collect"),
        ({0x5b}, "CsiEntry", "Nop"),
        ({0x5d}, "OscString", "Nop"),
        ({0x50}, "DcsEntry", "Nop"),
        ({0x58, 0x5e, 0x5f}, "SosPmApcString", "Nop"),
        (R(0x30, 0x4f) | R(0x51, 0x57) | {0x59, 0x5a, 0x5c} | R(0x60, 0x7e), "Ground", "EscDispatch"),
    ]
    r["EscapeIntermediate"] = [
        (C0, None, "Execute"),
        (R(0x20, 0x2f), None, "Collect"),
        ({0x7f}, None, "Ignore"),
        (R(0x30, 0x7e), "Ground", "EscDispatch"),
    ]
    r["CsiEntry"] = [
        (C0, None, "Execute"),
        ({0x7f}, None, "Ignore"),
        (R(0x20, 0x2f), "CsiIntermediate", "Collect"),
        # deviation: ':' (0x3a) is a parameter byte (sub-parameters)
        (R(0x30, 0x3b), "CsiParam", "Param"),
        (R(0x3c, 0x3f), "CsiParam", "Collect"),
        (R(0x40, 0x7e), "Ground", "CsiDispatch"),
    ]
    r["CsiParam"] = [
        (C0, None, "Execute"),
        ({0x7f}, None, "Ignore"),
        (R(0x30, 0x3b), None, "Param"),
        (R(0x3c, 0x3f), "CsiIgnore", "Nop"),
        (R(0x20, 0x2f), "CsiIntermediate", "Collect"),
        (R(0x40, 0x7e), "Ground", "CsiDispatch"),
    ]
    r["CsiIntermediate"] = [
        (C0, None, "Execute"),
        ({0x7f}, None, "Ignore"),
        (R(0x20, 0x2f), None, "Collect"),
        (R(0x30, 0x3f), "CsiIgnore", "Nop"),
        (R(0x40, 0x7e), "Ground", "CsiDispatch"),
    ]
    r["CsiIgnore"] = [
        (C0, None, "Execute"),
        (R(0x20, 0x3f) | {0x7f}, None, "Ignore"),
        (R(0x40, 0x7e), "Ground", "Nop"),
    ]
    r["DcsEntry"] = [
        (C0 | {0x7f}, None, "Ignore"),
        (R(0x20, 0x2f), "DcsIntermediate", "Collect"),
        (R(0x30, 0x3b), "DcsParam", "Param"),
        (R(0x3c, 0x3f), "DcsParam", "Collect"),
        (R(0x40, 0x7e), "DcsPassthrough", "Nop"),
    ]
    r["DcsParam"] = [
        (C0 | {0x7f}, None, "Ignore"),
        (R(0x30, 0x3b), None, "Param"),
        (R(0x3c, 0x3f), "DcsIgnore", "Nop"),
        (R(0x20, 0x2f), "DcsIntermediate", "Collect"),
        (R(0x40, 0x7e), "DcsPassthrough", "Nop"),
    ]
    r["DcsIntermediate"] = [
        (C0 | {0x7f}, None, "Ignore"),
        (R(0x20, 0x2f), None, "Collect"),
        (R(0x30, 0x3f), "DcsIgnore", "Nop"),
        (R(0x40, 0x7e), "DcsPassthrough", "Nop"),
    ]
    r["DcsPassthrough"] = [
        (C0 | R(0x20, 0x7e), None, "Put"),
        ({0x7f}, None, "Ignore"),
        ({0x9c}, "Ground", "Nop"),
    ]
    r["DcsIgnore"] = [
        (C0 | R(0x20, 0x7f), None, "Ignore"),
        ({0x9c}, "Ground", "Nop"),
    ]
    r["SosPmApcString"] = [
        (C0 | R(0x20, 0x7f), None, "Ignore"),
        ({0x9c}, "Ground", "Nop"),
    ]
    r["OscString"] = [
        # deviation: BEL terminates OSC
        ({0x07}, "Ground", "Nop"),
        (C0 - {0x07}, None, "Ignore"),
        # deviation: OSC payload is 0x20..=0xff (UTF-8 payloads; 0x9c is payload here)
        (R(0x20, 0xff), None, "OscPut"),
    ]
    return r


RULES = _rules()

# Anywhere row, looked up first: only the 7-bit introducers (deviation: no 8-bit C1 introducers).
ANYWHERE = {0x18: ("Ground", "Execute"), 0x1a: ("Ground", "Execute"), 0x1b: ("Escape", "Nop")}

ENTRY_ACTIONS = {"CsiEntry": "Clear", "DcsEntry": "Clear", "Escape": "Clear", "DcsPassthrough": "Hook",
                 "OscString": "OscStart"}
EXIT_ACTIONS = {"DcsPassthrough": "Unhook", "OscString": "OscEnd"}


def effective(state, byte):
    """(next_state or None, action). None = stay (the table's 'Anywhere' target)."""
    if byte in ANYWHERE:
        return ANYWHERE[byte]
    for bs, nxt, act in RULES[state]:
        if byte in bs:
            return (nxt, act)
    return (None, "Nop")


# What a conforming stripper keeps: printable characters and whitespace controls the model prints/executes.
WHITESPACE_EXEC = {0x09, 0x0a, 0x0c, 0x0d}


def visible(state, byte):
    nxt, act = effective(state, byte)
    if act == "Print":
        return byte != 0x7f
    if act == "BeginUtf8":
        return True
    if act == "Execute":
        return byte in WHITESPACE_EXEC
    return False
