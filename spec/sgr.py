"""Independent SGR (Select Graphic Rendition) specification: ECMA-48 §8.3.117 + the xterm/ITU T.416 extensions.

One table serves the writer (anstyle's renderer), the readers (anstyle-ls, anstream's wincon adapter) and
anstyle-wincon's ANSI fallback.  Effect names are anstyle's `Effects` constants.
"""

# the 8 hues in SGR order (3n / 4n / 9n / 10n) and anstyle's AnsiColor declaration order
HUES = ["Black", "Red", "Green", "Yellow", "Blue", "Magenta", "Cyan", "White"]
ANSI16 = HUES + ["Bright" + h for h in HUES]

# code -> effect switched on
EFFECT_ON = {1: "BOLD", 2: "DIMMED", 3: "ITALIC", 4: "UNDERLINE", 5: "BLINK", 6: "BLINK", 7: "INVERT", 8: "HIDDEN",
             9: "STRIKETHROUGH", 21: "DOUBLE_UNDERLINE"}
# 4:n sub-parameter -> underline style (None = no underline)
UNDERLINE_STYLE = {0: None, 1: "UNDERLINE", 2: "DOUBLE_UNDERLINE", 3: "CURLY_UNDERLINE", 4: "DOTTED_UNDERLINE",
                   5: "DASHED_UNDERLINE"}
UNDERLINES = ["UNDERLINE", "DOUBLE_UNDERLINE", "CURLY_UNDERLINE", "DOTTED_UNDERLINE", "DASHED_UNDERLINE"]
# code -> effects switched off
EFFECT_OFF = {22: {"BOLD", "DIMMED"}, 23: {"ITALIC"}, 24: set(UNDERLINES), 25: {"BLINK"}, 27: {"INVERT"}, 28: {"HIDDEN"},
              29: {"STRIKETHROUGH"}}

# the escape each of anstyle's 12 effects renders to (writer side)
EFFECT_RENDER = {
    "BOLD": "1", "DIMMED": "2", "ITALIC": "3", "UNDERLINE": "4", "DOUBLE_UNDERLINE": "21", "CURLY_UNDERLINE": "4:3",
    "DOTTED_UNDERLINE": "4:4", "DASHED_UNDERLINE": "4:5", "BLINK": "5", "INVERT": "7", "HIDDEN": "8", "STRIKETHROUGH": "9",
}
EFFECT_ORDER = ["BOLD", "DIMMED", "ITALIC", "UNDERLINE", "DOUBLE_UNDERLINE", "CURLY_UNDERLINE", "DOTTED_UNDERLINE",
                "DASHED_UNDERLINE", "BLINK", "INVERT", "HIDDEN", "STRIKETHROUGH"]

SLOT_EXT = {"fg": 38, "bg": 48, "underline": 58}
SLOT_DEFAULT = {"fg": 39, "bg": 49, "underline": 59}


def colour_code(code):
    """code -> (slot, AnsiColor name) for the 16-colour codes, else None."""
    if 30 <= code <= 37:
        return ("fg", ANSI16[code - 30])
    if 40 <= code <= 47:
        return ("bg", ANSI16[code - 40])
    if 90 <= code <= 97:
        return ("fg", ANSI16[8 + code - 90])
    if 100 <= code <= 107:
        return ("bg", ANSI16[8 + code - 100])
    return None


def fg_code(name):
    i = ANSI16.index(name)
    return str(30 + i) if i < 8 else str(90 + i - 8)


def bg_code(name):
    i = ANSI16.index(name)
    return str(40 + i) if i < 8 else str(100 + i - 8)


def xterm_rgb(i):
    """xterm's fixed colours 16..255."""
    if 16 <= i <= 231:
        i -= 16
        lv = [0, 95, 135, 175, 215, 255]
        return (lv[i // 36], lv[(i // 6) % 6], lv[i % 6])
    if 232 <= i <= 255:
        v = 8 + 10 * (i - 232)
        return (v, v, v)
    raise ValueError(i)
