"""Frozen, audited allowlist for the C04 panic-site inventory.

Key: `<function def path>|<kind>:<expression text>` (no line numbers).  Each entry states the invariant that makes the site
unreachable-with-a-bad-operand and which rule decides that invariant.  Expressions are those of the normalised tree (lib/norm.py: integer
temporaries substituted, widening written as a cast at the use).  An entry that matches no site any more is reported as stale.
"""
ALLOW = {
    'anstyle_parse::params::Params::push|Overflow(Add):($self.current_subparams_Add_1)':
        'Params invariant len < 32 (= MAX_PARAMS) and current_subparams <= len on entry: every call is on the !is_full() path (C02|guards), and push/extend/clear are the only writers of these private fields (C02|params who-may-write), and Params::clear zeroes both at every sequence start (reset rule, evaluated here too); so len - current_subparams >= 0, both array indexes are < 32, current_subparams + 1 <= 33 fits u8, len + 1 <= 32',
    'anstyle_parse::params::Params::push|BoundsCheck:$self.subparams[($self.len_Sub_($self.current_subparams_as_usize))]':
        'Params invariant len < 32 (= MAX_PARAMS) and current_subparams <= len on entry: every call is on the !is_full() path (C02|guards), and push/extend/clear are the only writers of these private fields (C02|params who-may-write), and Params::clear zeroes both at every sequence start (reset rule, evaluated here too); so len - current_subparams >= 0, both array indexes are < 32, current_subparams + 1 <= 33 fits u8, len + 1 <= 32',
    'anstyle_parse::params::Params::push|Overflow(Sub):($self.len_Sub_($self.current_subparams_as_usize))':
        'Params invariant len < 32 (= MAX_PARAMS) and current_subparams <= len on entry: every call is on the !is_full() path (C02|guards), and push/extend/clear are the only writers of these private fields (C02|params who-may-write), and Params::clear zeroes both at every sequence start (reset rule, evaluated here too); so len - current_subparams >= 0, both array indexes are < 32, current_subparams + 1 <= 33 fits u8, len + 1 <= 32',
    'anstyle_parse::params::Params::push|BoundsCheck:$self.params[$self.len]':
        'Params invariant len < 32 (= MAX_PARAMS) and current_subparams <= len on entry: every call is on the !is_full() path (C02|guards), and push/extend/clear are the only writers of these private fields (C02|params who-may-write), and Params::clear zeroes both at every sequence start (reset rule, evaluated here too); so len - current_subparams >= 0, both array indexes are < 32, current_subparams + 1 <= 33 fits u8, len + 1 <= 32',
    'anstyle_parse::params::Params::push|Overflow(Add):$self.len_AddAssign=_1':
        'Params invariant len < 32 (= MAX_PARAMS) and current_subparams <= len on entry: every call is on the !is_full() path (C02|guards), and push/extend/clear are the only writers of these private fields (C02|params who-may-write), and Params::clear zeroes both at every sequence start (reset rule, evaluated here too); so len - current_subparams >= 0, both array indexes are < 32, current_subparams + 1 <= 33 fits u8, len + 1 <= 32',
    'anstyle_parse::params::Params::extend|Overflow(Add):($self.current_subparams_Add_1)':
        'Params invariant len < 32 (= MAX_PARAMS) and current_subparams <= len on entry: every call is on the !is_full() path (C02|guards), and push/extend/clear are the only writers of these private fields (C02|params who-may-write), and Params::clear zeroes both at every sequence start (reset rule, evaluated here too); so len - current_subparams >= 0, both array indexes are < 32, current_subparams + 1 <= 33 fits u8, len + 1 <= 32',
    'anstyle_parse::params::Params::extend|BoundsCheck:$self.subparams[($self.len_Sub_($self.current_subparams_as_usize))]':
        'Params invariant len < 32 (= MAX_PARAMS) and current_subparams <= len on entry: every call is on the !is_full() path (C02|guards), and push/extend/clear are the only writers of these private fields (C02|params who-may-write), and Params::clear zeroes both at every sequence start (reset rule, evaluated here too); so len - current_subparams >= 0, both array indexes are < 32, current_subparams + 1 <= 33 fits u8, len + 1 <= 32',
    'anstyle_parse::params::Params::extend|Overflow(Sub):($self.len_Sub_($self.current_subparams_as_usize))':
        'Params invariant len < 32 (= MAX_PARAMS) and current_subparams <= len on entry: every call is on the !is_full() path (C02|guards), and push/extend/clear are the only writers of these private fields (C02|params who-may-write), and Params::clear zeroes both at every sequence start (reset rule, evaluated here too); so len - current_subparams >= 0, both array indexes are < 32, current_subparams + 1 <= 33 fits u8, len + 1 <= 32',
    'anstyle_parse::params::Params::extend|BoundsCheck:$self.params[$self.len]':
        'Params invariant len < 32 (= MAX_PARAMS) and current_subparams <= len on entry: every call is on the !is_full() path (C02|guards), and push/extend/clear are the only writers of these private fields (C02|params who-may-write), and Params::clear zeroes both at every sequence start (reset rule, evaluated here too); so len - current_subparams >= 0, both array indexes are < 32, current_subparams + 1 <= 33 fits u8, len + 1 <= 32',
    'anstyle_parse::params::Params::extend|Overflow(Add):$self.current_subparams_AddAssign=_1':
        'Params invariant len < 32 (= MAX_PARAMS) and current_subparams <= len on entry: every call is on the !is_full() path (C02|guards), and push/extend/clear are the only writers of these private fields (C02|params who-may-write), and Params::clear zeroes both at every sequence start (reset rule, evaluated here too); so len - current_subparams >= 0, both array indexes are < 32, current_subparams + 1 <= 33 fits u8, len + 1 <= 32',
    'anstyle_parse::params::Params::extend|Overflow(Add):$self.len_AddAssign=_1':
        'Params invariant len < 32 (= MAX_PARAMS) and current_subparams <= len on entry: every call is on the !is_full() path (C02|guards), and push/extend/clear are the only writers of these private fields (C02|params who-may-write), and Params::clear zeroes both at every sequence start (reset rule, evaluated here too); so len - current_subparams >= 0, both array indexes are < 32, current_subparams + 1 <= 33 fits u8, len + 1 <= 32',
    "<anstyle_parse::params::ParamsIter<'a>_as_core::iter::traits::iterator::Iterator>::next|BoundsCheck:$self.params.subparams[$self.index]":
        'ParamsIter invariant: index < len <= 32 under the `index >= len -> return None` guard (C02|params end-guard); subparams[index] was written by push/extend as the size of the group that starts at index, so index + size <= len <= 32',
    "<anstyle_parse::params::ParamsIter<'a>_as_core::iter::traits::iterator::Iterator>::next|call:index:$self.params.params[Range{start:_$self.index,_end:_($self.index_Add_($self.params.subparams[$self.index]_as_us":
        'ParamsIter invariant: index < len <= 32 under the `index >= len -> return None` guard (C02|params end-guard); subparams[index] was written by push/extend as the size of the group that starts at index, so index + size <= len <= 32',
    "<anstyle_parse::params::ParamsIter<'a>_as_core::iter::traits::iterator::Iterator>::size_hint|Overflow(Sub):([anstyle_parse::params::Params::len]($self.params)_Sub_$self.index)":
        'index only advances by recorded group sizes, which end at len at most, so len - index >= 0',
    'anstyle_parse::Parser::<C>::intermediates|call:index:$self.intermediates[Range{start:_0,_end:_$self.intermediate_idx}]':
        'intermediate_idx <= MAX_INTERMEDIATES = 2 = array length: it is only incremented under `intermediate_idx != MAX_INTERMEDIATES` and reset to 0 (C02|guards collect, C02|reset)',
    'anstyle_parse::Parser::<C>::osc_dispatch|BoundsCheck:$self.osc_params[$i]':
        'i enumerates slices.iter_mut().take(osc_num_params) over an array of 16, so i < 16 = osc_params.len() (C02|osc init-loop-bound)',
    'anstyle_parse::Parser::<C>::osc_dispatch|call:index:$self.osc_raw[Range{start:_$indices.0,_end:_$indices.1}]':
        'recorded (begin, end) pairs are osc_raw.len() values taken in increasing order with begin = previous end, and osc_raw only grows between OscStart clears, so begin <= end <= osc_raw.len() (C02|guards osc stores)',
    'anstyle_parse::Parser::<C>::osc_dispatch|call:index:$slices[Range{start:_0,_end:_$self.osc_num_params}]':
        'num_params = osc_num_params <= MAX_OSC_PARAMS = 16 = slices.len(): incremented only when != MAX_OSC_PARAMS (C02|guards)',
    'anstyle_parse::Parser::<C>::perform_action|BoundsCheck:$self.osc_params[($param_idx_Sub_1)]':
        'param_idx = osc_num_params in 0..=16; these sites are in match arms after `MAX_OSC_PARAMS => ..` (and `0 => ..` for the `- 1`), so param_idx is in 1..=15 resp. 0..=15 < 16 and the increment stays <= 16 (C02|guards osc_params-store / osc_num_params-inc)',
    'anstyle_parse::Parser::<C>::perform_action|Overflow(Sub):($param_idx_Sub_1)':
        'param_idx = osc_num_params in 0..=16; these sites are in match arms after `MAX_OSC_PARAMS => ..` (and `0 => ..` for the `- 1`), so param_idx is in 1..=15 resp. 0..=15 < 16 and the increment stays <= 16 (C02|guards osc_params-store / osc_num_params-inc)',
    'anstyle_parse::Parser::<C>::perform_action|BoundsCheck:$self.osc_params[$param_idx]#1':
        'param_idx = osc_num_params in 0..=16; these sites are in match arms after `MAX_OSC_PARAMS => ..` (and `0 => ..` for the `- 1`), so param_idx is in 1..=15 resp. 0..=15 < 16 and the increment stays <= 16 (C02|guards osc_params-store / osc_num_params-inc)',
    'anstyle_parse::Parser::<C>::perform_action|Overflow(Add):$self.osc_num_params_AddAssign=_1':
        'param_idx = osc_num_params in 0..=16; these sites are in match arms after `MAX_OSC_PARAMS => ..` (and `0 => ..` for the `- 1`), so param_idx is in 1..=15 resp. 0..=15 < 16 and the increment stays <= 16 (C02|guards osc_params-store / osc_num_params-inc)',
    'anstyle_parse::Parser::<C>::perform_action|Overflow(Add):$self.osc_num_params_AddAssign=_1#1':
        'param_idx = osc_num_params in 0..=16; these sites are in match arms after `MAX_OSC_PARAMS => ..` (and `0 => ..` for the `- 1`), so param_idx is in 1..=15 resp. 0..=15 < 16 and the increment stays <= 16 (C02|guards osc_params-store / osc_num_params-inc)',
    'anstyle_parse::Parser::<C>::perform_action|BoundsCheck:$self.osc_params[($param_idx_Sub_1)]#1':
        'param_idx = osc_num_params in 0..=16; these sites are in match arms after `MAX_OSC_PARAMS => ..` (and `0 => ..` for the `- 1`), so param_idx is in 1..=15 resp. 0..=15 < 16 and the increment stays <= 16 (C02|guards osc_params-store / osc_num_params-inc)',
    'anstyle_parse::Parser::<C>::perform_action|Overflow(Sub):($param_idx_Sub_1)#1':
        'param_idx = osc_num_params in 0..=16; these sites are in match arms after `MAX_OSC_PARAMS => ..` (and `0 => ..` for the `- 1`), so param_idx is in 1..=15 resp. 0..=15 < 16 and the increment stays <= 16 (C02|guards osc_params-store / osc_num_params-inc)',
    'anstyle_parse::Parser::<C>::perform_action|BoundsCheck:$self.osc_params[$param_idx]#3':
        'param_idx = osc_num_params in 0..=16; these sites are in match arms after `MAX_OSC_PARAMS => ..` (and `0 => ..` for the `- 1`), so param_idx is in 1..=15 resp. 0..=15 < 16 and the increment stays <= 16 (C02|guards osc_params-store / osc_num_params-inc)',
    'anstyle_parse::Parser::<C>::perform_action|Overflow(Add):$self.osc_num_params_AddAssign=_1#2':
        'param_idx = osc_num_params in 0..=16; these sites are in match arms after `MAX_OSC_PARAMS => ..` (and `0 => ..` for the `- 1`), so param_idx is in 1..=15 resp. 0..=15 < 16 and the increment stays <= 16 (C02|guards osc_params-store / osc_num_params-inc)',
    'anstyle_parse::Parser::<C>::perform_action|BoundsCheck:$self.intermediates[$self.intermediate_idx]':
        'on the `intermediate_idx != MAX_INTERMEDIATES` branch intermediate_idx is 0 or 1 (C02|guards intermediates-store)',
    'anstyle_parse::Parser::<C>::perform_action|Overflow(Add):$self.intermediate_idx_AddAssign=_1':
        'on the `intermediate_idx != MAX_INTERMEDIATES` branch intermediate_idx is 0 or 1 (C02|guards intermediates-store)',
    'anstyle_parse::Parser::<C>::perform_action|Overflow(Sub):($byte_Sub_48)':
        "Action::Param is produced only for bytes 0x30..=0x3b (C02|table) and this is the else-branch after b';' and b':', so byte >= b'0'",
    "<anstyle_parse::AsciiParser_as_anstyle_parse::CharAccumulator>::add|call:panic_fmt:[core::panicking::panic_fmt]([core::fmt::Arguments::<'a>::from_str_nonconst]('internal_error:_entered_unreacha":
        "deliberate unreachable!(): only reachable without the `utf8` feature and with bytes >= 0xc2, outside the 7-bit domain of that configuration (C20|seven-bit); not compiled into the default build's parser path",
    'anstream::adapter::strip::from_utf8_unchecked|call:expect:[core::result::Result::<T,_E>::expect]([core::str::converts::from_utf8]($bytes),_$safety_justification)':
        'debug-build check of the unsafe contract: the piece is valid UTF-8 by the run-boundary argument (C04|utf8 (i)-(iii))',
    "anstream::adapter::strip::StrippedBytes::<'s>::extend|call:panic_fmt:[core::panicking::panic_fmt]([core::fmt::Arguments::<'a>::from_str]('current_bytes_must_be_processed_to_ensure":
        'debug_assert on API misuse by the caller (extend before the previous bytes are consumed), not reachable from input data',
    'anstream::auto::AutoStream::<S>::auto|call:assert_failed:[core::panicking::assert_failed]($kind,_&(Deref_$left_val),_&(Deref_$right_val),_core::option::Option::None)':
        'debug_assert_ne!(choice, Auto): choice() never returns Auto when the global choice is Auto (C09|chain truth table: every Auto row yields Always or Never)',
    'anstream::strip::write|call:index:$printable[RangeFrom{start:_$written}]':
        'written is the count the inner io::Write returned for `printable`; the io::Write contract bounds it by printable.len() (trust boundary: the inner writer, not the input)',
    'anstream::strip::write|call:index:$buf[Range{start:_0,_end:_$offset}]':
        'offset = offset_to(buf, &printable[written..]) where printable is a sub-slice of buf (C01|S5 slices are pieces of the input), so offset <= buf.len()',
    "anstream::strip::offset_to|call:panic_fmt:[core::panicking::panic_fmt]([core::fmt::Arguments::<'a>::from_str]('`Offset::offset_to`_only_accepts_slices_o":
        'subslice is a sub-slice of total at both call sites (C06|W3), so the debug_assert holds and the pointer difference is non-negative',
    'anstream::strip::offset_to|Overflow(Sub):(($subslice_as_usize)_Sub_($total_as_usize))':
        'subslice is a sub-slice of total at both call sites (C06|W3), so the debug_assert holds and the pointer difference is non-negative',
    'anstyle::color::DisplayBuffer::write_str|BoundsCheck:$self.buffer[($self.len_Add_$i)]':
        'capacity argument: buffer/len are written only by write_str/write_code (C04|allowlist links), which are called only from the 8 builder chains whose literal lengths + 3 bytes per code total <= DISPLAY_BUFFER_CAPACITY = 19 (C05|templates capacity-covers-longest-chain)',
    'anstyle::color::DisplayBuffer::write_str|Overflow(Add):($self.len_Add_$i)':
        'capacity argument: buffer/len are written only by write_str/write_code (C04|allowlist links), which are called only from the 8 builder chains whose literal lengths + 3 bytes per code total <= DISPLAY_BUFFER_CAPACITY = 19 (C05|templates capacity-covers-longest-chain)',
    'anstyle::color::DisplayBuffer::write_str|Overflow(Add):$self.len_AddAssign=_[core::str::<impl_str>::len]($part)':
        'capacity argument: buffer/len are written only by write_str/write_code (C04|allowlist links), which are called only from the 8 builder chains whose literal lengths + 3 bytes per code total <= DISPLAY_BUFFER_CAPACITY = 19 (C05|templates capacity-covers-longest-chain)',
    'anstyle::color::DisplayBuffer::write_code|BoundsCheck:$self.buffer[$self.len]':
        'capacity argument: buffer/len are written only by write_str/write_code (C04|allowlist links), which are called only from the 8 builder chains whose literal lengths + 3 bytes per code total <= DISPLAY_BUFFER_CAPACITY = 19 (C05|templates capacity-covers-longest-chain)',
    'anstyle::color::DisplayBuffer::write_code|Overflow(Add):$self.len_AddAssign=_1':
        'capacity argument: buffer/len are written only by write_str/write_code (C04|allowlist links), which are called only from the 8 builder chains whose literal lengths + 3 bytes per code total <= DISPLAY_BUFFER_CAPACITY = 19 (C05|templates capacity-covers-longest-chain)',
    'anstyle::color::DisplayBuffer::write_code|BoundsCheck:$self.buffer[$self.len]#1':
        'capacity argument: buffer/len are written only by write_str/write_code (C04|allowlist links), which are called only from the 8 builder chains whose literal lengths + 3 bytes per code total <= DISPLAY_BUFFER_CAPACITY = 19 (C05|templates capacity-covers-longest-chain)',
    'anstyle::color::DisplayBuffer::write_code|Overflow(Add):$self.len_AddAssign=_1#1':
        'capacity argument: buffer/len are written only by write_str/write_code (C04|allowlist links), which are called only from the 8 builder chains whose literal lengths + 3 bytes per code total <= DISPLAY_BUFFER_CAPACITY = 19 (C05|templates capacity-covers-longest-chain)',
    'anstyle::color::DisplayBuffer::write_code|BoundsCheck:$self.buffer[$self.len]#2':
        'capacity argument: buffer/len are written only by write_str/write_code (C04|allowlist links), which are called only from the 8 builder chains whose literal lengths + 3 bytes per code total <= DISPLAY_BUFFER_CAPACITY = 19 (C05|templates capacity-covers-longest-chain)',
    'anstyle::color::DisplayBuffer::write_code|Overflow(Add):$self.len_AddAssign=_1#2':
        'capacity argument: buffer/len are written only by write_str/write_code (C04|allowlist links), which are called only from the 8 builder chains whose literal lengths + 3 bytes per code total <= DISPLAY_BUFFER_CAPACITY = 19 (C05|templates capacity-covers-longest-chain)',
    'anstyle::color::DisplayBuffer::*|call:index:$self.buffer[Range{start:_0,_end:_$self.len}]':
        'len <= 19 = buffer.len() by the same capacity argument',
    'anstyle_git::parse_color|call:index:$hex[Range{start:_0,_end:_($l_Div_3)}]':
        'hex consists of ASCII hex digits only (C04|str-slice / C11|hex-guard) so byte offsets are char boundaries, hex.len() is 3 or 6 and l = len/3, so 3*l = len',
    'anstyle_git::parse_color|call:index:$hex[Range{start:_($l_Div_3),_end:_(2_Mul_($l_Div_3))}]':
        'hex consists of ASCII hex digits only (C04|str-slice / C11|hex-guard) so byte offsets are char boundaries, hex.len() is 3 or 6 and l = len/3, so 3*l = len',
    'anstyle_git::parse_color|call:index:$hex[Range{start:_(2_Mul_($l_Div_3)),_end:_(3_Mul_($l_Div_3))}]':
        'hex consists of ASCII hex digits only (C04|str-slice / C11|hex-guard) so byte offsets are char boundaries, hex.len() is 3 or 6 and l = len/3, so 3*l = len',
    'anstyle_lossy::palette::Palette::get_ansi256_ref|BoundsCheck:$self.0[($index_as_usize)]':
        'private fn called only with Ansi256Color::from_ansi(color) (C04|allowlist links), whose index is 0..=15 (C13|colour-tables) < 16',
    "anstyle_lossy::palette::Palette::find_match|BoundsCheck:['best_index_is_out_of_bounds'][$best_index]":
        'deliberate panic in the branch where into_ansi(best_index) is None; unreachable because best_index < 16 by the scan bound (C10|scan returns-into_ansi(best_index))',
    'anstyle_svg::Term::render_svg|Overflow(Add):(([alloc::vec::Vec::<T,_A>::len]($styled_lines)_Mul_$line_height)_Add_($self.padding_px_Mul_2))':
        "arithmetic on configuration values (padding_px, min_width_px) and on the number of lines / display width of text held in memory, times small constants: outside the property's untrusted-input domain (a caller passing usize::MAX as padding is a configuration error)",
    'anstyle_svg::Term::render_svg|Overflow(Mul):([alloc::vec::Vec::<T,_A>::len]($styled_lines)_Mul_$line_height)':
        "arithmetic on configuration values (padding_px, min_width_px) and on the number of lines / display width of text held in memory, times small constants: outside the property's untrusted-input domain (a caller passing usize::MAX as padding is a configuration error)",
    'anstyle_svg::Term::render_svg|Overflow(Mul):($self.padding_px_Mul_2)':
        "arithmetic on configuration values (padding_px, min_width_px) and on the number of lines / display width of text held in memory, times small constants: outside the property's untrusted-input domain (a caller passing usize::MAX as padding is a configuration error)",
    'anstyle_svg::Term::render_svg|Overflow(Add):([core::cmp::max]($width_px,_$self.min_width_px)_Add_($self.padding_px_Mul_2))':
        "arithmetic on configuration values (padding_px, min_width_px) and on the number of lines / display width of text held in memory, times small constants: outside the property's untrusted-input domain (a caller passing usize::MAX as padding is a configuration error)",
    'anstyle_svg::Term::render_svg|Overflow(Mul):($self.padding_px_Mul_2)#1':
        "arithmetic on configuration values (padding_px, min_width_px) and on the number of lines / display width of text held in memory, times small constants: outside the property's untrusted-input domain (a caller passing usize::MAX as padding is a configuration error)",
    'anstyle_svg::Term::render_svg|Overflow(Add):($self.padding_px_Add_$line_height)':
        "arithmetic on configuration values (padding_px, min_width_px) and on the number of lines / display width of text held in memory, times small constants: outside the property's untrusted-input domain (a caller passing usize::MAX as padding is a configuration error)",
    'anstyle_svg::Term::render_svg|Overflow(Add):$text_y_AddAssign=_$line_height':
        "arithmetic on configuration values (padding_px, min_width_px) and on the number of lines / display width of text held in memory, times small constants: outside the property's untrusted-input domain (a caller passing usize::MAX as padding is a configuration error)",
    'anstyle_svg::color_name|BoundsCheck:anstyle_svg::ANSI_NAMES[($index_as_usize)]':
        'index = Ansi256Color::from_ansi(color).index() in 0..=15 (C13|colour-tables) < ANSI_NAMES.len() = 16',
}

# user-written unsafe code: function path -> number of unsafe blocks (unsafe fns are listed with a suffix)
UNSAFE_SITES = {
    "anstyle_parse::state::definitions::unpack": 1,           # transmute of a 4-bit value: C02|encoding (16 variants, repr(u8), discriminants 0..=15)
    "anstyle_parse::Parser::<C>::osc_dispatch": 2,            # MaybeUninit array: initialised prefix == exposed prefix (C02|osc)
    "anstyle::color::DisplayBuffer::as_str": 1,               # only &'static str bytes and ASCII digits are written (links rule)
    "anstream::adapter::strip::next_str": 1,                  # C04|utf8 (i)-(iii)
    "anstream::adapter::strip::from_utf8_unchecked": 1,
    "anstream::adapter::strip::from_utf8_unchecked [unsafe fn]": 1,
}
