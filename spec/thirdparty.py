"""Semantics of the third-party styling crates' variants/methods, confirmed by reading the vendored sources
(~/.cargo/registry) at the versions pinned in /repo/Cargo.lock.  Frozen: a version change fails closed.

colour variant -> (hue, bright)      hue in spec.sgr.HUES
"""
VERSIONS = {"ansi_term": "0.12.1", "crossterm": "0.28.1", "owo-colors": "4.0.0", "termcolor": "1.4.1", "yansi": "1.0.1",
            "cansi": "2.2.1", "syntect": "5.2.0"}

HUES = ["Black", "Red", "Green", "Yellow", "Blue", "Magenta", "Cyan", "White"]

# ansi_term::Colour — 8 variants, no bright counterparts (30+n / 40+n); Purple is magenta (35)
ANSI_TERM_COLOUR = {"Black": ("Black", False), "Red": ("Red", False), "Green": ("Green", False), "Yellow": ("Yellow", False),
                    "Blue": ("Blue", False), "Purple": ("Magenta", False), "Cyan": ("Cyan", False), "White": ("White", False)}
# crossterm::style::Color — Dark* = 5;1..5;6 (normal), plain names = 5;9..5;14 (bright), Grey = 5;7, DarkGrey = 5;8,
# Black = 5;0, White = 5;15   (src/style/types/colored.rs)
CROSSTERM_COLOR = {"Black": ("Black", False), "DarkRed": ("Red", False), "DarkGreen": ("Green", False), "DarkYellow": ("Yellow", False),
                   "DarkBlue": ("Blue", False), "DarkMagenta": ("Magenta", False), "DarkCyan": ("Cyan", False), "Grey": ("White", False),
                   "DarkGrey": ("Black", True), "Red": ("Red", True), "Green": ("Green", True), "Yellow": ("Yellow", True),
                   "Blue": ("Blue", True), "Magenta": ("Magenta", True), "Cyan": ("Cyan", True), "White": ("White", True)}
# owo_colors::colored::Color and yansi::Color: same names as anstyle
SAME_NAMES = {h: (h, False) for h in HUES}
SAME_NAMES.update({"Bright" + h: (h, True) for h in HUES})
OWO_COLOR = dict(SAME_NAMES)
YANSI_COLOR = dict(SAME_NAMES)
# termcolor::Color — 8 variants, brightness is a ColorSpec flag shared by fg and bg (not a colour variant)
TERMCOLOR_COLOR = {h: (h, False) for h in HUES}

COLOUR_TABLES = {
    "anstyle_ansi_term": ("ansi_term::Color::", ANSI_TERM_COLOUR, False),
    "anstyle_crossterm": ("crossterm::style::Color::", CROSSTERM_COLOR, True),
    "anstyle_owo_colors": ("owo_colors::colored::Color::", OWO_COLOR, True),
    "anstyle_termcolor": ("termcolor::Color::", TERMCOLOR_COLOR, False),
    "anstyle_yansi": ("yansi::Color::", YANSI_COLOR, True),
}

# effect -> the target's like-meaning method / attribute (last path segment of the resolved callee or variant);
# effects absent from a table cannot be expressed by that library
EFFECTS = {
    "anstyle_ansi_term": {"BOLD": "bold", "DIMMED": "dimmed", "ITALIC": "italic", "UNDERLINE": "underline", "BLINK": "blink",
                          "INVERT": "reverse", "HIDDEN": "hidden", "STRIKETHROUGH": "strikethrough"},
    "anstyle_crossterm": {"BOLD": "Bold", "DIMMED": "Dim", "ITALIC": "Italic", "UNDERLINE": "Underlined",
                          "DOUBLE_UNDERLINE": "DoubleUnderlined", "CURLY_UNDERLINE": "Undercurled", "DOTTED_UNDERLINE": "Underdotted",
                          "DASHED_UNDERLINE": "Underdashed", "BLINK": "SlowBlink", "INVERT": "Reverse", "HIDDEN": "Hidden",
                          "STRIKETHROUGH": "CrossedOut"},
    "anstyle_owo_colors": {"BOLD": "bold", "DIMMED": "dimmed", "ITALIC": "italic", "UNDERLINE": "underline", "BLINK": "blink",
                           "INVERT": "reversed", "HIDDEN": "hidden", "STRIKETHROUGH": "strikethrough"},
    "anstyle_termcolor": {"BOLD": "set_bold", "DIMMED": "set_dimmed", "ITALIC": "set_italic", "UNDERLINE": "set_underline",
                          "STRIKETHROUGH": "set_strikethrough"},
    "anstyle_yansi": {"BOLD": "bold", "DIMMED": "dim", "ITALIC": "italic", "UNDERLINE": "underline", "BLINK": "blink",
                      "INVERT": "invert", "HIDDEN": "conceal", "STRIKETHROUGH": "strike"},
}
# accepted alternatives with the same meaning
EFFECT_ALTERNATIVES = {
    ("anstyle_crossterm", "BLINK"): {"SlowBlink", "RapidBlink"},
    ("anstyle_owo_colors", "BLINK"): {"blink", "blink_fast"},
    ("anstyle_yansi", "BLINK"): {"blink", "rapid_blink"},
}

# slot wiring: anstyle getter -> the target setter / field that must receive it
SLOTS = {
    "anstyle_ansi_term": {"get_fg_color": "fg", "get_bg_color": "on"},
    "anstyle_crossterm": {"get_fg_color": "foreground_color", "get_bg_color": "background_color", "get_underline_color": "underline_color"},
    "anstyle_owo_colors": {"get_fg_color": "color", "get_bg_color": "on_color"},
    "anstyle_termcolor": {"get_fg_color": "set_fg", "get_bg_color": "set_bg"},
    "anstyle_yansi": {"get_fg_color": "fg", "get_bg_color": "bg"},
}

# Ansi256 / Rgb constructors of the target (value / fields passed through in order)
INDEXED = {"anstyle_ansi_term": "ansi_term::Color::Fixed", "anstyle_crossterm": "crossterm::style::Color::AnsiValue",
           "anstyle_owo_colors": "owo_colors::XtermColors", "anstyle_termcolor": "termcolor::Color::Ansi256",
           "anstyle_yansi": "yansi::Color::Fixed"}
RGB = {"anstyle_ansi_term": "ansi_term::Color::RGB", "anstyle_crossterm": "crossterm::style::Color::Rgb",
       "anstyle_owo_colors": None, "anstyle_termcolor": "termcolor::Color::Rgb", "anstyle_yansi": "yansi::Color::Rgb"}

# cansi::Color (v3 module) -> anstyle AnsiColor, same names
CANSI_COLOR = ["Black", "Red", "Green", "Yellow", "Blue", "Magenta", "Cyan", "White", "BrightBlack", "BrightRed", "BrightGreen",
               "BrightYellow", "BrightBlue", "BrightMagenta", "BrightCyan", "BrightWhite"]
