//! MIR CFG export with resolved callees.

use crate::json::J;
use crate::{def_path, span_json};
use rustc_hir::def_id::LocalDefId;
use rustc_middle::mir::{self, Operand, Place, Rvalue, StatementKind, TerminatorKind};
use rustc_middle::ty::{self, TyCtxt};

struct M<'a, 'tcx> {
    tcx: TyCtxt<'tcx>,
    body: &'a mir::Body<'tcx>,
    owner: LocalDefId,
}

pub fn mir_facts<'tcx>(tcx: TyCtxt<'tcx>, owner: LocalDefId) -> J {
    let did = owner.to_def_id();
    if !tcx.is_mir_available(did) {
        return J::Null;
    }
    let body = tcx.optimized_mir(did);
    let m = M { tcx, body, owner };
    let mut j = J::obj();
    j.put("arg_count", J::Int(body.arg_count as i128));
    let mut names: Vec<Option<String>> = vec![None; body.local_decls.len()];
    for vdi in &body.var_debug_info {
        if let mir::VarDebugInfoContents::Place(p) = vdi.value {
            if p.projection.is_empty() {
                names[p.local.as_usize()] = Some(vdi.name.to_string());
            } else {
                // captured upvars etc.: remember textual form
            }
        }
    }
    let mut locals = Vec::new();
    for (l, d) in body.local_decls.iter_enumerated() {
        let mut lj = J::obj();
        lj.put("ty", J::s(format!("{}", d.ty)));
        if let Some(n) = &names[l.as_usize()] {
            lj.put("name", J::s(n.clone()));
        }
        locals.push(lj);
    }
    j.put("locals", J::Arr(locals));
    let mut dbg = Vec::new();
    for vdi in &body.var_debug_info {
        if let mir::VarDebugInfoContents::Place(p) = vdi.value {
            if !p.projection.is_empty() {
                dbg.push(J::obj().set("name", J::s(vdi.name.to_string())).set("place", m.place(&p)));
            }
        }
    }
    j.put("upvars", J::Arr(dbg));
    let mut blocks = Vec::new();
    for (_bb, data) in body.basic_blocks.iter_enumerated() {
        let mut bj = J::obj();
        if data.is_cleanup {
            bj.put("cleanup", J::Bool(true));
        }
        let mut stmts = Vec::new();
        for s in &data.statements {
            if let Some(sj) = m.stmt(s) {
                stmts.push(sj);
            }
        }
        bj.put("stmts", J::Arr(stmts));
        bj.put("term", m.term(data.terminator()));
        blocks.push(bj);
    }
    j.put("blocks", J::Arr(blocks));
    j
}

impl<'a, 'tcx> M<'a, 'tcx> {
    fn place(&self, p: &Place<'tcx>) -> J {
        let mut j = J::obj();
        j.put("l", J::Int(p.local.as_usize() as i128));
        if !p.projection.is_empty() {
            let mut pr = Vec::new();
            for e in p.projection.iter() {
                use mir::ProjectionElem::*;
                pr.push(match e {
                    Deref => J::s("*"),
                    Field(f, _) => J::Int(f.as_usize() as i128),
                    Index(l) => J::obj().set("idx", J::Int(l.as_usize() as i128)),
                    ConstantIndex { offset, from_end, .. } => {
                        J::obj().set("cidx", J::Int(offset as i128)).set("from_end", J::Bool(from_end))
                    }
                    Subslice { from, to, from_end } => J::obj()
                        .set("sub_from", J::Int(from as i128))
                        .set("sub_to", J::Int(to as i128))
                        .set("from_end", J::Bool(from_end)),
                    Downcast(name, idx) => J::obj()
                        .set("variant", J::s(name.map(|n| n.to_string()).unwrap_or_default()))
                        .set("vidx", J::Int(idx.as_usize() as i128)),
                    OpaqueCast(_) => J::s("opaque"),
                    UnwrapUnsafeBinder(_) => J::s("unbind"),
                });
            }
            j.put("p", J::Arr(pr));
        }
        j
    }

    fn operand(&self, o: &Operand<'tcx>) -> J {
        match o {
            Operand::Copy(p) => J::obj().set("copy", self.place(p)),
            Operand::Move(p) => J::obj().set("move", self.place(p)),
            Operand::Constant(c) => {
                let mut j = J::obj();
                let ty = c.const_.ty();
                j.put("const_ty", J::s(format!("{}", ty)));
                if let ty::FnDef(did, _) = ty.kind() {
                    j.put("fn", J::s(def_path(self.tcx, *did)));
                } else {
                    let env = ty::TypingEnv::post_analysis(self.tcx, self.owner.to_def_id());
                    if ty.is_integral() || ty.is_bool() || ty.is_char() {
                        if let Some(si) = c.const_.try_eval_scalar_int(self.tcx, env) {
                            let size = si.size();
                            let raw = si.to_bits(size);
                            let v: i128 = if ty.is_signed() { size.sign_extend(raw) as i128 } else { raw as i128 };
                            j.put("v", J::Int(v));
                        }
                    }
                    j.put("txt", J::s(format!("{}", c.const_)));
                    if let mir::Const::Unevaluated(u, _) = c.const_ {
                        j.put("def", J::s(def_path(self.tcx, u.def)));
                        if u.promoted.is_some() {
                            j.put("promoted", J::Bool(true));
                        }
                    }
                }
                j
            }
            #[allow(unreachable_patterns)]
            _ => J::obj().set("other", J::s(format!("{:?}", o))),
        }
    }

    fn stmt(&self, s: &mir::Statement<'tcx>) -> Option<J> {
        let mut j = J::obj();
        match &s.kind {
            StatementKind::Assign(b) => {
                let (place, rv) = &**b;
                j.put("k", J::s("assign"));
                j.put("p", self.place(place));
                j.put("rv", self.rvalue(rv));
            }
            StatementKind::SetDiscriminant { place, variant_index } => {
                j.put("k", J::s("setdiscr"));
                j.put("p", self.place(place));
                j.put("vidx", J::Int(variant_index.as_usize() as i128));
            }
            StatementKind::StorageDead(l) => {
                j.put("k", J::s("dead"));
                j.put("l", J::Int(l.as_usize() as i128));
            }
            StatementKind::StorageLive(l) => {
                j.put("k", J::s("live"));
                j.put("l", J::Int(l.as_usize() as i128));
            }
            _ => return None,
        }
        span_json(self.tcx, s.source_info.span, &mut j);
        Some(j)
    }

    fn rvalue(&self, rv: &Rvalue<'tcx>) -> J {
        let mut j = J::obj();
        match rv {
            Rvalue::Use(op, ..) => {
                j.put("k", J::s("use"));
                j.put("a", self.operand(op));
            }
            Rvalue::Repeat(op, n) => {
                j.put("k", J::s("repeat"));
                j.put("a", self.operand(op));
                j.put("n", J::s(format!("{}", n)));
            }
            Rvalue::Ref(_, bk, p) => {
                j.put("k", J::s("ref"));
                j.put("mut", J::Bool(matches!(bk, mir::BorrowKind::Mut { .. })));
                j.put("p", self.place(p));
            }
            Rvalue::RawPtr(kind, p) => {
                j.put("k", J::s("rawptr"));
                j.put("kind", J::s(format!("{:?}", kind)));
                j.put("p", self.place(p));
            }
            Rvalue::Cast(kind, op, ty) => {
                j.put("k", J::s("cast"));
                j.put("kind", J::s(format!("{:?}", kind)));
                j.put("a", self.operand(op));
                j.put("to", J::s(format!("{}", ty)));
                j.put("from", J::s(format!("{}", op.ty(&self.body.local_decls, self.tcx))));
            }
            Rvalue::BinaryOp(op, b) => {
                j.put("k", J::s("bin"));
                j.put("op", J::s(format!("{:?}", op)));
                j.put("a", self.operand(&b.0));
                j.put("b", self.operand(&b.1));
                j.put("aty", J::s(format!("{}", b.0.ty(&self.body.local_decls, self.tcx))));
            }
            Rvalue::UnaryOp(op, a) => {
                j.put("k", J::s("un"));
                j.put("op", J::s(format!("{:?}", op)));
                j.put("a", self.operand(a));
            }
            Rvalue::Discriminant(p) => {
                j.put("k", J::s("discr"));
                j.put("p", self.place(p));
                let pty = p.ty(&self.body.local_decls, self.tcx).ty;
                j.put("of", J::s(format!("{}", pty)));
            }
            Rvalue::Aggregate(kind, ops) => {
                j.put("k", J::s("agg"));
                match &**kind {
                    mir::AggregateKind::Adt(did, vidx, _, _, _) => {
                        let adt = self.tcx.adt_def(*did);
                        j.put("adt", J::s(def_path(self.tcx, *did)));
                        j.put("variant", J::s(adt.variant(*vidx).name.to_string()));
                    }
                    mir::AggregateKind::Closure(did, _) => {
                        j.put("closure", J::s(def_path(self.tcx, *did)));
                    }
                    mir::AggregateKind::Tuple => j.put("tuple", J::Bool(true)),
                    mir::AggregateKind::Array(_) => j.put("array", J::Bool(true)),
                    other => j.put("agg_other", J::s(format!("{:?}", other))),
                }
                j.put("ops", J::Arr(ops.iter().map(|o| self.operand(o)).collect()));
            }
            Rvalue::CopyForDeref(p) => {
                j.put("k", J::s("use"));
                j.put("a", J::obj().set("copy", self.place(p)));
            }
            other => {
                j.put("k", J::s("other"));
                j.put("dbg", J::s(format!("{:?}", other)));
            }
        }
        j
    }

    fn term(&self, t: &mir::Terminator<'tcx>) -> J {
        let mut j = J::obj();
        match &t.kind {
            TerminatorKind::Goto { target } => {
                j.put("k", J::s("goto"));
                j.put("t", J::Int(target.as_usize() as i128));
            }
            TerminatorKind::SwitchInt { discr, targets } => {
                j.put("k", J::s("switch"));
                j.put("discr", self.operand(discr));
                j.put("dty", J::s(format!("{}", discr.ty(&self.body.local_decls, self.tcx))));
                let mut ts = Vec::new();
                for (v, bb) in targets.iter() {
                    ts.push(J::Arr(vec![J::Int(v as i128), J::Int(bb.as_usize() as i128)]));
                }
                j.put("targets", J::Arr(ts));
                j.put("otherwise", J::Int(targets.otherwise().as_usize() as i128));
            }
            TerminatorKind::Return => j.put("k", J::s("return")),
            TerminatorKind::Unreachable => j.put("k", J::s("unreachable")),
            TerminatorKind::UnwindResume => j.put("k", J::s("resume")),
            TerminatorKind::UnwindTerminate(_) => j.put("k", J::s("abort")),
            TerminatorKind::Drop { place, target, unwind, .. } => {
                j.put("k", J::s("drop"));
                j.put("p", self.place(place));
                j.put("t", J::Int(target.as_usize() as i128));
                if let mir::UnwindAction::Cleanup(bb) = unwind {
                    j.put("unwind", J::Int(bb.as_usize() as i128));
                }
                j.put("pty", J::s(format!("{}", place.ty(&self.body.local_decls, self.tcx).ty)));
            }
            TerminatorKind::Call { func, args, destination, target, unwind, fn_span, .. } => {
                j.put("k", J::s("call"));
                let fty = func.ty(&self.body.local_decls, self.tcx);
                if let ty::FnDef(did, substs) = fty.kind() {
                    j.put("callee", J::s(def_path(self.tcx, *did)));
                    let env = ty::TypingEnv::post_analysis(self.tcx, self.owner.to_def_id());
                    if let Ok(Some(inst)) = ty::Instance::try_resolve(self.tcx, env, *did, substs) {
                        j.put("resolved", J::s(def_path(self.tcx, inst.def_id())));
                    }
                    j.put("fty", J::s(format!("{}", fty)));
                } else {
                    j.put("fptr", self.operand(func));
                    j.put("fty", J::s(format!("{}", fty)));
                }
                j.put("args", J::Arr(args.iter().map(|a| self.operand(&a.node)).collect()));
                j.put("dest", self.place(destination));
                if let Some(t) = target {
                    j.put("t", J::Int(t.as_usize() as i128));
                }
                if let mir::UnwindAction::Cleanup(bb) = unwind {
                    j.put("unwind", J::Int(bb.as_usize() as i128));
                }
                let mut sp = J::obj();
                span_json(self.tcx, *fn_span, &mut sp);
                j.put("fn_span", sp);
            }
            TerminatorKind::Assert { cond, expected, msg, target, unwind } => {
                j.put("k", J::s("assert"));
                j.put("cond", self.operand(cond));
                j.put("expected", J::Bool(*expected));
                j.put("msg", J::s(assert_kind(msg)));
                j.put("msg_dbg", J::s(format!("{:?}", msg)));
                j.put("t", J::Int(target.as_usize() as i128));
                if let mir::UnwindAction::Cleanup(bb) = unwind {
                    j.put("unwind", J::Int(bb.as_usize() as i128));
                }
                if let mir::AssertKind::BoundsCheck { len, index } = &**msg {
                    j.put("len", self.operand(len));
                    j.put("index", self.operand(index));
                }
            }
            TerminatorKind::FalseEdge { real_target, .. } => {
                j.put("k", J::s("goto"));
                j.put("t", J::Int(real_target.as_usize() as i128));
            }
            TerminatorKind::FalseUnwind { real_target, .. } => {
                j.put("k", J::s("goto"));
                j.put("t", J::Int(real_target.as_usize() as i128));
            }
            other => {
                j.put("k", J::s("other"));
                j.put("dbg", J::s(format!("{:?}", other)));
            }
        }
        span_json(self.tcx, t.source_info.span, &mut j);
        j
    }
}

fn assert_kind<'tcx>(m: &mir::AssertKind<Operand<'tcx>>) -> String {
    use mir::AssertKind::*;
    match m {
        BoundsCheck { .. } => "BoundsCheck".into(),
        Overflow(op, ..) => format!("Overflow({:?})", op),
        OverflowNeg(_) => "OverflowNeg".into(),
        DivisionByZero(_) => "DivisionByZero".into(),
        RemainderByZero(_) => "RemainderByZero".into(),
        MisalignedPointerDereference { .. } => "MisalignedPointerDereference".into(),
        NullPointerDereference => "NullPointerDereference".into(),
        other => format!("{:?}", std::mem::discriminant(other)),
    }
}
