//! Minimal JSON value + serializer (the driver has no cargo dependencies).

#[derive(Clone, Debug)]
pub enum J {
    Null,
    Bool(bool),
    Int(i128),
    Str(String),
    Arr(Vec<J>),
    Obj(Vec<(String, J)>),
}

impl J {
    pub fn obj() -> J {
        J::Obj(Vec::new())
    }
    pub fn s<T: Into<String>>(s: T) -> J {
        J::Str(s.into())
    }
    pub fn set<T: Into<String>>(mut self, k: T, v: J) -> J {
        if let J::Obj(ref mut o) = self {
            o.push((k.into(), v));
        }
        self
    }
    pub fn put<T: Into<String>>(&mut self, k: T, v: J) {
        if let J::Obj(ref mut o) = self {
            o.push((k.into(), v));
        }
    }
    pub fn write(&self, out: &mut String) {
        match self {
            J::Null => out.push_str("null"),
            J::Bool(b) => out.push_str(if *b { "true" } else { "false" }),
            J::Int(i) => out.push_str(&i.to_string()),
            J::Str(s) => write_str(s, out),
            J::Arr(a) => {
                out.push('[');
                for (i, v) in a.iter().enumerate() {
                    if i > 0 {
                        out.push(',');
                    }
                    v.write(out);
                }
                out.push(']');
            }
            J::Obj(o) => {
                out.push('{');
                for (i, (k, v)) in o.iter().enumerate() {
                    if i > 0 {
                        out.push(',');
                    }
                    write_str(k, out);
                    out.push(':');
                    v.write(out);
                }
                out.push('}');
            }
        }
    }
}

fn write_str(s: &str, out: &mut String) {
    out.push('"');
    for c in s.chars() {
        match c {
            '"' => out.push_str("\\\""),
            '\\' => out.push_str("\\\\"),
            '\n' => out.push_str("\\n"),
            '\r' => out.push_str("\\r"),
            '\t' => out.push_str("\\t"),
            c if (c as u32) < 0x20 || c == '\u{7f}' => out.push_str(&format!("\\u{:04x}", c as u32)),
            c => out.push(c),
        }
    }
    out.push('"');
}
