//! Item-level facts: ADTs, impls, traits, consts/statics with evaluated values, opaque types.

use crate::json::J;
use crate::{def_path, file_of, span_json};
use rustc_hir::def::DefKind;
use rustc_middle::mir::ConstValue;
use rustc_middle::ty::print::PrintTraitRefExt;
use rustc_middle::ty::{self, TyCtxt};

pub fn collect_items<'tcx>(tcx: TyCtxt<'tcx>) -> J {
    let mut out = Vec::new();
    for ldid in tcx.hir_crate_items(()).definitions() {
        let did = ldid.to_def_id();
        let kind = tcx.def_kind(did);
        let mut j = J::obj();
        j.put("path", J::s(def_path(tcx, did)));
        j.put("dk", J::s(crate::hirx::defkind_str(kind)));
        let span = tcx.def_span(did);
        j.put("file", J::s(file_of(tcx, span)));
        span_json(tcx, span, &mut j);
        match kind {
            DefKind::Enum | DefKind::Struct | DefKind::Union => {
                let adt = tcx.adt_def(did);
                j.put("repr", J::s(format!("{:?}", adt.repr())));
                j.put("vis", J::s(crate::vis_str(tcx, tcx.visibility(did))));
                let mut vs = Vec::new();
                if adt.is_enum() {
                    for (idx, discr) in adt.discriminants(tcx) {
                        let v = adt.variant(idx);
                        let mut vj = J::obj();
                        vj.put("name", J::s(v.name.to_string()));
                        vj.put("discr", J::Int(discr.val as i128));
                        vj.put("fields", fields(tcx, v));
                        vs.push(vj);
                    }
                } else {
                    let v = adt.non_enum_variant();
                    let mut vj = J::obj();
                    vj.put("name", J::s(v.name.to_string()));
                    vj.put("fields", fields(tcx, v));
                    vs.push(vj);
                }
                j.put("variants", J::Arr(vs));
            }
            DefKind::Impl { of_trait } => {
                j.put("self_ty", J::s(format!("{}", tcx.type_of(did).instantiate_identity().skip_norm_wip())));
                if of_trait {
                    let tr = tcx.impl_trait_ref(did).instantiate_identity().skip_norm_wip();
                    j.put("trait", J::s(format!("{}", tr.print_only_trait_path())));
                    j.put("trait_def", J::s(def_path(tcx, tr.def_id)));
                }
                let mut ms = Vec::new();
                for &a in tcx.associated_item_def_ids(did) {
                    ms.push(J::obj()
                        .set("name", J::s(tcx.item_name(a).to_string()))
                        .set("path", J::s(def_path(tcx, a)))
                        .set("dk", J::s(crate::hirx::defkind_str(tcx.def_kind(a)))));
                }
                j.put("assoc", J::Arr(ms));
                j.put("derived", J::Bool(span.from_expansion()));
            }
            DefKind::Trait => {
                j.put("vis", J::s(crate::vis_str(tcx, tcx.visibility(did))));
                j.put("reachable", J::Bool(tcx.effective_visibilities(()).is_reachable(ldid)));
                let mut sup = Vec::new();
                for cs in tcx.explicit_super_predicates_of(did).iter_identity_copied() {
                    let (clause, _) = cs.skip_norm_wip();
                    if let Some(tp) = clause.as_trait_clause() {
                        let sd = tp.def_id();
                        sup.push(J::obj()
                            .set("reachable", J::Bool(match sd.as_local() {
                                Some(l) => tcx.effective_visibilities(()).is_reachable(l),
                                None => true,
                            }))
                            .set("nameable", J::Bool(match sd.as_local() {
                                Some(l) => tcx.effective_visibilities(()).is_exported(l),
                                None => true,
                            }))
                            .set("path", J::s(def_path(tcx, sd)))
                            .set("vis", J::s(crate::vis_str(tcx, tcx.visibility(sd))))
                            .set("local", J::Bool(sd.is_local())));
                    }
                }
                j.put("supertraits", J::Arr(sup));
                let mut ms = Vec::new();
                for &a in tcx.associated_item_def_ids(did) {
                    let mut mj = J::obj()
                        .set("name", J::s(tcx.item_name(a).to_string()))
                        .set("dk", J::s(crate::hirx::defkind_str(tcx.def_kind(a))));
                    if matches!(tcx.def_kind(a), DefKind::AssocFn) {
                        mj.put("has_default", J::Bool(tcx.defaultness(a).has_value()));
                    }
                    ms.push(mj);
                }
                j.put("assoc", J::Arr(ms));
            }
            DefKind::Const { .. } | DefKind::AssocConst { .. } | DefKind::Static { .. } => {
                j.put("vis", J::s(crate::vis_str(tcx, tcx.visibility(did))));
                let ty = tcx.type_of(did).instantiate_identity().skip_norm_wip();
                j.put("ty", J::s(format!("{}", ty)));
                if matches!(kind, DefKind::Static { .. }) {
                    j.put("mutable", J::Bool(tcx.is_mutable_static(did)));
                    j.put("thread_local", J::Bool(tcx.is_thread_local_static(did)));
                }
                if !matches!(kind, DefKind::Static { .. }) && tcx.generics_of(did).is_empty() && has_body(tcx, did) {
                    if let Ok(cv) = tcx.const_eval_poly(did) {
                        const_value(tcx, cv, ty, &mut j);
                    }
                }
            }
            DefKind::Fn | DefKind::AssocFn => {
                // signature facts live with the body; trait method declarations without body:
                j.put("vis", J::s(crate::vis_str(tcx, tcx.visibility(did))));
                let sig = tcx.fn_sig(did).instantiate_identity().skip_norm_wip().skip_binder();
                j.put("sig", J::s(format!("{}", sig)));
                j.put("unsafe_fn", J::Bool(sig.safety().is_unsafe()));
            }
            DefKind::OpaqueTy => {
                j.put("hidden", J::s(format!("{}", tcx.type_of(did).instantiate_identity().skip_norm_wip())));
                j.put("parent", J::s(def_path(tcx, tcx.parent(did))));
            }
            DefKind::Mod | DefKind::Macro(..) | DefKind::TyAlias | DefKind::Use => {}
            _ => continue,
        }
        out.push(j);
    }
    for ldid in tcx.hir_crate_items(()).opaques() {
        let did = ldid.to_def_id();
        let mut j = J::obj();
        j.put("path", J::s(def_path(tcx, did)));
        j.put("dk", J::s("OpaqueTy"));
        let span = tcx.def_span(did);
        j.put("file", J::s(file_of(tcx, span)));
        span_json(tcx, span, &mut j);
        j.put("hidden", J::s(format!("{}", tcx.type_of(did).instantiate_identity().skip_norm_wip())));
        let parent = match tcx.opaque_ty_origin(did) {
            rustc_hir::OpaqueTyOrigin::FnReturn { parent, .. } => parent,
            rustc_hir::OpaqueTyOrigin::AsyncFn { parent, .. } => parent,
            rustc_hir::OpaqueTyOrigin::TyAlias { parent, .. } => parent,
        };
        j.put("parent", J::s(def_path(tcx, parent)));
        out.push(j);
    }
    J::Arr(out)
}

fn has_body<'tcx>(tcx: TyCtxt<'tcx>, did: rustc_hir::def_id::DefId) -> bool {
    match did.as_local() {
        Some(l) => tcx.hir_maybe_body_owned_by(l).is_some(),
        None => false,
    }
}

fn fields<'tcx>(tcx: TyCtxt<'tcx>, v: &ty::VariantDef) -> J {
    let mut fs = Vec::new();
    for f in v.fields.iter() {
        fs.push(J::obj()
            .set("name", J::s(f.name.to_string()))
            .set("ty", J::s(format!("{}", tcx.type_of(f.did).instantiate_identity().skip_norm_wip())))
            .set("vis", J::s(crate::vis_str(tcx, f.vis))));
    }
    J::Arr(fs)
}

fn const_value<'tcx>(tcx: TyCtxt<'tcx>, cv: ConstValue, ty: ty::Ty<'tcx>, j: &mut J) {
    match cv {
        ConstValue::Scalar(rustc_middle::mir::interpret::Scalar::Int(i)) => {
            let size = i.size();
            let raw = i.to_bits(size);
            let v: i128 = if ty.is_signed() { size.sign_extend(raw) as i128 } else { raw as i128 };
            j.put("value", J::Int(v));
        }
        ConstValue::Indirect { alloc_id, offset } => {
            if let rustc_middle::mir::interpret::GlobalAlloc::Memory(mem) = tcx.global_alloc(alloc_id) {
                let alloc = mem.inner();
                if alloc.provenance().ptrs().is_empty() {
                    let start = offset.bytes() as usize;
                    let len = alloc.len();
                    let bytes = alloc.inspect_with_uninit_and_ptr_outside_interpreter(start..len);
                    if bytes.len() <= 1 << 16 {
                        j.put("bytes", J::Arr(bytes.iter().map(|b| J::Int(*b as i128)).collect()));
                    }
                } else {
                    j.put("has_ptrs", J::Bool(true));
                }
            }
        }
        ConstValue::ZeroSized => j.put("zst", J::Bool(true)),
        _ => {}
    }
}
