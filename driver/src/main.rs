//! Fact extractor for the anstyle static checks.
//!
//! Runs as `RUSTC_WRAPPER`: argv[1] is the real rustc path and is dropped.  For crates whose
//! `CARGO_MANIFEST_DIR` lies under one of the prefixes in `VERIF_ROOTS` (colon separated) the
//! type-checked program is exported as one JSON file per crate into `VERIF_FACTS_DIR`:
//! items (enums, structs, impls, consts with evaluated values, opaque types), the HIR of every
//! body with resolved callees/paths, and the MIR CFG of every fn/closure with resolved callees.
//! Every other crate is compiled unchanged.
#![feature(rustc_private)]

extern crate rustc_abi;
extern crate rustc_ast;
extern crate rustc_driver;
extern crate rustc_hir;
extern crate rustc_interface;
extern crate rustc_middle;
extern crate rustc_session;
extern crate rustc_span;

mod hirx;
mod items;
mod json;
mod mirx;

use json::J;
use rustc_driver::{Callbacks, Compilation};
use rustc_interface::interface::Compiler;
use rustc_middle::ty::TyCtxt;

struct Extract {
    out_dir: String,
    suffix: String,
}

impl Callbacks for Extract {
    fn after_analysis<'tcx>(&mut self, _c: &Compiler, tcx: TyCtxt<'tcx>) -> Compilation {
        if tcx.sess.dcx().has_errors().is_some() {
            return Compilation::Continue;
        }
        let crate_name = tcx.crate_name(rustc_hir::def_id::LOCAL_CRATE).to_string();
        if crate_name == "build_script_build" {
            return Compilation::Continue;
        }
        let is_test = tcx.sess.is_test_crate();
        let facts = rustc_middle::ty::print::with_no_trimmed_paths!(
            rustc_middle::ty::print::with_no_visible_paths!(rustc_middle::ty::print::with_resolve_crate_name!(
                collect(tcx, &crate_name)
            ))
        );
        let mut s = String::with_capacity(1 << 20);
        facts.write(&mut s);
        let kind = if is_test { ".test" } else { "" };
        let path = format!("{}/{}{}{}.json", self.out_dir, crate_name, kind, self.suffix);
        let tmp = format!("{}.tmp.{}", path, std::process::id());
        std::fs::write(&tmp, s).expect("write facts");
        std::fs::rename(&tmp, &path).expect("rename facts");
        Compilation::Continue
    }
}

fn collect<'tcx>(tcx: TyCtxt<'tcx>, crate_name: &str) -> J {
    let mut root = J::obj();
    root.put("crate", J::s(crate_name));
    let feats: Vec<J> = tcx
        .sess
        .config
        .iter()
        .filter(|(k, _)| k.as_str() == "feature")
        .filter_map(|(_, v)| v.map(|v| J::s(v.as_str().to_string())))
        .collect();
    root.put("cfg_features", J::Arr(feats));
    root.put("items", items::collect_items(tcx));
    let mut bodies = Vec::new();
    for owner in tcx.hir_body_owners() {
        bodies.push(hirx::body_facts(tcx, owner));
    }
    root.put("bodies", J::Arr(bodies));
    root
}

struct Plain;
impl Callbacks for Plain {}

fn main() {
    let mut args: Vec<String> = std::env::args().collect();
    // RUSTC_WRAPPER / RUSTC_WORKSPACE_WRAPPER: argv[1] is the path of the real rustc
    if args.len() > 1 && (args[1].ends_with("rustc") || args[1].contains("/rustc")) {
        args.remove(1);
    }
    let out_dir = std::env::var("VERIF_FACTS_DIR").ok();
    let roots = std::env::var("VERIF_ROOTS").unwrap_or_default();
    let manifest = std::env::var("CARGO_MANIFEST_DIR").unwrap_or_default();
    let ours = !manifest.is_empty()
        && roots
            .split(':')
            .filter(|r| !r.is_empty())
            .any(|r| manifest == r || manifest.starts_with(&format!("{}/", r.trim_end_matches('/'))));
    let is_probe = args.iter().any(|a| a == "-vV" || a.starts_with("--print") || a == "-");
    match (out_dir, ours && !is_probe) {
        (Some(out_dir), true) => {
            let suffix = std::env::var("VERIF_FACTS_SUFFIX").unwrap_or_default();
            rustc_driver::run_compiler(&args, &mut Extract { out_dir, suffix });
        }
        _ => rustc_driver::run_compiler(&args, &mut Plain),
    }
}

// ---------------------------------------------------------------------------------------------
// shared helpers

pub fn span_json<'tcx>(tcx: TyCtxt<'tcx>, span: rustc_span::Span, j: &mut J) {
    let sm = tcx.sess.source_map();
    let call = span.source_callsite();
    let loc = sm.lookup_char_pos(call.lo());
    j.put("ln", J::Int(loc.line as i128));
    if span.from_expansion() {
        let mut names = Vec::new();
        for e in span.macro_backtrace() {
            names.push(J::s(e.kind.descr().to_string()));
        }
        j.put("mac", J::Arr(names));
    }
}

pub fn file_of<'tcx>(tcx: TyCtxt<'tcx>, span: rustc_span::Span) -> String {
    let sm = tcx.sess.source_map();
    let call = span.source_callsite();
    let loc = sm.lookup_char_pos(call.lo());
    format!("{}", loc.file.name.prefer_local_unconditionally())
}

pub fn def_path<'tcx>(tcx: TyCtxt<'tcx>, did: rustc_hir::def_id::DefId) -> String {
    tcx.def_path_str(did)
}

pub fn vis_str<'tcx>(tcx: TyCtxt<'tcx>, v: rustc_middle::ty::Visibility<rustc_hir::def_id::DefId>) -> String {
    match v {
        rustc_middle::ty::Visibility::Public => "Public".to_string(),
        rustc_middle::ty::Visibility::Restricted(d) => format!("Restricted({})", tcx.def_path_str(d)),
    }
}
