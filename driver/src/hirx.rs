//! HIR body export: a faithful typed tree with resolved paths and callees.

use crate::json::J;
use crate::{def_path, file_of, span_json};
use rustc_hir as hir;
use rustc_hir::def::{DefKind, Res};
use rustc_hir::def_id::LocalDefId;
use rustc_middle::ty::print::PrintTraitRefExt;
use rustc_middle::ty::{self, TyCtxt, TypeckResults};

pub struct Cx<'tcx> {
    pub tcx: TyCtxt<'tcx>,
    pub typeck: &'tcx TypeckResults<'tcx>,
    pub owner: LocalDefId,
}

pub fn body_facts<'tcx>(tcx: TyCtxt<'tcx>, owner: LocalDefId) -> J {
    let did = owner.to_def_id();
    let kind = tcx.def_kind(did);
    let mut j = J::obj();
    j.put("path", J::s(def_path(tcx, did)));
    j.put("kind", J::s(defkind_str(kind)));
    let span = tcx.def_span(did);
    j.put("file", J::s(file_of(tcx, span)));
    span_json(tcx, span, &mut j);
    if span.from_expansion() {
        j.put("expn", J::Bool(true));
    }
    if matches!(kind, DefKind::Fn | DefKind::AssocFn) {
        j.put("vis", J::s(crate::vis_str(tcx, tcx.visibility(did))));
        let sig = tcx.fn_sig(did).instantiate_identity().skip_norm_wip().skip_binder();
        j.put("sig", J::s(format!("{}", sig)));
        j.put("unsafe_fn", J::Bool(sig.safety().is_unsafe()));
        if let Some(imp) = tcx.impl_of_assoc(did) {
            j.put("impl_self", J::s(format!("{}", tcx.type_of(imp).instantiate_identity().skip_norm_wip())));
            if let Some(tr) = tcx.impl_opt_trait_ref(imp) {
                j.put("impl_trait", J::s(format!("{}", tr.instantiate_identity().skip_norm_wip().print_only_trait_path())));
            }
        }
    }
    let is_closure = matches!(kind, DefKind::Closure);
    if !is_closure {
        // closures are inlined in their parent's HIR tree; they only get MIR of their own
        let body = tcx.hir_body_owned_by(owner);
        let typeck = tcx.typeck(owner);
        let cx = Cx { tcx, typeck, owner };
        let mut params = Vec::new();
        for p in body.params {
            params.push(cx.pat(p.pat));
        }
        j.put("params", J::Arr(params));
        j.put("hir", cx.expr(body.value));
    } else {
        j.put("parent", J::s(def_path(tcx, tcx.typeck_root_def_id(did))));
    }
    if matches!(kind, DefKind::Fn | DefKind::AssocFn | DefKind::Closure) {
        j.put("mir", crate::mirx::mir_facts(tcx, owner));
    }
    j
}

impl<'tcx> Cx<'tcx> {
    fn ty_str(&self, t: ty::Ty<'tcx>) -> J {
        J::s(format!("{}", t))
    }

    fn res(&self, res: Res, j: &mut J) {
        match res {
            Res::Local(h) => {
                j.put("k", J::s("local"));
                j.put("name", J::s(self.tcx.hir_name(h).to_string()));
                j.put("id", J::Int(h.local_id.as_u32() as i128));
            }
            Res::Def(kind, did) => {
                j.put("k", J::s("def"));
                j.put("dk", J::s(defkind_str(kind)));
                j.put("path", J::s(def_path(self.tcx, did)));
                if let DefKind::Ctor(..) = kind {
                    // path of the variant / struct the constructor belongs to
                    let parent = self.tcx.parent(did);
                    j.put("path", J::s(def_path(self.tcx, parent)));
                }
            }
            Res::SelfCtor(did) => {
                j.put("k", J::s("def"));
                j.put("dk", J::s("SelfCtor"));
                j.put("path", J::s(format!("{}", self.tcx.type_of(did).instantiate_identity().skip_norm_wip())));
            }
            Res::SelfTyAlias { alias_to, .. } => {
                j.put("k", J::s("def"));
                j.put("dk", J::s("SelfTy"));
                j.put("path", J::s(format!("{}", self.tcx.type_of(alias_to).instantiate_identity().skip_norm_wip())));
            }
            other => {
                j.put("k", J::s("res"));
                j.put("dbg", J::s(format!("{:?}", other)));
            }
        }
    }

    fn qpath(&self, qp: &hir::QPath<'tcx>, id: hir::HirId) -> J {
        let mut j = J::obj();
        let res = self.typeck.qpath_res(qp, id);
        self.res(res, &mut j);
        j
    }

    fn lit(&self, lit: &hir::Lit, negated: bool) -> J {
        use rustc_ast::LitKind;
        let mut j = J::obj();
        j.put("k", J::s("lit"));
        match lit.node {
            LitKind::Str(s, _) => {
                j.put("t", J::s("str"));
                j.put("v", J::s(s.as_str().to_string()));
            }
            LitKind::ByteStr(ref b, _) | LitKind::CStr(ref b, _) => {
                j.put("t", J::s("bytes"));
                j.put("v", J::Arr(b.as_byte_str().iter().map(|x| J::Int(*x as i128)).collect()));
            }
            LitKind::Byte(b) => {
                j.put("t", J::s("int"));
                j.put("byte", J::Bool(true));
                j.put("v", J::Int(b as i128));
            }
            LitKind::Char(c) => {
                j.put("t", J::s("char"));
                j.put("v", J::Int(c as u32 as i128));
            }
            LitKind::Int(n, _) => {
                j.put("t", J::s("int"));
                let v = n.get() as i128;
                j.put("v", J::Int(if negated { -v } else { v }));
            }
            LitKind::Float(s, _) => {
                j.put("t", J::s("float"));
                j.put("v", J::s(s.as_str().to_string()));
            }
            LitKind::Bool(b) => {
                j.put("t", J::s("bool"));
                j.put("v", J::Bool(b));
            }
            LitKind::Err(_) => {
                j.put("t", J::s("err"));
            }
        }
        j
    }

    pub fn pat(&self, p: &hir::Pat<'tcx>) -> J {
        use hir::PatKind::*;
        let mut j = J::obj();
        match p.kind {
            Wild | Missing => j.put("k", J::s("pwild")),
            Never => j.put("k", J::s("pnever")),
            Binding(mode, id, ident, sub) => {
                j.put("k", J::s("pbind"));
                j.put("name", J::s(ident.name.to_string()));
                j.put("id", J::Int(id.local_id.as_u32() as i128));
                j.put("mode", J::s(format!("{:?}", mode)));
                if let Some(s) = sub {
                    j.put("sub", self.pat(s));
                }
                j.put("ty", self.ty_str(self.typeck.pat_ty(p)));
            }
            Struct(ref qp, fields, rest) => {
                j.put("k", J::s("pstruct"));
                j.put("path", self.qpath(qp, p.hir_id));
                let fs: Vec<J> = fields
                    .iter()
                    .map(|f| J::obj().set("name", J::s(f.ident.name.to_string())).set("p", self.pat(f.pat)))
                    .collect();
                j.put("fields", J::Arr(fs));
                j.put("rest", J::Bool(rest.is_some()));
            }
            TupleStruct(ref qp, pats, ddpos) => {
                j.put("k", J::s("pts"));
                j.put("path", self.qpath(qp, p.hir_id));
                j.put("pats", J::Arr(pats.iter().map(|x| self.pat(x)).collect()));
                if let Some(n) = ddpos.as_opt_usize() {
                    j.put("dd", J::Int(n as i128));
                }
            }
            Or(pats) => {
                j.put("k", J::s("por"));
                j.put("pats", J::Arr(pats.iter().map(|x| self.pat(x)).collect()));
            }
            Tuple(pats, ddpos) => {
                j.put("k", J::s("ptuple"));
                j.put("pats", J::Arr(pats.iter().map(|x| self.pat(x)).collect()));
                if let Some(n) = ddpos.as_opt_usize() {
                    j.put("dd", J::Int(n as i128));
                }
            }
            Box(inner) | Deref(inner) => {
                j.put("k", J::s("pderef"));
                j.put("p", self.pat(inner));
            }
            Ref(inner, _, m) => {
                j.put("k", J::s("pref"));
                j.put("mut", J::Bool(m.is_mut()));
                j.put("p", self.pat(inner));
            }
            Expr(pe) => return self.pat_expr(pe),
            Guard(inner, cond) => {
                j.put("k", J::s("pguard"));
                j.put("p", self.pat(inner));
                j.put("cond", self.expr(cond));
            }
            Range(lo, hi, end) => {
                j.put("k", J::s("prange"));
                if let Some(lo) = lo {
                    j.put("lo", self.pat_expr(lo));
                }
                if let Some(hi) = hi {
                    j.put("hi", self.pat_expr(hi));
                }
                j.put("incl", J::Bool(matches!(end, hir::RangeEnd::Included)));
            }
            Slice(before, mid, after) => {
                j.put("k", J::s("pslice"));
                j.put("before", J::Arr(before.iter().map(|x| self.pat(x)).collect()));
                if let Some(m) = mid {
                    j.put("mid", self.pat(m));
                }
                j.put("after", J::Arr(after.iter().map(|x| self.pat(x)).collect()));
            }
            Err(_) => j.put("k", J::s("perr")),
        }
        j
    }

    fn pat_expr(&self, pe: &hir::PatExpr<'tcx>) -> J {
        match pe.kind {
            hir::PatExprKind::Lit { ref lit, negated } => self.lit(lit, negated),
            hir::PatExprKind::Path(ref qp) => {
                let mut j = self.qpath(qp, pe.hir_id);
                // a path pattern: unit variant / const
                if let J::Obj(ref mut o) = j {
                    for (k, v) in o.iter_mut() {
                        if k == "k" {
                            *v = J::s("ppath");
                        }
                    }
                }
                j
            }
        }
    }

    fn block(&self, b: &hir::Block<'tcx>) -> J {
        let mut j = J::obj();
        j.put("k", J::s("block"));
        if let hir::BlockCheckMode::UnsafeBlock(src) = b.rules {
            j.put("unsafe", J::s(format!("{:?}", src)));
        }
        let mut stmts = Vec::new();
        for s in b.stmts {
            match s.kind {
                hir::StmtKind::Let(l) => {
                    let mut sj = J::obj();
                    sj.put("k", J::s("let"));
                    sj.put("pat", self.pat(l.pat));
                    if let Some(i) = l.init {
                        sj.put("init", self.expr(i));
                    }
                    if let Some(e) = l.els {
                        sj.put("els", self.block(e));
                    }
                    span_json(self.tcx, s.span, &mut sj);
                    stmts.push(sj);
                }
                hir::StmtKind::Item(_) => {}
                hir::StmtKind::Expr(e) | hir::StmtKind::Semi(e) => stmts.push(self.expr(e)),
            }
        }
        j.put("stmts", J::Arr(stmts));
        if let Some(e) = b.expr {
            j.put("expr", self.expr(e));
        }
        span_json(self.tcx, b.span, &mut j);
        j
    }

    /// Resolve a (possibly trait) method/function with its substitutions to the impl item.
    fn resolve_callee(&self, did: rustc_hir::def_id::DefId, args: ty::GenericArgsRef<'tcx>) -> Option<String> {
        if args.len() != self.tcx.generics_of(did).count() {
            return None;
        }
        let env = ty::TypingEnv::post_analysis(self.tcx, self.owner.to_def_id());
        match ty::Instance::try_resolve(self.tcx, env, did, args) {
            Ok(Some(inst)) => Some(def_path(self.tcx, inst.def_id())),
            _ => None,
        }
    }

    pub fn expr(&self, e: &hir::Expr<'tcx>) -> J {
        use hir::ExprKind::*;
        let mut j = J::obj();
        match e.kind {
            DropTemps(inner) | Use(inner, _) | Type(inner, _) => return self.expr(inner),
            ConstBlock(ref cb) => {
                j.put("k", J::s("constblock"));
                let body = self.tcx.hir_body(cb.body);
                let cx = Cx { tcx: self.tcx, typeck: self.tcx.typeck_body(cb.body), owner: self.owner };
                j.put("body", cx.expr(body.value));
            }
            Array(es) => {
                j.put("k", J::s("array"));
                j.put("es", J::Arr(es.iter().map(|x| self.expr(x)).collect()));
            }
            Call(f, args) => {
                j.put("k", J::s("call"));
                let mut done = false;
                if let Path(ref qp) = f.kind {
                    let res = self.typeck.qpath_res(qp, f.hir_id);
                    match res {
                        Res::Def(DefKind::Ctor(..), did) => {
                            j.put("ctor", J::s(def_path(self.tcx, self.tcx.parent(did))));
                            done = true;
                        }
                        Res::SelfCtor(did) => {
                            j.put("ctor", J::s(format!("{}", self.tcx.type_of(did).instantiate_identity().skip_norm_wip())));
                            done = true;
                        }
                        Res::Def(DefKind::Fn | DefKind::AssocFn, did) => {
                            j.put("callee", J::s(def_path(self.tcx, did)));
                            let substs = self.typeck.node_args(f.hir_id);
                            if let Some(r) = self.resolve_callee(did, substs) {
                                j.put("resolved", J::s(r));
                            }
                            done = true;
                        }
                        _ => {}
                    }
                }
                if !done {
                    j.put("f", self.expr(f));
                }
                j.put("args", J::Arr(args.iter().map(|x| self.expr(x)).collect()));
            }
            MethodCall(seg, recv, args, _) => {
                j.put("k", J::s("call"));
                j.put("method", J::s(seg.ident.name.to_string()));
                if let Some(did) = self.typeck.type_dependent_def_id(e.hir_id) {
                    j.put("callee", J::s(def_path(self.tcx, did)));
                    let substs = self.typeck.node_args(e.hir_id);
                    if let Some(r) = self.resolve_callee(did, substs) {
                        j.put("resolved", J::s(r));
                    }
                }
                j.put("recv_ty", self.ty_str(self.typeck.expr_ty(recv)));
                let adj = self.typeck.expr_adjustments(recv);
                if !adj.is_empty() {
                    j.put("recv_adj_ty", self.ty_str(self.typeck.expr_ty_adjusted(recv)));
                }
                let mut a = vec![self.expr(recv)];
                a.extend(args.iter().map(|x| self.expr(x)));
                j.put("args", J::Arr(a));
            }
            Tup(es) => {
                j.put("k", J::s("tuple"));
                j.put("es", J::Arr(es.iter().map(|x| self.expr(x)).collect()));
            }
            Binary(op, l, r) => {
                j.put("k", J::s("bin"));
                j.put("op", J::s(format!("{:?}", op.node)));
                if let Some(did) = self.typeck.type_dependent_def_id(e.hir_id) {
                    j.put("callee", J::s(def_path(self.tcx, did)));
                    let substs = self.typeck.node_args(e.hir_id);
                    if let Some(r) = self.resolve_callee(did, substs) {
                        j.put("resolved", J::s(r));
                    }
                }
                j.put("l", self.expr(l));
                j.put("r", self.expr(r));
            }
            Unary(op, inner) => {
                j.put("k", J::s("un"));
                j.put("op", J::s(format!("{:?}", op)));
                if let Some(did) = self.typeck.type_dependent_def_id(e.hir_id) {
                    j.put("callee", J::s(def_path(self.tcx, did)));
                    let substs = self.typeck.node_args(e.hir_id);
                    if let Some(r) = self.resolve_callee(did, substs) {
                        j.put("resolved", J::s(r));
                    }
                }
                j.put("e", self.expr(inner));
            }
            Lit(ref l) => {
                j = self.lit(l, false);
            }
            Cast(inner, _) => {
                j.put("k", J::s("cast"));
                j.put("e", self.expr(inner));
            }
            Let(l) => {
                j.put("k", J::s("letexpr"));
                j.put("pat", self.pat(l.pat));
                j.put("init", self.expr(l.init));
            }
            If(c, t, el) => {
                j.put("k", J::s("if"));
                j.put("c", self.expr(c));
                j.put("t", self.expr(t));
                if let Some(el) = el {
                    j.put("e", self.expr(el));
                }
            }
            Loop(b, label, src, _) => {
                j.put("k", J::s("loop"));
                if let Some(l) = label {
                    j.put("label", J::s(l.ident.name.to_string()));
                }
                j.put("src", J::s(format!("{:?}", src)));
                j.put("body", self.block(b));
            }
            Match(scrut, arms, src) => {
                j.put("k", J::s("match"));
                j.put("src", J::s(match src {
                    hir::MatchSource::TryDesugar(_) => "TryDesugar".to_string(),
                    other => format!("{:?}", other),
                }));
                j.put("scrut", self.expr(scrut));
                let mut av = Vec::new();
                for a in arms {
                    let mut aj = J::obj();
                    aj.put("pat", self.pat(a.pat));
                    if let Some(g) = a.guard {
                        aj.put("guard", self.expr(g));
                    }
                    aj.put("body", self.expr(a.body));
                    span_json(self.tcx, a.span, &mut aj);
                    av.push(aj);
                }
                j.put("arms", J::Arr(av));
            }
            Closure(c) => {
                j.put("k", J::s("closure"));
                j.put("def", J::s(def_path(self.tcx, c.def_id.to_def_id())));
                let body = self.tcx.hir_body(c.body);
                let cx = Cx { tcx: self.tcx, typeck: self.tcx.typeck_body(c.body), owner: self.owner };
                j.put("params", J::Arr(body.params.iter().map(|p| cx.pat(p.pat)).collect()));
                j.put("body", cx.expr(body.value));
                j.put("by_move", J::Bool(matches!(c.capture_clause, hir::CaptureBy::Value { .. })));
            }
            Block(b, _) => {
                j = self.block(b);
            }
            Assign(l, r, _) => {
                j.put("k", J::s("assign"));
                j.put("l", self.expr(l));
                j.put("r", self.expr(r));
            }
            AssignOp(op, l, r) => {
                j.put("k", J::s("assignop"));
                j.put("op", J::s(format!("{:?}", op.node)));
                if let Some(did) = self.typeck.type_dependent_def_id(e.hir_id) {
                    j.put("callee", J::s(def_path(self.tcx, did)));
                    let substs = self.typeck.node_args(e.hir_id);
                    if let Some(r) = self.resolve_callee(did, substs) {
                        j.put("resolved", J::s(r));
                    }
                }
                j.put("l", self.expr(l));
                j.put("r", self.expr(r));
            }
            Field(inner, ident) => {
                j.put("k", J::s("field"));
                j.put("name", J::s(ident.name.to_string()));
                j.put("e", self.expr(inner));
            }
            Index(base, idx, _) => {
                j.put("k", J::s("index"));
                if let Some(did) = self.typeck.type_dependent_def_id(e.hir_id) {
                    j.put("callee", J::s(def_path(self.tcx, did)));
                }
                j.put("base_ty", self.ty_str(self.typeck.expr_ty_adjusted(base)));
                j.put("e", self.expr(base));
                j.put("i", self.expr(idx));
            }
            Path(ref qp) => {
                j = self.qpath(qp, e.hir_id);
            }
            AddrOf(kind, m, inner) => {
                j.put("k", J::s("ref"));
                j.put("mut", J::Bool(m.is_mut()));
                if matches!(kind, hir::BorrowKind::Raw) {
                    j.put("raw", J::Bool(true));
                }
                j.put("e", self.expr(inner));
            }
            Break(dest, val) => {
                j.put("k", J::s("break"));
                if let Some(l) = dest.label {
                    j.put("label", J::s(l.ident.name.to_string()));
                }
                if let Some(v) = val {
                    j.put("e", self.expr(v));
                }
            }
            Continue(dest) => {
                j.put("k", J::s("continue"));
                if let Some(l) = dest.label {
                    j.put("label", J::s(l.ident.name.to_string()));
                }
            }
            Ret(val) => {
                j.put("k", J::s("ret"));
                if let Some(v) = val {
                    j.put("e", self.expr(v));
                }
            }
            Struct(qp, fields, tail) => {
                j.put("k", J::s("struct"));
                j.put("path", self.qpath(qp, e.hir_id));
                let fs: Vec<J> = fields
                    .iter()
                    .map(|f| J::obj().set("name", J::s(f.ident.name.to_string())).set("e", self.expr(f.expr)))
                    .collect();
                j.put("fields", J::Arr(fs));
                if let hir::StructTailExpr::Base(b) = tail {
                    j.put("base", self.expr(b));
                }
            }
            Repeat(val, _) => {
                j.put("k", J::s("repeat"));
                j.put("e", self.expr(val));
                if let ty::Array(_, len) = self.typeck.expr_ty(e).kind() {
                    j.put("len", J::s(format!("{}", len)));
                }
            }
            Become(inner) => {
                j.put("k", J::s("become"));
                j.put("e", self.expr(inner));
            }
            Yield(..) | InlineAsm(..) | OffsetOf(..) | UnsafeBinderCast(..) | Err(..) => {
                j.put("k", J::s("other"));
                j.put("dbg", J::s(format!("{:?}", std::mem::discriminant(&e.kind))));
            }
        }
        if let J::Obj(ref o) = j {
            if !o.iter().any(|(k, _)| k == "ln") {
                span_json(self.tcx, e.span, &mut j);
            }
        }
        j.put("ty", self.ty_str(self.typeck.expr_ty(e)));
        j
    }
}

pub fn defkind_str(k: DefKind) -> String {
    match k {
        DefKind::Ctor(of, kind) => format!("Ctor({:?},{:?})", of, kind),
        DefKind::Const { .. } => "Const".to_string(),
        DefKind::AssocConst { .. } => "AssocConst".to_string(),
        DefKind::Static { .. } => "Static".to_string(),
        DefKind::Impl { .. } => "Impl".to_string(),
        other => format!("{:?}", other),
    }
}
