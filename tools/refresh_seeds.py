#!/usr/bin/env python3
"""Re-evaluate every seeded change under /verif/seeded against ALL 20 checks with the current rules and rewrite the
`detected_by` field of its meta.json.  Also prints a summary table (used for DESIGN.md §8.5)."""
import glob
import json
import os
import subprocess
import sys

HERE = os.path.dirname(os.path.dirname(os.path.abspath(__file__)))
rows = []
for meta_path in sorted(glob.glob(os.path.join(HERE, "seeded", "*", "meta.json"))):
    d = os.path.dirname(meta_path)
    meta = json.load(open(meta_path))
    r = subprocess.run([sys.executable, os.path.join(HERE, "tools", "eval_seed.py"), os.path.join(d, "patch.diff")], capture_output=True, text=True)
    fired = {}
    for line in r.stdout.splitlines():
        if line.startswith("{"):
            fired = json.loads(line).get("fired", {})
    meta["detected_by"] = fired
    meta["checks_evaluated"] = "all 20"
    meta["detected"] = bool(fired)
    meta["detected_by_its_own_property"] = bool(fired.get(meta["breaks_property"]))
    json.dump(meta, open(meta_path, "w"), indent=1)
    rows.append((meta["id"], sorted(fired), meta["detected_by_its_own_property"]))
    print(meta["id"], sorted(fired), "own" if meta["detected_by_its_own_property"] else "NOT-BY-OWN-PROPERTY", flush=True)
missed = [r[0] for r in rows if not r[1]]
print(f"{len(rows)} seeds, {len(missed)} undetected: {missed}")
