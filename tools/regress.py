#!/usr/bin/env python3
"""Regression of the rules in both directions, in parallel, on scratch copies of /repo (removed afterwards):

  must fire : every self-test mutant (selftest/index.json) and every seeded breaking change (seeded/*, kind != benign) makes the
              check of its property report a violation (mutants: with the expected key fragment);
  must stay silent : every behaviour-preserving refactor (seeded/* with kind == benign-refactor, plus any directory given with
              --benign DIR containing <x>/patch.diff) leaves ALL 20 checks silent.

usage: regress.py [--jobs N] [--only fire|silent] [--cross] [--benign DIR ...] [name-substring ...]
(--cross: run all 20 checks on the breaking changes too and list the checks of OTHER properties that fire)
Writes tools/regress_last.json ."""
import glob
import json
import os
import shutil
import subprocess
import sys
import tempfile
import time
from concurrent.futures import ThreadPoolExecutor

HERE = os.path.dirname(os.path.dirname(os.path.abspath(__file__)))
sys.path.insert(0, HERE)
import selftest  # noqa: E402

PROPS = [f"C{i:02d}" for i in range(1, 21)]


def run_checks(patch, props, tag):
    d = selftest.make_scratch(patch, tag)
    evd = tempfile.mkdtemp(prefix="anstyle-regress-ev-")
    fired = {}
    try:
        env = dict(os.environ, VERIF_REPO=d, VERIF_EVIDENCE_DIR=evd, VERIF_FACTS_KEEP="64")
        for p in props:
            r = subprocess.run([os.path.join(HERE, "check"), p], cwd=HERE, env=env, capture_output=True, text=True)
            keys = [l.strip()[len("violation "):] for l in r.stdout.splitlines() if l.strip().startswith("violation ")]
            if r.returncode == 2:
                fired[p] = ["<analysis error> " + r.stderr[-300:]]
            elif r.returncode != 0:
                fired[p] = keys or ["<exit %d>" % r.returncode]
    finally:
        shutil.rmtree(d, ignore_errors=True)
        shutil.rmtree(evd, ignore_errors=True)
    return fired


def main():
    argv = sys.argv[1:]
    jobs, only, benign_dirs, names = 8, None, [], []
    cross = "--cross" in argv
    argv = [a for a in argv if a != "--cross"]
    i = 0
    while i < len(argv):
        if argv[i] == "--jobs":
            jobs = int(argv[i + 1]); i += 2
        elif argv[i] == "--only":
            only = argv[i + 1]; i += 2
        elif argv[i] == "--benign":
            benign_dirs.append(argv[i + 1]); i += 2
        else:
            names.append(argv[i]); i += 1
    work = []
    if only in (None, "fire"):
        for m in json.load(open(os.path.join(HERE, "selftest", "index.json"))) + selftest.seeded_entries():
            work.append(("fire", m["name"], os.path.join(HERE, m["patch"]), m["expect"]))
    if only in (None, "silent"):
        for m in selftest.benign_entries():
            work.append(("silent", m["name"], os.path.join(HERE, m["patch"]), None))
        for p in sorted(glob.glob(os.path.join(HERE, "benign", "*", "patch.diff"))):
            work.append(("silent", "benign/" + os.path.basename(os.path.dirname(p)).replace("-", "/"), p, None))
        for bd in benign_dirs:
            for p in sorted(glob.glob(os.path.join(bd, "*", "*", "patch.diff")) + glob.glob(os.path.join(bd, "*", "patch.diff"))):
                rel = os.path.relpath(os.path.dirname(p), bd).replace("-out", "")
                work.append(("silent", "benign/" + rel, p, None))
    if names:
        work = [w for w in work if any(n in w[1] for n in names)]
    print(f"regress: {len(work)} patches, {jobs} jobs", flush=True)
    t0 = time.time()

    def one(w):
        kind, name, patch, expect = w
        try:
            fired = run_checks(patch, (PROPS if cross else list(expect)) if kind == "fire" else PROPS, name.replace("/", "_"))
        except RuntimeError as e:
            return w, None, str(e)
        if kind == "fire":
            ok = all(any(frag in k for k in fired.get(p, [])) for p, frag in expect.items())
        else:
            ok = not fired
        return w, ok, fired

    results = []
    bad = 0
    with ThreadPoolExecutor(max_workers=jobs) as ex:
        for (kind, name, patch, expect), ok, fired in ex.map(one, work):
            results.append({"kind": kind, "name": name, "ok": ok, "fired": fired})
            if cross and kind == "fire" and isinstance(fired, dict):
                others = {p: v[0].split("|", 1)[1][:70] for p, v in fired.items() if p not in expect}
                if others:
                    print(f"  [CROSS] {name} (breaks {list(expect)}): also fires {others}", flush=True)
            if ok is None:
                print(f"  [SKIP] {kind:6s} {name}: {fired}", flush=True)
            elif not ok:
                bad += 1
                if kind == "fire":
                    print(f"  [MISS] {name}: expected {expect}, got { {p: v[:3] for p, v in fired.items()} }", flush=True)
                else:
                    print(f"  [ALARM] {name}: " + "; ".join(f"{p}: {v[0].split('|', 1)[1] if '|' in v[0] else v[0]}" + (f" (+{len(v) - 1})" if len(v) > 1 else "") for p, v in fired.items()), flush=True)
    json.dump(results, open(os.path.join(HERE, "tools", "regress_last.json"), "w"), indent=1)
    nf = sum(1 for r in results if r["kind"] == "fire")
    ns = sum(1 for r in results if r["kind"] == "silent")
    print(f"regress: {nf} must-fire ({sum(1 for r in results if r['kind'] == 'fire' and r['ok'])} ok), "
          f"{ns} must-stay-silent ({sum(1 for r in results if r['kind'] == 'silent' and r['ok'])} ok) in {time.time() - t0:.0f}s")
    try:
        sys.path.insert(0, os.path.join(HERE, "lib"))
        import extract
        extract.gc_target(1800)        # scratch copies' artefacts in the shared target directory
    except Exception:
        pass
    return 1 if bad else 0


if __name__ == "__main__":
    sys.exit(main())
