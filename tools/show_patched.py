#!/usr/bin/env python3
"""show_patched.py <patch.diff> <crate> <path-substring> [--raw]: pretty-print the (normalised) HIR of matching bodies of a scratch copy of /repo with the patch applied."""
import os, shutil, subprocess, sys
HERE = os.path.dirname(os.path.dirname(os.path.abspath(__file__)))
sys.path.insert(0, HERE)
import selftest
d = selftest.make_scratch(os.path.abspath(sys.argv[1]), "show")
try:
    env = dict(os.environ, VERIF_REPO=d)
    if "--raw" in sys.argv:
        env["VERIF_NO_NORM"] = "1"
    subprocess.run([sys.executable, os.path.join(HERE, "lib", "show.py")] + [a for a in sys.argv[2:] if a != "--raw"], env=env)
finally:
    shutil.rmtree(d, ignore_errors=True)
