#!/usr/bin/env python3
"""Record, for every crate of /repo's CURRENT tree, the function paths and their parameter names
(spec/reference_functions.json).  The normaliser (lib/norm.py) inlines private helpers that are NOT in this list (new helpers
extracted by a refactor) and restores the reference names of renamed parameters.  Re-run only after auditing a change of /repo."""
import json
import os
import sys

HERE = os.path.dirname(os.path.dirname(os.path.abspath(__file__)))
sys.path[:0] = [os.path.join(HERE, "lib"), HERE]
os.environ["VERIF_NO_NORM"] = "1"
import core  # noqa: E402
import extract  # noqa: E402

d = extract.ensure_facts(["default"])
facts = core.Facts(d["default"])
out = {}
consts = {}
for crate in extract.WORKSPACE_CRATES + ["verif_harness"]:
    fns = {}
    for b in facts.bodies(crate):
        if b.get("kind") in ("Fn", "AssocFn"):
            names = [p.get("name") if p.get("k") == "pbind" else None for p in b.get("params", [])]
            fns[b["path"]] = names if b["path"] not in fns else None   # duplicate paths (cfg twins): names unknown
    out[crate] = fns
    consts[crate] = sorted(i["path"] for i in facts.items(crate) if i["dk"] in ("Const", "AssocConst", "Static"))
json.dump(out, open(os.path.join(HERE, "spec", "reference_functions.json"), "w"), indent=0, sort_keys=True)
json.dump(consts, open(os.path.join(HERE, "spec", "reference_consts.json"), "w"), indent=0, sort_keys=True)
print({k: len(v) for k, v in out.items()})
