#!/usr/bin/env python3
"""Regenerate the table of seeded changes in DESIGN.md (between the seeded-table markers) from seeded/*/meta.json."""
import glob
import json
import os
import re

HERE = os.path.dirname(os.path.dirname(os.path.abspath(__file__)))


def short(s, n):
    s = re.sub(r"\s+", " ", s or "").replace("|", "/")
    return s if len(s) <= n else s[:n - 1] + "…"


def key_tail(k):
    parts = k.split("|")
    fn = parts[2].split("::")[-1] if len(parts) > 2 else ""
    return f"{parts[1]}@{fn}: {parts[3]}" if len(parts) > 3 else k


rows = []
for mp in sorted(glob.glob(os.path.join(HERE, "seeded", "*", "meta.json"))):
    m = json.load(open(mp))
    own = m["breaks_property"]
    fired = m.get("detected_by", {})
    kind = m.get("kind", "breaks the property")
    if kind == "benign-refactor":
        continue
    own_keys = [k for k in fired.get(own, []) if ".floor" not in k]
    others = sorted(p for p in fired if p != own)
    rows.append(f"| {m['id']} | {short(m.get('summary'), 150)} | {short(m.get('needs_to_manifest'), 110)} | "
                f"{'`' + short(key_tail(own_keys[0]), 90) + '`' if own_keys else '**missed**'} | {', '.join(others) or '—'} |")
table = ["| id | change | needs, to manifest | caught by its own property's check (first key) | also fires |", "|---|---|---|---|---|"] + rows
p = os.path.join(HERE, "DESIGN.md")
s = open(p).read()
b, e = "<!-- seeded-table:begin -->", "<!-- seeded-table:end -->"
if b in s:
    s = s[:s.index(b) + len(b)] + "\n" + "\n".join(table) + "\n" + s[s.index(e):]
    open(p, "w").write(s)
print(f"{len(rows)} rows")
