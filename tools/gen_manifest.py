#!/usr/bin/env python3
"""Regenerate /verif/MANIFEST.json from the rule modules present (rules/Cxx.py with MANIFEST dict) and NOT_APPLICABLE."""
import importlib
import json
import os
import sys

HERE = os.path.dirname(os.path.dirname(os.path.abspath(__file__)))
sys.path.insert(0, os.path.join(HERE, "lib"))
sys.path.insert(0, HERE)

PENDING_REASON = ("static rules for this property are not built yet in this revision of /verif (see DESIGN.md §4 for "
                  "the planned rules); it is not claimed until its check exists")

checks = []
na = []
for i in range(1, 21):
    p = f"C{i:02d}"
    path = os.path.join(HERE, "rules", p + ".py")
    if not os.path.exists(path):
        na.append({"property_id": p, "reason": PENDING_REASON})
        continue
    mod = importlib.import_module(f"rules.{p}")
    m = getattr(mod, "MANIFEST", None)
    if m is None or m.get("not_applicable"):
        na.append({"property_id": p, "reason": (m or {}).get("not_applicable", PENDING_REASON)})
        continue
    checks.append({
        "property_id": p,
        "quick_cmd": f"./check {p} --tier quick",
        "thorough_cmd": f"./check {p} --tier thorough",
        "evidence_file": f"/verif/evidence/{p}.json",
        "replay_cmd_template": f"./check {p} --explain {{path}}",
        "engine": "anstyle-static",
        "level_claimed": {"category": "other", "text": m["level"], "design_ref": m.get("design_ref", f"DESIGN.md §4 {p}")},
        "level_note": m["note"],
        "technique": m["technique"],
    })

manifest = {
    "version": 1,
    "setup_cmd": "./setup.sh",
    "hooks": {
        "guard": "anstyle_verif",
        "enable": "none needed: the checks analyse /repo as it is (cargo +nightly check with the fact-extraction driver as "
                  "RUSTC_WRAPPER); Windows-only anstream/src/wincon.rs is mounted by #[path] from /verif/harness",
        "baseline_off_cmd": "cd /repo && cargo test --workspace --no-fail-fast --offline",
        "source_commits": [],
        "add_only": True,
    },
    "engines": [{
        "name": "anstyle-static",
        "path": "/verif/check",
        "serves_properties": [c["property_id"] for c in checks],
        "kind_free_text": "custom static analysis: rustc_private fact extractor (resolved HIR, MIR CFG, const-evaluated "
                          "tables, item facts) + per-property Python rules against independent specification tables",
    }],
    "checks": checks,
    "not_applicable": na,
    "notes": "Static analysis only: no code of /repo is executed, concretely or symbolically, by any check. Every check "
             "re-extracts facts from /repo's working tree when its content hash changes. Genuine defects found while "
             "anchoring the rules were repaired in /repo by `fix:` commits or are listed in /verif/known_findings.txt.",
}
with open(os.path.join(HERE, "MANIFEST.json"), "w") as f:
    json.dump(manifest, f, indent=1)
print(f"claimed {len(checks)}, not_applicable {len(na)}")
