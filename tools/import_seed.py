#!/usr/bin/env python3
"""Import a confirmed seeded change into /verif/seeded/<id>/ : patch.diff, the demonstration, meta.json
(property, what it needs to manifest, what was run to confirm it, and which checks fire on it).

usage: import_seed.py <variant dir, e.g. /tmp/seed/C06-out/B> [extra properties to evaluate ...]"""
import json
import os
import shutil
import subprocess
import sys

HERE = os.path.dirname(os.path.dirname(os.path.abspath(__file__)))


def main():
    vdir = os.path.abspath(sys.argv[1])
    extra = sys.argv[2:]
    meta = json.load(open(os.path.join(vdir, "meta.json")))
    conf_path = os.path.join(vdir, "confirmed.json")
    if not os.path.exists(conf_path):
        print("not confirmed yet:", vdir)
        return 1
    conf = json.load(open(conf_path))
    if not (conf.get("demo_passes_without_change") and conf.get("demo_fails_with_change") and conf.get("suite_passes_with_change")):
        print("confirmation failed, not importing:", vdir, conf)
        return 1
    prop = meta["property"]
    variant = meta.get('variant', os.path.basename(vdir))
    rnd = int(os.environ.get("SEED_ROUND", "1"))
    if rnd > 1 and len(variant) == 1:
        variant = chr(ord(variant) + 2 * (rnd - 1))   # round 2: A,B -> C,D ; round 3: E,F
    sid = f"{prop}-{variant}"
    out = os.path.join(HERE, "seeded", sid)
    os.makedirs(out, exist_ok=True)
    shutil.copy(os.path.join(vdir, "patch.diff"), os.path.join(out, "patch.diff"))
    demos = [x for x in os.listdir(vdir) if x.endswith(".rs")]
    for d in demos:
        shutil.copy(os.path.join(vdir, d), os.path.join(out, d))
    props = sorted(set([prop] + extra))
    r = subprocess.run([sys.executable, os.path.join(HERE, "tools", "eval_seed.py"), os.path.join(out, "patch.diff")] + (props if not os.environ.get("SEED_ALL") else []),
                       capture_output=True, text=True)
    fired = {}
    for line in r.stdout.splitlines():
        if line.startswith("{"):
            fired = json.loads(line).get("fired", {})
    new_meta = {
        "id": sid,
        "breaks_property": prop,
        "summary": meta.get("summary"),
        "needs_to_manifest": meta.get("needs_to_manifest"),
        "files_changed": meta.get("files_changed"),
        "origin": "written by an independent sub-agent that was given only the property text and a scratch worktree",
        "demonstration": demos,
        "confirmed_by_me": {
            "scratch_worktree": "git worktree of /repo under /tmp (removed afterwards)",
            "round": rnd,
            "ran": conf.get("ran"),
            "suite_passes_with_change": conf.get("suite_passes_with_change"),
            "demo_fails_with_change": conf.get("demo_fails_with_change"),
            "demo_passes_without_change": conf.get("demo_passes_without_change"),
        },
        "checks_evaluated": props if not os.environ.get("SEED_ALL") else "all 20",
        "detected_by": fired,
        "detected": bool(fired.get(prop)) or bool(fired),
    }
    json.dump(new_meta, open(os.path.join(out, "meta.json"), "w"), indent=1)
    print(sid, "imported; detected by:", {k: v[:2] for k, v in fired.items()})
    return 0


if __name__ == "__main__":
    sys.exit(main())
