#!/usr/bin/env python3
"""run_patched.py <patch.diff> <script.py> [args]: run a python script with VERIF_REPO pointing at a scratch copy with the patch applied."""
import os, shutil, subprocess, sys
HERE = os.path.dirname(os.path.dirname(os.path.abspath(__file__)))
sys.path.insert(0, HERE)
import selftest
d = selftest.make_scratch(os.path.abspath(sys.argv[1]), "run")
try:
    subprocess.run([sys.executable] + sys.argv[2:], env=dict(os.environ, VERIF_REPO=d))
finally:
    shutil.rmtree(d, ignore_errors=True)
