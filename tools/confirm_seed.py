#!/usr/bin/env python3
"""Confirm a seeded change in a scratch worktree: the repository suite passes with it, its demonstration fails with it and
passes without it.  usage: confirm_seed.py <variant dir with patch.diff/meta.json/demo> <scratch worktree>
Writes <variant dir>/confirmed.json .  The worktree is restored (git checkout / clean) afterwards."""
import json
import os
import re
import shutil
import subprocess
import sys


def sh(cmd, cwd, timeout=3600):
    env = dict(os.environ, CARGO_NET_OFFLINE="true", CARGO_TERM_COLOR="never")
    p = subprocess.run(cmd, cwd=cwd, shell=True, capture_output=True, text=True, env=env, timeout=timeout)
    return p.returncode, p.stdout + p.stderr


def main():
    vdir, wt = os.path.abspath(sys.argv[1]), os.path.abspath(sys.argv[2])
    meta = json.load(open(os.path.join(vdir, "meta.json")))
    demo = meta.get("demo_file")
    if isinstance(demo, list):
        demo = demo[0]
    if not demo:
        cands = [x for x in os.listdir(vdir) if x.endswith(".rs")]
        demo = cands[0] if cands else None
    demo_src = os.path.join(vdir, os.path.basename(demo))
    m = re.search(r"(crates/[\w\-/\.]+)", meta.get("demo_install", "") or meta.get("demo_cmd", ""))
    if not m:
        print("cannot parse demo_install:", meta.get("demo_install"))
        return 2
    dest = m.group(1)
    if not dest.endswith(".rs"):
        dest = os.path.join(dest, os.path.basename(demo))
    dest = os.path.join(wt, dest)
    demo_cmd = re.split(r"\s{2,}\(|\s+#", meta["demo_cmd"])[0].strip()
    if "&&" in demo_cmd and ("cd /" in demo_cmd or demo_cmd.startswith("cp ")):
        parts = [x.strip() for x in demo_cmd.split("&&")]
        keep = [x for x in parts if not x.startswith("cp ") and not x.startswith("cd /") and not x.startswith("mkdir")]
        demo_cmd = " && ".join(keep)
    res = {}
    sh("git checkout -q -- . && git clean -fdq crates", wt)
    try:
        os.makedirs(os.path.dirname(dest), exist_ok=True)
        shutil.copy(demo_src, dest)
        rc, out = sh(demo_cmd, wt)
        res["demo_passes_without_change"] = rc == 0
        res["demo_without_tail"] = out[-300:]
        rc, out = sh(f"git apply {os.path.join(vdir, 'patch.diff')}", wt)
        if rc != 0:
            res["error"] = "patch does not apply: " + out[-300:]
        else:
            rc, out = sh(demo_cmd, wt)
            res["demo_fails_with_change"] = rc != 0
            res["demo_with_tail"] = out[-600:]
            os.remove(dest)
            rc, out = sh("cargo test --workspace --no-fail-fast --offline", wt)
            res["suite_passes_with_change"] = rc == 0
            res["suite_tail"] = "" if rc == 0 else out[-600:]
    finally:
        sh("git checkout -q -- . && git clean -fdq crates", wt)
    res["ran"] = {"demo_cmd": demo_cmd, "demo_dest": os.path.relpath(dest, wt), "suite_cmd": "cargo test --workspace --no-fail-fast --offline"}
    json.dump(res, open(os.path.join(vdir, "confirmed.json"), "w"), indent=1)
    ok = res.get("demo_passes_without_change") and res.get("demo_fails_with_change") and res.get("suite_passes_with_change")
    print(os.path.basename(os.path.dirname(vdir)), os.path.basename(vdir), "CONFIRMED" if ok else f"NOT CONFIRMED {res}")
    return 0 if ok else 1


if __name__ == "__main__":
    sys.exit(main())
