#!/usr/bin/env python3
"""Run every registered check against a scratch copy of /repo with one patch applied and print which rules fire.

usage: eval_seed.py <patch.diff> [Cxx ...]      (default: all 20 properties)
The scratch copy lives under /tmp and is removed afterwards; /repo is not touched.
"""
import json
import os
import shutil
import subprocess
import sys
import tempfile

HERE = os.path.dirname(os.path.dirname(os.path.abspath(__file__)))
sys.path.insert(0, HERE)
import selftest  # noqa: E402


def main():
    patch = os.path.abspath(sys.argv[1])
    props = sys.argv[2:] or [f"C{i:02d}" for i in range(1, 21)]
    d = selftest.make_scratch(patch, "seed")
    evd = tempfile.mkdtemp(prefix="anstyle-seed-ev-")
    fired = {}
    try:
        env = dict(os.environ, VERIF_REPO=d, VERIF_EVIDENCE_DIR=evd)
        for p in props:
            r = subprocess.run([os.path.join(HERE, "check"), p], cwd=HERE, env=env, capture_output=True, text=True)
            keys = [l.strip()[len("violation "):] for l in r.stdout.splitlines() if l.strip().startswith("violation ")]
            if r.returncode == 2:
                print(f"{p}: ANALYSIS ERROR\n{r.stderr[-1500:]}")
                fired[p] = ["<analysis error>"]
            elif r.returncode == 1:
                fired[p] = keys
                print(f"{p}: VIOLATION")
                for k in keys[:8]:
                    print(f"     {k}")
                if os.environ.get("VERBOSE"):
                    print("\n".join(l for l in r.stdout.splitlines() if not l.startswith("KNOWN-FINDING")))
            else:
                pass
    finally:
        shutil.rmtree(d, ignore_errors=True)
        shutil.rmtree(evd, ignore_errors=True)
    print(json.dumps({"fired": {k: v[:6] for k, v in fired.items()}}))
    return 0


if __name__ == "__main__":
    sys.exit(main())
