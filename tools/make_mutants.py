#!/usr/bin/env python3
"""Generate the hand-written self-test mutants (selftest/m-*.patch) from (file, old, new) edits against /repo's HEAD.

Each mutant is a small edit that is meant to compile and to pass the pinned test suite while breaking one property;
`tools/verify_mutants.py` confirms that, `./check selftest` confirms that the named rule fires.
"""
import difflib
import json
import os
import sys

REPO = "/repo"
OUT = "/verif/selftest"

M = []


def m(name, expect, edits, note=""):
    M.append({"name": name, "expect": expect, "edits": edits, "note": note})


P = "crates/anstyle-parse/src/"
A = "crates/anstream/src/"
S = "crates/anstyle/src/"

# ---- C01 / C02 / C20: table, predicate -------------------------------------------------------
m("m-c01-ws-to-control", {"C01": "C01|keep|"},
  [(A + "adapter/strip.rs", "|| (action == Action::Execute && byte.is_ascii_whitespace())", "|| (action == Action::Execute && byte.is_ascii_control())")],
  "keeps every executed C0 control, not only whitespace")
m("m-c01-keep-del", {"C01": "C01|keep|"},
  [(A + "adapter/strip.rs", "(action == Action::Print && byte != DEL)", "(action == Action::Print)")], "DEL is kept")
m("m-c01-s4-skip-drops-printable", {"C01": "C01|S4|"},
  [(A + "adapter/strip.rs", """        if next_state != State::Anywhere {
            *state = next_state;
        }
        is_printable_bytes(action, b)
    });
    let (_, next) = bytes.split_at(offset.unwrap_or(bytes.len()));
    *bytes = next;
    if *state == State::Utf8 {""", """        if next_state != State::Anywhere {
            *state = next_state;
        }
        is_printable_bytes(action, b) && b != b'\\t'
    });
    let (_, next) = bytes.split_at(offset.unwrap_or(bytes.len()));
    *bytes = next;
    if *state == State::Utf8 {""")], "the str skip phase moves past TAB")
m("m-c01-s5-cut-one-early", {"C01": "C01|S5|"},
  [(A + "adapter/strip.rs", """    let (printable, next) = bytes.split_at(offset.unwrap_or(bytes.len()));
    *bytes = next;
    if printable.is_empty() {
        None
    } else {
        Some(printable)
    }""", """    let (printable, next) = bytes.split_at(offset.unwrap_or(bytes.len().saturating_sub(0)));
    *bytes = next;
    if printable.is_empty() {
        None
    } else {
        Some(&printable[..])
    }""")], "next_bytes re-slices the yielded piece / changes the cut expression")
m("m-c02-swap-exit-entry", {"C02": "C02|order|"},
  [(P + "lib.rs", """                match self.state {
                    State::DcsPassthrough => {
                        self.perform_action(performer, Action::Unhook, byte);
                    }
                    State::OscString => {
                        self.perform_action(performer, Action::OscEnd, byte);
                    }
                    _ => (),
                }

                match action {
                    Action::Nop => (),
                    action => {
                        self.perform_action(performer, action, byte);
                    }
                }
""", """                match action {
                    Action::Nop => (),
                    action => {
                        self.perform_action(performer, action, byte);
                    }
                }

                match self.state {
                    State::DcsPassthrough => {
                        self.perform_action(performer, Action::Unhook, byte);
                    }
                    State::OscString => {
                        self.perform_action(performer, Action::OscEnd, byte);
                    }
                    _ => (),
                }
""")], "transition action before the exit action")
m("m-c02-clear-forgets-param", {"C02": "C02|reset|"},
  [(P + "lib.rs", """                self.ignoring = false;
                self.param = 0;
""", """                self.ignoring = false;
""")], "Clear does not reset the pending parameter")
m("m-c02-extend-unguarded", {"C02": "C02|guards|", "C04": "C04|"},
  [(P + "lib.rs", """            Action::Param => {
                if self.params.is_full() {
                    self.ignoring = true;
                    return;
                }

                if byte == b';' {""", """            Action::Param => {
                if self.params.is_full() && byte != b':' {
                    self.ignoring = true;
                    return;
                }

                if byte == b';' {""")], "':' reaches Params::extend on a full list")
m("m-c02-max-osc-params-17", {"C02": "C02|limits|"},
  [(P + "lib.rs", "const MAX_OSC_PARAMS: usize = 16;", "const MAX_OSC_PARAMS: usize = 17;")])
m("m-c02-wrapping-mul", {"C02": "C02|limits|"},
  [(P + "lib.rs", "self.param = self.param.saturating_mul(10);", "self.param = self.param.wrapping_mul(10);")])
m("m-c02-osc-bell-flag", {"C02": "C02|osc|"},
  [(P + "lib.rs", "performer.osc_dispatch(&*params, byte == 0x07);", "performer.osc_dispatch(&*params, byte != 0x1b);")])
m("m-c02-hook-wrong-args", {"C02": "C02|action-map|"},
  [(P + "lib.rs", "performer.hook(self.params(), self.intermediates(), self.ignoring, byte);", "performer.hook(self.params(), self.intermediates(), false, byte);")])
m("m-c04-intermediate-guard-off-by-one", {"C02": "C02|guards|", "C04": "C04|"},
  [(P + "lib.rs", "if self.intermediate_idx == MAX_INTERMEDIATES {", "if self.intermediate_idx > MAX_INTERMEDIATES {")],
  "third intermediate indexes out of bounds")
m("m-c20-core-guard-after-push", {"C20": "C20|"},
  [(P + "lib.rs", """                #[cfg(feature = "core")]
                {
                    if self.osc_raw.is_full() {
                        return;
                    }
                }

                let idx = self.osc_raw.len();""", """                let idx = self.osc_raw.len();

                #[cfg(feature = "core")]
                {
                    if idx > MAX_OSC_RAW {
                        return;
                    }
                }""")], "fixed buffer guard weakened: ArrayVec::push can overflow")
m("m-c20-cfg-statement-in-param", {"C20": "C20|diff-bodies|"},
  [(P + "lib.rs", """                if byte == b';' {
                    self.params.push(self.param);
                    self.param = 0;
                } else if byte == b':' {""", """                if byte == b';' {
                    self.params.push(self.param);
                    #[cfg(not(feature = "core"))]
                    {
                        self.param = 0;
                    }
                    #[cfg(feature = "core")]
                    {
                        self.param = self.param % 10;
                    }
                } else if byte == b':' {""")], "feature-conditional behaviour outside the documented limits")

# ---- C03 / C06 / C07 --------------------------------------------------------------------------
m("m-c03-strip-next-copies-state", {"C03": "C03|"},
  [(A + "adapter/wincon.rs", """    fn reset(&mut self) {
        self.ready = None;
    }""", """    fn reset(&mut self) {
        self.ready = None;
        if self.printable.capacity() > 4096 {
            self.style = anstyle::Style::new();
        }
    }""")], "per-call reset clobbers the style in effect under a rare condition")
m("m-c06-adapter-drops-error", {"C06": "C06|W4|"},
  [(A + "fmt.rs", """            Err(e) => {
                self.error = Err(e);
                Err(std::fmt::Error)
            }""", """            Err(_e) => {
                Err(std::fmt::Error)
            }""")], "io::Error discarded at the fmt::Write boundary")
m("m-c06-short-count-is-written", {"C06": "C06|W3|"},
  [(A + "strip.rs", """            *state = initial_state;
            state.strip_next(consumed).last();
            return Ok(offset);""", """            *state = initial_state;
            state.strip_next(consumed).last();
            return Ok(offset.max(written));""")], "returned count no longer the buffer offset")
m("m-c07-code3-dimmed", {"C07": "C07|codes|"},
  [(A + "adapter/wincon.rs", """                    (State::Normal, 3) => {
                        style = style.italic();""", """                    (State::Normal, 3) => {
                        style = style.dimmed();""")])
m("m-c07-bg-sets-fg", {"C07": "C07|codes|"},
  [(A + "adapter/wincon.rs", """                    (State::Normal, 40..=47) => {
                        let color = to_ansi_color(value - 40).expect("within 4-bit range");
                        style = style.bg_color(Some(color.into()));""", """                    (State::Normal, 40..=47) => {
                        let color = to_ansi_color(value - 40).expect("within 4-bit range");
                        style = style.fg_color(Some(color.into()));""")])
m("m-c07-rgb-order", {"C07": "C07|codes|"},
  [(A + "adapter/wincon.rs", "let color = anstyle::RgbColor(r as u8, g as u8, b as u8);", "let color = anstyle::RgbColor(r as u8, b as u8, g as u8);")])
m("m-c07-emit-new-style", {"C07": "C07|emit|"},
  [(A + "adapter/wincon.rs", "self.ready = Some(self.style);", "self.ready = Some(style);")], "run emitted with the new style instead of the old")
m("m-c04-range-pattern-widened", {"C07": "C07|codes|", "C04": "C04|"},
  [(A + "adapter/wincon.rs", "(State::Normal, 30..=37) => {", "(State::Normal, 30..=38) => {")], "to_ansi_color(8).expect panics for ESC[38m")

# ---- C05 / C13 --------------------------------------------------------------------------------
m("m-c05-metadata-escape", {"C05": "C05|effects|"},
  [(S + "effect.rs", 'name: "DOUBLE_UNDERLINE",\n        escape: escape!("21"),', 'name: "DOUBLE_UNDERLINE",\n        escape: escape!("22"),')])
m("m-c05-bg-brightred", {"C05": "C05|ansi|"},
  [(S + "color.rs", 'Self::BrightRed => escape!("10", "1"),', 'Self::BrightRed => escape!("10", "2"),')])
m("m-c05-swap-mode", {"C05": "C05|templates|"},
  [(S + "color.rs", """    fn as_underline_buffer(&self) -> DisplayBuffer {
        DisplayBuffer::default()
            .write_str("\\x1B[58;5;")""", """    fn as_underline_buffer(&self) -> DisplayBuffer {
        DisplayBuffer::default()
            .write_str("\\x1B[58;2;")""")])
m("m-c05-write_to-order", {"C05": "C05|order|"},
  [(S + "style.rs", """        self.effects.write_to(write)?;

        if let Some(fg) = self.fg {
            fg.write_fg_to(write)?;
        }

        if let Some(bg) = self.bg {
            bg.write_bg_to(write)?;
        }
""", """        self.effects.write_to(write)?;

        if let Some(bg) = self.bg {
            bg.write_bg_to(write)?;
        }

        if let Some(fg) = self.fg {
            fg.write_fg_to(write)?;
        }
""")], "io::Write path emits bg before fg (Display path unchanged)")
m("m-c05-write-code-drops-zero", {"C05": "C05|digits|"},
  [(S + "color.rs", "if c2 != 0 || printed {", "if c2 != 0 {")], "105 renders as 15")
m("m-c13-remove-xor", {"C13": "C13|bitwise|"},
  [(S + "effect.rs", "self.0 &= !other.0;", "self.0 ^= other.0;")])
m("m-c13-bg-stores-fg", {"C13": "C13|wiring|"},
  [(S + "style.rs", """    pub const fn bg_color(mut self, bg: Option<crate::Color>) -> Self {
        self.bg = bg;""", """    pub const fn bg_color(mut self, bg: Option<crate::Color>) -> Self {
        self.fg = bg;""")])
m("m-c13-hidden-inserts-invert", {"C13": "C13|wiring|"},
  [(S + "style.rs", "self.effects = self.effects.insert(crate::Effects::HIDDEN);", "self.effects = self.effects.insert(crate::Effects::INVERT);")])
m("m-c13-from-ansi-cyan", {"C13": "C13|colour-tables|"},
  [(S + "color.rs", "AnsiColor::Cyan => Self(6),", "AnsiColor::Cyan => Self(5),")])
m("m-c13-iter-bound", {"C13": "C13|iterators|"},
  [(S + "effect.rs", """impl Iterator for EffectIter {
    type Item = Effects;

    fn next(&mut self) -> Option<Self::Item> {
        while self.index < METADATA.len() {""", """impl Iterator for EffectIter {
    type Item = Effects;

    fn next(&mut self) -> Option<Self::Item> {
        while self.index < METADATA.len() - 1 {""")], "public iterator never yields STRIKETHROUGH")

# ---- C08 / C09 / C19 --------------------------------------------------------------------------
m("m-c08-strip-write_all-via-write", {"C08": "C08|forward|"},
  [(A + "auto.rs", "StreamInner::Strip(w) => w.write_all(buf),", "StreamInner::Strip(w) => w.write(buf).map(|_| ()),")],
  "short inner writes lose data")
m("m-c08-never-passthrough", {"C08": "C08|ctor|"},
  [(A + "auto.rs", "let inner = StreamInner::Strip(StripStream::new(raw));", "let inner = StreamInner::PassThrough(StripStream::new(raw).into_inner());")])
m("m-c08-current-choice-swapped", {"C08": "C08|tables|"},
  [(A + "auto.rs", "StreamInner::PassThrough(_) => ColorChoice::AlwaysAnsi,\n            StreamInner::Strip(_) => ColorChoice::Never,",
    "StreamInner::PassThrough(_) => ColorChoice::Never,\n            StreamInner::Strip(_) => ColorChoice::AlwaysAnsi,")])
m("m-c09-swap-nocolor-force", {"C09": "C09|chain|"},
  [(A + "auto.rs", """            if anstyle_query::no_color() {
                ColorChoice::Never
            } else if anstyle_query::clicolor_force() {
                ColorChoice::Always
            }""", """            if anstyle_query::clicolor_force() {
                ColorChoice::Always
            } else if anstyle_query::no_color() {
                ColorChoice::Never
            }""")])
m("m-c09-nocolor-name", {"C09": "C09|probes|"},
  [("crates/anstyle-query/src/lib.rs", 'non_empty(std::env::var_os("NO_COLOR").as_deref())', 'non_empty(std::env::var_os("NOCOLOR").as_deref())')])
m("m-c09-clicolor-polarity", {"C09": "C09|probes|"},
  [("crates/anstyle-query/src/lib.rs", 'Some(value != "0")', 'Some(value == "0")')])
m("m-c09-vec-is-terminal", {"C09": "C09|tty|"},
  [(A + "stream.rs", """impl IsTerminal for Vec<u8> {
    #[inline]
    fn is_terminal(&self) -> bool {
        false""", """impl IsTerminal for Vec<u8> {
    #[inline]
    fn is_terminal(&self) -> bool {
        self.capacity() > 1 << 20""")])
m("m-c19-drop-write_all-override", {"C19": "C19|overrides|"},
  [(A + "strip.rs", """    #[inline]
    fn write_all(&mut self, buf: &[u8]) -> std::io::Result<()> {
        write_all(&mut self.raw.as_locked_write(), &mut self.state, buf)
    }
""", "")], "defaulted write_all loops over write, locking once per chunk")
m("m-c19-lock-per-piece", {"C19": "C19|one-lock|"},
  [(A + "strip.rs", """    fn write_all(&mut self, buf: &[u8]) -> std::io::Result<()> {
        write_all(&mut self.raw.as_locked_write(), &mut self.state, buf)
    }""", """    fn write_all(&mut self, buf: &[u8]) -> std::io::Result<()> {
        for chunk in buf.chunks(4096) {
            write_all(&mut self.raw.as_locked_write(), &mut self.state, chunk)?;
        }
        Ok(())
    }""")], "lock re-acquired per 4 KiB chunk: interleaving only for large prints")
m("m-c19-atomic-two-step", {"C19": "C19|atomic|"},
  [("crates/colorchoice/src/lib.rs", """        let choice = Self::from_choice(choice);
        self.0.store(choice, Ordering::SeqCst);""", """        let choice = Self::from_choice(choice);
        let old = self.0.load(Ordering::SeqCst);
        self.0.store(choice | (old & 0), Ordering::SeqCst);""")])

# ---- C10 / C11 / C12 --------------------------------------------------------------------------
m("m-c10-le-in-find_match", {"C10": "C10|scan|"},
  [("crates/anstyle-lossy/src/palette.rs", "if distance < best_distance {", "if distance <= best_distance {")], "ties go to the highest index")
m("m-c10-xterm-start-0", {"C10": "C10|scan|"},
  [("crates/anstyle-lossy/src/lib.rs", "let mut best_index = 16;", "let mut best_index = 0;")], "placeholder rows become candidates")
m("m-c10-xterm-cell", {"C10": "C10|tables|"},
  [("crates/anstyle-lossy/src/lib.rs", "    Rgb(0, 95, 135),\n", "    Rgb(0, 95, 136),\n")])
m("m-c10-xterm_to_ansi-row9", {"C10": "C10|tables|"},
  [("crates/anstyle-lossy/src/lib.rs", "9 => anstyle::AnsiColor::BrightRed,", "9 => anstyle::AnsiColor::Red,")])
m("m-c11-noblink-inserts", {"C11": "C11|keywords|"},
  [("crates/anstyle-git/src/lib.rs", """            "noblink" | "no-blink" => {
                effects = effects.remove(anstyle::Effects::BLINK);""", """            "noblink" | "no-blink" => {
                effects = effects.insert(anstyle::Effects::BLINK);""")])
m("m-c11-no-italic-removes-bold", {"C11": "C11|keywords|"},
  [("crates/anstyle-git/src/lib.rs", """            "noitalic" | "no-italic" => {
                effects = effects.remove(anstyle::Effects::ITALIC);""", """            "noitalic" | "no-italic" => {
                effects = effects.remove(anstyle::Effects::BOLD);""")])
m("m-c11-error-lowercased-word", {"C11": "C11|slots|"},
  [("crates/anstyle-git/src/lib.rs", """                    return Err(Error::UnknownWord {
                        style: s.to_owned(),
                        word: word.to_owned(),""", """                    return Err(Error::UnknownWord {
                        style: s.to_owned(),
                        word: w.to_owned(),""")], "error names the lower-cased word, not the original")
m("m-c12-95-brightcyan", {"C12": "C12|codes|"},
  [("crates/anstyle-ls/src/lib.rs", "95 => fg_color = Some(anstyle::AnsiColor::BrightMagenta.into()),", "95 => fg_color = Some(anstyle::AnsiColor::BrightCyan.into()),")])
m("m-c12-27-removes-hidden", {"C12": "C12|codes|"},
  [("crates/anstyle-ls/src/lib.rs", """            27 => {
                effects = effects.remove(anstyle::Effects::INVERT);""", """            27 => {
                effects = effects.remove(anstyle::Effects::HIDDEN);""")])
m("m-c12-rgb-order-58", {"C12": "C12|extended|"},
  [("crates/anstyle-ls/src/lib.rs", "underline_color = Some(anstyle::RgbColor(red, green, blue).into());", "underline_color = Some(anstyle::RgbColor(red, blue, green).into());")])

# ---- C14 / C15 / C16 / C17 / C18 --------------------------------------------------------------
m("m-c14-fg-span-unescaped", {"C14": "C14|taint|"},
  [("crates/anstyle-svg/src/lib.rs", """    let fragment = html_escape::encode_text(fragment);
    let mut classes = Vec::new();
    if let Some(class) = fg_color.as_deref() {""", """    let fragment = if fragment.len() > 4096 { std::borrow::Cow::Borrowed(fragment) } else { html_escape::encode_text(fragment) };
    let mut classes = Vec::new();
    if let Some(class) = fg_color.as_deref() {""")], "very long fragments are written unescaped")
m("m-c14-underline-uses-fg-prefix", {"C14": "C14|pairing|"},
  [("crates/anstyle-svg/src/lib.rs", """        .get_underline_color()
        .map(|c| color_name(UNDERLINE_PREFIX, c));""", """        .get_underline_color()
        .map(|c| color_name(FG_PREFIX, c));""")])
m("m-c14-bold-rule-under-italic", {"C14": "C14|classes|"},
  [("crates/anstyle-svg/src/lib.rs", """        if effects_in_use.contains(anstyle::Effects::BOLD) {
            writeln!(&mut buffer, r#"    .bold {{ font-weight: bold; }}"#).unwrap();""", """        if effects_in_use.contains(anstyle::Effects::ITALIC) {
            writeln!(&mut buffer, r#"    .bold {{ font-weight: bold; }}"#).unwrap();""")])
m("m-c14-unbalanced-tspan", {"C14": "C14|balance|"},
  [("crates/anstyle-svg/src/lib.rs", """                // HACK: must close tspan on newline to include them in copy/paste
                writeln!(&mut buffer).unwrap();
                writeln!(&mut buffer, r#"</tspan>"#).unwrap();
            }
""", """                // HACK: must close tspan on newline to include them in copy/paste
                writeln!(&mut buffer).unwrap();
                if text_y > 0 {
                    writeln!(&mut buffer, r#"</tspan>"#).unwrap();
                }
            }
""")], "background layer's closing tag becomes conditional")
m("m-c15-swap-gcolor-fcolor", {"C15": "C15|colours|"},
  [("crates/anstyle-roff/src/lib.rs", """    add_color_to_roff(doc, control_requests::FOREGROUND, colors.0);
    add_color_to_roff(doc, control_requests::BACKGROUND, colors.1);""", """    add_color_to_roff(doc, control_requests::FOREGROUND, colors.1);
    add_color_to_roff(doc, control_requests::BACKGROUND, colors.0);""")])
m("m-c15-italic-before-bold", {"C15": "C15|font|"},
  [("crates/anstyle-roff/src/lib.rs", """    if effects.contains(anstyle::Effects::BOLD) | has_bright_fg(&styled.style) {
        doc.text(vec![bold(styled.text)]);
    } else if effects.contains(anstyle::Effects::ITALIC) {
        doc.text(vec![italic(styled.text)]);
    }""", """    if effects.contains(anstyle::Effects::ITALIC) {
        doc.text(vec![italic(styled.text)]);
    } else if effects.contains(anstyle::Effects::BOLD) | has_bright_fg(&styled.style) {
        doc.text(vec![bold(styled.text)]);
    }""")])
m("m-c15-brightgreen-green", {"C15": "C15|tables|"},
  [("crates/anstyle-roff/src/styled_str.rs", "Some(Color::BrightGreen) => Some(AColor::Ansi(AnsiColor::BrightGreen)),", "Some(Color::BrightGreen) => Some(AColor::Ansi(AnsiColor::Green)),")])
m("m-c15-text-through-control", {"C15": "C15|taint|"},
  [("crates/anstyle-roff/src/lib.rs", """    } else {
        doc.text(vec![roff::roman(styled.text)]);
    }""", """    } else if styled.text.starts_with("\\u{1}") {
        doc.control("nop", vec![styled.text]);
    } else {
        doc.text(vec![roff::roman(styled.text)]);
    }""")], "text reaches Roff::control for a rare prefix")
m("m-c16-owo-invert-hidden", {"C16": "C16|effect-table|"},
  [("crates/anstyle-owo-colors/src/lib.rs", """    if effects.contains(anstyle::Effects::INVERT) {
        style = style.reversed();""", """    if effects.contains(anstyle::Effects::INVERT) {
        style = style.hidden();""")])
m("m-c16-yansi-fg-bg-swapped", {"C16": "C16|slots|"},
  [("crates/anstyle-yansi/src/lib.rs", "let mut style = yansi::Style::new().fg(fg).bg(bg);", "let mut style = yansi::Style::new().fg(bg).bg(fg);")])
m("m-c16-crossterm-rgb-order", {"C16": "C16|passthrough|"},
  [("crates/anstyle-crossterm/src/lib.rs", """        r: color.0,
        g: color.1,
        b: color.2,""", """        r: color.0,
        g: color.2,
        b: color.1,""")])
m("m-c17-reset-before-data", {"C17": "C17|order|"},
  [("crates/anstyle-wincon/src/ansi.rs", """    let written = stream.write(data)?;
    if non_default {
        write!(stream, "{}", anstyle::Reset.render())?;
    }
    Ok(written)""", """    if non_default {
        write!(stream, "{}", anstyle::Reset.render())?;
    }
    let written = stream.write(data)?;
    Ok(written)""")])
m("m-c17-returns-len", {"C17": "C17|order|"},
  [("crates/anstyle-wincon/src/ansi.rs", "    Ok(written)", "    let _ = written;\n    Ok(data.len())")])
m("m-c17-fg-rendered-as-bg", {"C17": "C17|order|"},
  [("crates/anstyle-wincon/src/ansi.rs", 'write!(stream, "{}", fg.render_fg())?;', 'write!(stream, "{}", fg.render_bg())?;')])
m("m-c17-impl-swaps-args", {"C17": "C17|impls|"},
  [("crates/anstyle-wincon/src/stream.rs", """impl WinconStream for std::fs::File {
    fn write_colored(
        &mut self,
        fg: Option<anstyle::AnsiColor>,
        bg: Option<anstyle::AnsiColor>,
        data: &[u8],
    ) -> std::io::Result<usize> {
        crate::ansi::write_colored(self, fg, bg, data)""", """impl WinconStream for std::fs::File {
    fn write_colored(
        &mut self,
        fg: Option<anstyle::AnsiColor>,
        bg: Option<anstyle::AnsiColor>,
        data: &[u8],
    ) -> std::io::Result<usize> {
        crate::ansi::write_colored(self, bg, fg, data)""")])
m("m-c18-cap-rgb-white", {"C18": "C18|cap-table|"},
  [(A + "wincon.rs", "anstyle::Color::Rgb(_) => None,", "anstyle::Color::Rgb(_) => Some(anstyle::AnsiColor::White),")])
m("m-c18-bg-from-fg", {"C18": "C18|wiring|"},
  [(A + "wincon.rs", """        let mut buf = printable.as_bytes();
        let fg = style.get_fg_color().and_then(cap_wincon_color);
        let bg = style.get_bg_color().and_then(cap_wincon_color);""", """        let mut buf = printable.as_bytes();
        let fg = style.get_fg_color().and_then(cap_wincon_color);
        let bg = style.get_fg_color().and_then(cap_wincon_color);""")])

# ---- C04 --------------------------------------------------------------------------------------
m("m-c04-new-unsafe", {"C04": "C04|unsafe|"},
  [("crates/anstyle-ls/src/lib.rs", """    if code.is_empty() || code == "0" || code == "00" {
        return None;
    }
""", """    if code.is_empty() || code == "0" || code == "00" {
        return None;
    }
    #[allow(unsafe_code)]
    let code = unsafe { std::str::from_utf8_unchecked(code.as_bytes()) };
""")], "an unaudited unsafe block")
m("m-c04-lossy-palette-index", {"C04": "C04|panic-site|"},
  [("crates/anstyle-lossy/src/palette.rs", """        let index = index as usize;
        if index < self.0.len() {
            Some(self.0[index])""", """        let index = index as usize;
        if index <= self.0.len() {
            Some(self.0[index])""")], "rgb_from_index(16) indexes out of bounds")


# ---- alternatives for mutants that the repository's own suite kills (these survive the suite) --------------------
m("m-c01-keep-dcs-whitespace", {"C01": "C01|keep|"},
  [(A + "adapter/strip.rs", "|| (action == Action::Execute && byte.is_ascii_whitespace())",
    "|| ((action == Action::Execute || action == Action::Put) && byte.is_ascii_whitespace())")], "whitespace inside a DCS string is kept")
m("m-c01-keep-c1-ind", {"C01": "C01|keep|", "C04": "C04|utf8|"},
  [(A + "adapter/strip.rs", "|| (action == Action::Execute && byte.is_ascii_whitespace())",
    "|| (action == Action::Execute && (byte.is_ascii_whitespace() || byte == 0x84))")], "C1 IND (0x84, also a continuation byte) is kept")
m("m-c02-oscstart-keeps-count", {"C02": "C02|reset|"},
  [(P + "lib.rs", """                self.osc_raw.clear();
                self.osc_num_params = 0;""", """                self.osc_raw.clear();""")], "second OSC on the same parser starts with stale parameter count")
m("m-c02-esc-ignore-false", {"C02": "C02|action-map|"},
  [(P + "lib.rs", "performer.esc_dispatch(self.intermediates(), self.ignoring, byte);", "performer.esc_dispatch(self.intermediates(), false, byte);")])
m("m-c04-range-pattern-90-98", {"C07": "C07|codes|", "C04": "C04|panic-site|"},
  [(A + "adapter/wincon.rs", "(State::Normal, 90..=97) => {", "(State::Normal, 90..=98) => {")], "to_ansi_color(8).expect panics for ESC[98m")
m("m-c07-underline-4-4-dashed", {"C07": "C07|codes|"},
  [(A + "adapter/wincon.rs", """                    (State::Underline, 4) => {
                        style = style
                            .effects(style.get_effects().remove(anstyle::Effects::UNDERLINE))
                            | anstyle::Effects::DOTTED_UNDERLINE;""", """                    (State::Underline, 4) => {
                        style = style
                            .effects(style.get_effects().remove(anstyle::Effects::UNDERLINE))
                            | anstyle::Effects::DASHED_UNDERLINE;""")])
m("m-c07-58-targets-bg", {"C07": "C07|codes|"},
  [(A + "adapter/wincon.rs", """                    (State::Normal, 58) => {
                        color_target = ColorTarget::Underline;""", """                    (State::Normal, 58) => {
                        color_target = ColorTarget::Bg;""")])
m("m-c13-contains-any", {"C13": "C13|bitwise|"},
  [(S + "effect.rs", "(other.0 & self.0) == other.0", "(other.0 & self.0) != 0 || other.0 == 0")], "contains() of a multi-effect set holds if ANY member is present")
m("m-c13-blink-inserts-invert", {"C13": "C13|wiring|"},
  [(S + "style.rs", "self.effects = self.effects.insert(crate::Effects::BLINK);", "self.effects = self.effects.insert(crate::Effects::INVERT);")])
m("m-c13-into-ansi-5-6-swapped", {"C13": "C13|colour-tables|"},
  [(S + "color.rs", "5 => Some(AnsiColor::Magenta),\n            6 => Some(AnsiColor::Cyan),", "5 => Some(AnsiColor::Cyan),\n            6 => Some(AnsiColor::Magenta),")])
m("m-c15-rgb-request-before-defcolor", {"C15": "C15|colours|"},
  [("crates/anstyle-roff/src/lib.rs", """            doc.control(
                control_requests::CREATE_COLOR,
                vec![name.as_str(), "rgb", to_hex(c).as_str()],
            )
            .control(control_request, vec![name.as_str()]);""", """            doc.control(control_request, vec![name.as_str()]).control(
                control_requests::CREATE_COLOR,
                vec![name.as_str(), "rgb", to_hex(c).as_str()],
            );""")], "colour used before it is defined (RGB path, never produced by cansi today)")
m("m-c14-hidden-class-typo", {"C14": "C14|classes|"},
  [("crates/anstyle-svg/src/lib.rs", """    if hidden {
        classes.push("hidden");""", """    if hidden {
        classes.push("hide");""")], "span class without a sheet rule")
m("m-c10-xterm_to_ansi-row15", {"C10": "C10|tables|"},
  [("crates/anstyle-lossy/src/lib.rs", "15 => anstyle::AnsiColor::BrightWhite,", "15 => anstyle::AnsiColor::White,")])


def main():
    os.makedirs(OUT, exist_ok=True)
    index_path = os.path.join(OUT, "index.json")
    idx = json.load(open(index_path)) if os.path.exists(index_path) else []
    idx = [e for e in idx if not e["name"].startswith("m-")]
    bad = 0
    for mu in M:
        diffs = []
        ok = True
        by_file = {}
        for (f, old, new) in mu["edits"]:
            by_file.setdefault(f, []).append((old, new))
        for f, reps in by_file.items():
            src = open(os.path.join(REPO, f)).read()
            dst = src
            for old, new in reps:
                if dst.count(old) != 1:
                    print(f"!! {mu['name']}: pattern occurs {dst.count(old)} times in {f}: {old[:60]!r}")
                    ok = False
                    continue
                dst = dst.replace(old, new)
            d = difflib.unified_diff(src.splitlines(True), dst.splitlines(True), "a/" + f, "b/" + f)
            diffs.append("".join(d))
        if not ok:
            bad += 1
            continue
        with open(os.path.join(OUT, mu["name"] + ".patch"), "w") as fh:
            fh.write("".join(diffs))
        idx.append({"name": mu["name"], "patch": f"selftest/{mu['name']}.patch", "expect": mu["expect"], "note": mu["note"]})
    json.dump(idx, open(index_path, "w"), indent=1)
    print(f"{len(M) - bad} mutants written, {bad} failed to generate")
    return 1 if bad else 0


if __name__ == "__main__":
    sys.exit(main())
