#!/usr/bin/env python3
"""Regenerate benign/STATUS.md from a full regression result (tools/regress.py --cross writes tools/regress_last.json;
pass another file as the first argument)."""
import json
import os
import sys

HERE = os.path.dirname(os.path.dirname(os.path.abspath(__file__)))
src = sys.argv[1] if len(sys.argv) > 1 else os.path.join(HERE, "tools", "regress_last.json")
rows = [r for r in json.load(open(src)) if r.get("kind") == "silent" and r["name"].startswith("benign/")]
rows.sort(key=lambda r: r["name"])
out = ["# Behaviour-preserving refactors: status with the current rules (tools/regress.py)", "",
       "Rounds: A-C (round 1), D-F (round 2), G-H (round 3), I-J (round 4), K-L (round 5), M-N (round 6), O-P (round 7). Each directory holds the patch, the sub-agent's "
       "equivalence demonstration and meta.json.", "",
       f"{sum(1 for r in rows if r['ok'])} of {len(rows)} leave all 20 checks silent.", "", "| id | result | alarms |", "|---|---|---|"]
for r in rows:
    pid = r["name"].split("/", 1)[1].replace("/", "-")
    al = "; ".join(f"{p}: {ks[0].split('|', 1)[1] if '|' in ks[0] else ks[0]}" + (f" (+{len(ks) - 1})" if len(ks) > 1 else "") for p, ks in sorted(r.get("fired", {}).items()))
    out.append(f"| {pid} | {'silent' if r['ok'] else '**ALARM**'} | {al.replace('|', '/')[:300]} |")
open(os.path.join(HERE, "benign", "STATUS.md"), "w").write("\n".join(out) + "\n")
print(out[4])
