#!/usr/bin/env python3
"""Confirm that each self-test mutant still compiles and passes the repository's test suite (so that only the static
rules distinguish it from the unchanged tree).  Runs in scratch copies under /tmp with their own target directories, removed
afterwards.  Results are recorded in selftest/verified.json (name -> {"builds": bool, "tests_pass": bool}).

usage: verify_mutants.py [--jobs N] [name-substring ...]
"""
import json
import os
import shutil
import subprocess
import sys
import tempfile
from concurrent.futures import ThreadPoolExecutor

HERE = os.path.dirname(os.path.dirname(os.path.abspath(__file__)))
REPO = "/repo"


def sync(worker_dir):
    for name in ("Cargo.toml", "Cargo.lock", "README.md"):
        shutil.copy(os.path.join(REPO, name), os.path.join(worker_dir, name))
    # checksum compare and fresh mtimes: cargo decides freshness by mtime, so a restored file must look modified
    subprocess.run(["rsync", "-rlc", "--delete", "--exclude", "target", os.path.join(REPO, "crates") + "/", os.path.join(worker_dir, "crates") + "/"], check=True)


def run_one(m, wdir, target):
    sync(wdir)
    p = subprocess.run(["patch", "-p1", "--no-backup-if-mismatch", "-s", "-i", os.path.join(HERE, m["patch"])], cwd=wdir, capture_output=True, text=True)
    if p.returncode != 0:
        return m["name"], {"builds": False, "tests_pass": False, "error": "patch does not apply"}
    env = dict(os.environ, CARGO_TARGET_DIR=target, CARGO_NET_OFFLINE="true", CARGO_TERM_COLOR="never")
    t = subprocess.run(["cargo", "test", "--workspace", "--no-fail-fast", "--offline"], cwd=wdir, env=env, capture_output=True, text=True)
    out = t.stdout + t.stderr
    builds = "error: could not compile" not in out and "error[E" not in out
    failed = [l for l in out.splitlines() if l.startswith("test ") and l.rstrip().endswith("FAILED")]
    return m["name"], {"builds": builds, "tests_pass": builds and t.returncode == 0, "failed": failed[:5],
                       "tail": "" if (builds and t.returncode == 0) else out[-800:]}


def main():
    args = [a for a in sys.argv[1:] if not a.startswith("--")]
    jobs = 4
    if "--jobs" in sys.argv:
        jobs = int(sys.argv[sys.argv.index("--jobs") + 1])
        args = [a for a in args if a != str(jobs)]
    idx = json.load(open(os.path.join(HERE, "selftest", "index.json")))
    ms = [m for m in idx if not args or any(a in m["name"] for a in args)]
    vpath = os.path.join(HERE, "selftest", "verified.json")
    verified = json.load(open(vpath)) if os.path.exists(vpath) else {}
    root = tempfile.mkdtemp(prefix="anstyle-mutverify-")
    workers = []
    for i in range(jobs):
        w = os.path.join(root, f"w{i}")
        os.makedirs(os.path.join(w, "crates"))
        workers.append((w, os.path.join(root, f"target{i}")))
    try:
        def task(im):
            i, m = im
            w, t = workers[i % jobs]
            return run_one(m, w, t)
        # one mutant per worker at a time: chunk by worker
        chunks = [[(i, m) for j, m in enumerate(ms) if j % jobs == i] for i in range(jobs)]

        def run_chunk(chunk):
            out = []
            for im in chunk:
                r = task(im)
                print(f"  {r[0]:44s} builds={r[1]['builds']} tests_pass={r[1]['tests_pass']} {r[1].get('failed') or ''}", flush=True)
                out.append(r)
            return out
        with ThreadPoolExecutor(max_workers=jobs) as ex:
            for res in ex.map(run_chunk, chunks):
                for name, r in res:
                    verified[name] = r
        json.dump(verified, open(vpath, "w"), indent=1, sort_keys=True)
    finally:
        shutil.rmtree(root, ignore_errors=True)
    bad = [n for n in (m["name"] for m in ms) if not verified.get(n, {}).get("tests_pass")]
    print(f"{len(ms) - len(bad)}/{len(ms)} mutants build and pass the suite; not usable: {bad}")
    return 0


if __name__ == "__main__":
    sys.exit(main())
