//! Analysed together with /repo by the fact extractor (never executed).
//!
//! 1. Mounts `anstream/src/wincon.rs` (compiled only on Windows by the real build) and
//!    `anstream/src/fmt.rs` by `#[path]`, with shim `stream`/`adapter` modules, so that the
//!    legacy-console stream is type-checked on this host and visible to the rules of C18/C19.
//! 2. One function per print-family macro, so that the macro expansions are visible (C19).
//! 3. Positive examples for rules whose expected match count on /repo is zero.
#![allow(dead_code, unused_imports, unreachable_pub, missing_docs)]

pub(crate) mod adapter {
    pub(crate) use anstream::adapter::WinconBytes;
}

pub(crate) mod stream {
    pub trait IsTerminal {
        fn is_terminal(&self) -> bool;
    }
    pub trait AsLockedWrite {
        type Write<'w>: anstyle_wincon::WinconStream + std::io::Write + 'w
        where
            Self: 'w;
        fn as_locked_write(&mut self) -> Self::Write<'_>;
    }
}

#[path = "@REPO@/crates/anstream/src/fmt.rs"]
pub(crate) mod fmt;

#[path = "@REPO@/crates/anstream/src/wincon.rs"]
pub mod wincon;

pub mod macros {
    pub fn m_print(x: u32) {
        anstream::print!("value {}", x);
    }
    pub fn m_println(x: u32) {
        anstream::println!("value {}", x);
    }
    pub fn m_println_empty() {
        anstream::println!();
    }
    pub fn m_eprint(x: u32) {
        anstream::eprint!("value {}", x);
    }
    pub fn m_eprintln(x: u32) {
        anstream::eprintln!("value {}", x);
    }
    pub fn m_eprintln_empty() {
        anstream::eprintln!();
    }
    pub fn m_panic(x: u32) -> ! {
        anstream::panic!("value {}", x);
    }
}

/// Positive examples: each must be matched by the named zero-count rule on every run.
pub mod positive {
    use std::io::Write;

    /// C19 lock-in-loop: acquires the stdout lock once per iteration.
    pub fn lock_in_loop(out: &mut std::io::Stdout, chunks: &[&[u8]]) -> std::io::Result<()> {
        for c in chunks {
            let mut guard = out.lock();
            guard.write_all(c)?;
        }
        Ok(())
    }

    /// C04 unguarded-index: indexes a slice with an unchecked parameter.
    pub fn unguarded_index(v: &[u8], i: usize) -> u8 {
        v[i]
    }

    /// C04 untrusted-str-slice: byte-range slicing of a caller-supplied str without a guard.
    pub fn unguarded_str_slice(s: &str) -> &str {
        &s[0..1]
    }

    /// C04 unsafe inventory: an unaudited unsafe block.
    pub fn unaudited_unsafe(p: *const u8) -> u8 {
        unsafe { *p }
    }

    /// C05 no-padding: a Display impl that forwards to `str`'s Display (which honours width).
    pub struct Pads(pub &'static str);
    impl std::fmt::Display for Pads {
        fn fmt(&self, f: &mut std::fmt::Formatter<'_>) -> std::fmt::Result {
            std::fmt::Display::fmt(self.0, f)
        }
    }

    /// C19 atomic: read-modify-write in two steps on an atomic.
    pub fn two_step(a: &std::sync::atomic::AtomicUsize) {
        let v = a.load(std::sync::atomic::Ordering::SeqCst);
        a.store(v + 1, std::sync::atomic::Ordering::SeqCst);
    }
}
