"""CFG utilities over the exported MIR: successors, dominators, reachability, operand/place helpers."""


class Cfg:
    def __init__(self, mir):
        self.mir = mir
        self.blocks = mir["blocks"]
        self.n = len(self.blocks)
        self.succ = [self._succ(b["term"]) for b in self.blocks]
        self.pred = [[] for _ in range(self.n)]
        for i, ss in enumerate(self.succ):
            for s in ss:
                self.pred[s].append(i)
        self._dom = None

    @staticmethod
    def _succ(t, include_unwind=False):
        k = t["k"]
        out = []
        if k == "goto":
            out = [t["t"]]
        elif k == "switch":
            out = [x[1] for x in t["targets"]] + [t["otherwise"]]
        elif k in ("drop", "assert"):
            out = [t["t"]]
        elif k == "call":
            if "t" in t:
                out = [t["t"]]
        # unwind edges are not followed: panics are a separate concern (C04)
        res = []
        for s in out:
            if s not in res:
                res.append(s)
        return res

    def reachable(self, start=0):
        seen = {start}
        st = [start]
        while st:
            b = st.pop()
            for s in self.succ[b]:
                if s not in seen:
                    seen.add(s)
                    st.append(s)
        return seen

    def reachable_from(self, starts, avoid=()):
        seen = set()
        st = [s for s in starts if s not in avoid]
        seen.update(st)
        while st:
            b = st.pop()
            for s in self.succ[b]:
                if s not in seen and s not in avoid:
                    seen.add(s)
                    st.append(s)
        return seen

    def dominators(self):
        """idom-free simple iterative dominator sets (functions here are small)."""
        if self._dom is not None:
            return self._dom
        reach = self.reachable(0)
        allb = set(reach)
        dom = {b: set(allb) for b in reach}
        dom[0] = {0}
        changed = True
        order = sorted(reach)
        while changed:
            changed = False
            for b in order:
                if b == 0:
                    continue
                ps = [p for p in self.pred[b] if p in reach]
                if not ps:
                    continue
                new = set.intersection(*(dom[p] for p in ps)) | {b}
                if new != dom[b]:
                    dom[b] = new
                    changed = True
        self._dom = dom
        return dom

    def dominates(self, a, b):
        d = self.dominators()
        return b in d and a in d[b]

    def edge_dominates(self, src, dst, b):
        """Does every path from entry to block b pass through the edge src->dst?
        True iff b is unreachable when that edge is removed."""
        seen = {0}
        st = [0]
        while st:
            x = st.pop()
            for s in self.succ[x]:
                if x == src and s == dst:
                    continue
                if s not in seen:
                    seen.add(s)
                    st.append(s)
        return b not in seen and b in self.reachable(0)

    def in_loop(self, b):
        """Is block b on a cycle?"""
        return b in self.reachable_from(self.succ[b])

    def calls(self):
        for i, b in enumerate(self.blocks):
            t = b["term"]
            if t["k"] == "call":
                yield i, t

    def returns(self):
        return [i for i, b in enumerate(self.blocks) if b["term"]["k"] == "return" and i in self.reachable(0)]


def callee(t):
    return t.get("resolved") or t.get("callee") or ""


def is_callee(t, *names):
    r, c = t.get("resolved") or "", t.get("callee") or ""
    for n in names:
        if r == n or c == n or r.endswith("::" + n) or c.endswith("::" + n):
            return True
    return False


def op_local(o):
    """Local index of a copy/move operand without projection, else None."""
    for k in ("copy", "move"):
        if k in o:
            p = o[k]
            if not p.get("p"):
                return p["l"]
    return None


def op_place(o):
    for k in ("copy", "move"):
        if k in o:
            return o[k]
    return None


def op_const(o):
    if "const_ty" in o:
        return o.get("v")
    return None


def place_key(p):
    return (p["l"], json_key(p.get("p", [])))


def json_key(x):
    import json
    return json.dumps(x, sort_keys=True)


def local_name(mir, l):
    return mir["locals"][l].get("name")


def defs_of(cfg, local):
    """All (block, stmt_index|'term') that assign the bare local."""
    out = []
    for bi, b in enumerate(cfg.blocks):
        for si, s in enumerate(b["stmts"]):
            if s["k"] == "assign" and s["p"]["l"] == local and not s["p"].get("p"):
                out.append((bi, si, s))
        t = b["term"]
        if t["k"] == "call" and t["dest"]["l"] == local and not t["dest"].get("p"):
            out.append((bi, "term", t))
    return out


def resolve_copy(cfg, local, depth=8):
    """Follow single-definition copy/move/ref/cast chains of temporaries back to their source operand.
    Returns a description dict: {'local':l} | {'const':v} | {'call':term} | {'rv':rvalue} ."""
    seen = set()
    while depth > 0 and local not in seen:
        seen.add(local)
        depth -= 1
        ds = defs_of(cfg, local)
        if len(ds) != 1:
            return {"local": local, "defs": len(ds)}
        _, si, s = ds[0]
        if si == "term":
            return {"call": s, "local": local}
        rv = s["rv"]
        if rv["k"] == "use":
            a = rv["a"]
            l2 = op_local(a)
            if l2 is not None:
                local = l2
                continue
            if "const_ty" in a:
                return {"const": a.get("v"), "op": a}
            return {"place": op_place(a)}
        if rv["k"] == "cast":
            a = rv["a"]
            l2 = op_local(a)
            if l2 is not None:
                local = l2
                continue
            return {"rv": rv, "local": local}
        if rv["k"] == "ref" and not rv["p"].get("p"):
            local = rv["p"]["l"]
            continue
        return {"rv": rv, "local": local}
    return {"local": local}
